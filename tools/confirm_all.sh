#!/bin/bash
# confirm_all.sh <PROP>   confirm seeds a and b in /tmp/wt-<PROP>, write results to /tmp/confirm-<PROP>.txt
P=$1
for v in a b; do
  if [ -d /tmp/wt-$P/seeded/$v ]; then
    echo "== $P/$v" ; /verif/tools/confirm_seed.sh /tmp/wt-$P /tmp/wt-$P/seeded/$v seeded_$v
  fi
done > /tmp/confirm-$P.txt 2>&1
