#!/bin/bash
# confirm_all.sh <PROP>   confirm seeds a and b in /tmp/wt-<PROP>, write results to /tmp/confirm-<PROP>.txt
P=$1
for v in a b; do
  if [ -d /tmp/wt-$P/seeded/$v ]; then
    F="seeded_$v"
    if grep -q "^+++ b/tests/" /tmp/wt-$P/seeded/$v/demo.diff; then
      T=$(grep "^+++ b/tests/" /tmp/wt-$P/seeded/$v/demo.diff | head -1 | sed 's#+++ b/tests/##; s#\.rs##'); F="--test $T"
    fi
    echo "== $P/$v" ; /verif/tools/confirm_seed.sh /tmp/wt-$P /tmp/wt-$P/seeded/$v "$F"
  fi
done > /tmp/confirm-$P.txt 2>&1
