#!/bin/bash
# refcheck.sh <diff>...  apply each behaviour-preserving diff to /repo, run every check (quick), undo; print alarms
cd /verif
for P in "$@"; do
  git -C /repo apply "$P" 2>/dev/null || { echo "$P: DOES-NOT-APPLY"; continue; }
  OUT=$(./check all 2>&1 | grep -E "rule |BROKEN|Traceback" | cut -c1-260)
  git -C /repo checkout -- .
  if [ -z "$OUT" ]; then echo "$P: silent"; else echo "$P: ALARMS"; echo "$OUT" | sort | uniq | head -12; fi
done
