#!/usr/bin/env python3
"""mkprompt.py <PROP> <round>  -- write /tmp/agent-prompt<round>-<PROP>.txt: the seeding brief for an independent sub-agent.
The brief contains only the property text and one-line descriptions of the changes kept so far (so that a new round
explores other mechanisms); nothing about how /verif decides the property."""
import glob, json, os, sys
prop, rnd = sys.argv[1], sys.argv[2]
P = [json.loads(l) for l in open('/verif/properties.jsonl')]
p = [x for x in P if x['id'] == prop][0]
tmpl = open('/verif/tools/seed_prompt.tmpl').read()
earlier = []
for d in sorted(glob.glob('/verif/seeded/%s-*' % prop)):
    earlier.append('  - ' + json.load(open(os.path.join(d, 'meta.json')))['breaks'])
txt = tmpl.replace('@P@', prop).replace('@TITLE@', p['title']).replace('@STATEMENT@', p['statement']).replace('@QUANT@', p['quantifier']['text']).replace('@EARLIER@', '\n'.join(earlier))
open('/tmp/agent-prompt%s-%s.txt' % (rnd, prop), 'w').write(txt)
print('/tmp/agent-prompt%s-%s.txt' % (rnd, prop), len(earlier), 'earlier')
