#!/usr/bin/env python3
"""combo.py [N] [seed] -- apply random combinations of the stored behaviour-preserving refactoring diffs to scratch copies of
/repo (every diff that still applies after the previous ones, up to 8 per combination) and check that all 20 properties
stay silent.  /repo is not touched."""
import glob, os, random, shutil, subprocess, sys
sys.path.insert(0, os.path.join(os.path.dirname(os.path.dirname(os.path.abspath(__file__))), 'sa'))
import selftest, extract
N = int(sys.argv[1]) if len(sys.argv) > 1 else 6
rnd = random.Random(int(sys.argv[2]) if len(sys.argv) > 2 else 1)
diffs = sorted(glob.glob('/verif/refactors/*.diff'))
for p in selftest.ALL_PROPS:
    selftest.baseline(p)
bad = 0
for n in range(N):
    order = diffs[:]
    rnd.shuffle(order)
    d = selftest.scratch_copy()
    used = []
    try:
        for df in order:
            if len(used) >= 8:
                break
            r = subprocess.run(['patch', '-p1', '-s', '-f', '--dry-run', '-i', df], cwd=d, capture_output=True, text=True)
            if r.returncode == 0:
                subprocess.run(['patch', '-p1', '-s', '-f', '-i', df], cwd=d, capture_output=True, text=True)
                used.append(os.path.basename(df)[:-5])
        try:
            F = selftest.scratch_facts(d)
        except extract.ExtractError as e:
            print('combo %d %s: does not compile together (skipped)' % (n, used))
            continue
    finally:
        shutil.rmtree(d, ignore_errors=True)
    alarms = []
    for prop in selftest.ALL_PROPS:
        vs = [v for v in selftest.violations_for(prop, F) if v['key'] not in selftest.baseline(prop)]
        if vs:
            alarms.append('%s %s' % (prop, sorted({v['rule'] for v in vs})))
    print('combo %d %s: %s' % (n, used, 'silent' if not alarms else 'ALARMS ' + '; '.join(alarms)), flush=True)
    bad += bool(alarms)
sys.exit(1 if bad else 0)
