#!/usr/bin/env python3
"""keep_seed.py <PROP> <variant> <detected_by or 'MISSED'> <one-line needs>  -- copy a confirmed seed from /tmp/wt-<PROP> into /verif/seeded/"""
import json, os, shutil, sys
prop, var, det, needs = sys.argv[1:5]
target = sys.argv[5] if len(sys.argv) > 5 else var
src = '/tmp/wt-%s/seeded/%s' % (prop, var)
dst = '/verif/seeded/%s-%s' % (prop, target)
os.makedirs(dst, exist_ok=True)
for f in ('patch.diff', 'demo.diff', 'NOTES.md'):
    shutil.copy(os.path.join(src, f), os.path.join(dst, f))
conf = open('/tmp/confirm-%s.txt' % prop).read()
sec = conf.split('== %s/%s' % (prop, var))[1].split('== ')[0].strip()
json.dump({'property': prop, 'breaks': needs, 'source': 'independent sub-agent given only the property text and a scratch worktree',
           'confirmed_by_me': sec.splitlines(), 'confirm_cmd': 'tools/confirm_seed.sh <scratch worktree> seeded/%s-%s seeded_%s' % (prop, var, var),
           'check_cmd': 'tools/seedcheck.sh seeded/%s-%s/patch.diff %s' % (prop, var, prop), 'detected_by': det}, open(os.path.join(dst, 'meta.json'), 'w'), indent=1)
print('kept', dst)
