#!/usr/bin/env python3
"""seedtable.py -- regenerate the seed table of DESIGN.md (section 10.5) from seeded/*/meta.json"""
import glob, json, os, re
rows = []
for d in sorted(glob.glob('/verif/seeded/*')):
    m = json.load(open(os.path.join(d, 'meta.json')))
    rows.append('| %s | %s | %s |' % (os.path.basename(d), m['breaks'].replace('|', '/').replace('\n', ' '), m['detected_by'].replace('|', '/').replace('\n', ' ')))
s = open('/verif/DESIGN.md').read()
lines = s.split('\n')
a = next(i for i, l in enumerate(lines) if l.startswith('| seed | what it breaks'))
b = a + 2
while b < len(lines) and lines[b].startswith('| C'):
    b += 1
# rows wrapped over two lines in the old text are dropped with their continuation
while b < len(lines) and lines[b].strip() and not lines[b].startswith(('Misses', '#')):
    b += 1
lines[a + 2:b] = rows + ['']
open('/verif/DESIGN.md', 'w').write('\n'.join(lines))
print(len(rows), 'rows')
