#!/bin/bash
# dbgfacts.sh [diff]  -- write .cache/facts-debug.json for /repo (optionally with <diff> applied, reverted afterwards)
cd /verif
[ -n "$1" ] && { git -C /repo apply "$1" || exit 1; }
python3 - <<'PY'
import sys, json
sys.path.insert(0, 'sa')
import extract
j = extract.extract('default')
json.dump(j, open('.cache/facts-debug.json', 'w'))
print('facts-debug.json written', len(j['fns']), 'fns')
PY
[ -n "$1" ] && git -C /repo checkout -- .
