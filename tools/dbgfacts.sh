#!/bin/bash
# dbgfacts.sh [diff]  -- write .cache/facts-debug.json for a scratch copy of /repo (optionally with <diff> applied); /repo is not touched
P=""; [ -n "$1" ] && P=$(realpath "$1")
cd /verif
D=$(mktemp -d /tmp/arroy-dbg-XXXX)
cp -r /repo/src /repo/Cargo.toml /repo/Cargo.lock "$D"/ ; [ -d /repo/examples ] && cp -r /repo/examples "$D"/; [ -d /repo/assets ] && cp -r /repo/assets "$D"/
if [ -n "$1" ]; then (cd "$D" && patch -p1 -s < "$P") || { rm -rf "$D"; exit 1; }; fi
python3 - "$D" <<'PY'
import sys, json
sys.path.insert(0, 'sa')
import extract
d = sys.argv[1]
j = extract.extract('default', repo=d, manifest_dir=d)
json.dump(j, open('.cache/facts-debug.json', 'w'))
print('facts-debug.json written', len(j['fns']), 'fns')
PY
rm -rf "$D"
