#!/usr/bin/env python3
"""seedmix.py [N] [rng-seed] -- detection under refactoring: apply a kept seeded change (or a catalogue mutant is not used here)
on top of a few random stored refactoring diffs (scratch copy of /repo; /repo itself is not touched) and check that the
property of the seed still raises an alarm.  A miss here is not a false alarm, it shows a rule that a refactoring made
vacuous or undecided."""
import glob, json, os, random, shutil, subprocess, sys
sys.path.insert(0, os.path.join(os.path.dirname(os.path.dirname(os.path.abspath(__file__))), 'sa'))
import selftest, extract
N = int(sys.argv[1]) if len(sys.argv) > 1 else 10
rnd = random.Random(int(sys.argv[2]) if len(sys.argv) > 2 else 1)
diffs = sorted(glob.glob('/verif/refactors/*.diff'))
seeds = sorted(glob.glob('/verif/seeded/*/patch.diff'))
only = sys.argv[3:] 
if only:
    seeds = [s for s in seeds if any(o in s for o in only)]


def touched(df):
    return {l[6:].strip() for l in open(df) if l.startswith('+++ b/')}


missed = 0
for n in range(N):
    sd = rnd.choice(seeds)
    prop = os.path.basename(os.path.dirname(sd)).split('-')[0]
    order = diffs[:]
    rnd.shuffle(order)
    # prefer refactorings of the files the seed touches
    order.sort(key=lambda df: 0 if touched(df) & touched(sd) else 1)
    d = selftest.scratch_copy()
    used = []
    try:
        for df in order:
            if len(used) >= 3:
                break
            r = subprocess.run(['patch', '-p1', '-s', '-f', '--dry-run', '-i', df], cwd=d, capture_output=True, text=True)
            if r.returncode != 0:
                continue
            subprocess.run(['patch', '-p1', '-s', '-f', '-i', df], cwd=d, capture_output=True, text=True)
            r = subprocess.run(['patch', '-p1', '-s', '-f', '--dry-run', '-i', sd], cwd=d, capture_output=True, text=True)
            if r.returncode != 0:
                subprocess.run(['patch', '-p1', '-s', '-f', '-R', '-i', df], cwd=d, capture_output=True, text=True)
                continue
            used.append(os.path.basename(df)[:-5])
        subprocess.run(['patch', '-p1', '-s', '-f', '-i', sd], cwd=d, capture_output=True, text=True)
        try:
            F = selftest.scratch_facts(d)
        except extract.ExtractError as e:
            print('mix %d %s + %s: does not compile together (skipped)' % (n, os.path.basename(os.path.dirname(sd)), used), flush=True)
            continue
    finally:
        shutil.rmtree(d, ignore_errors=True)
    vs = [v for v in selftest.violations_for(prop, F) if v['key'] not in selftest.baseline(prop)]
    print('mix %d %s + %s: %s' % (n, os.path.basename(os.path.dirname(sd)), used, 'detected ' + str(sorted({v['rule'] for v in vs})) if vs else 'MISSED'), flush=True)
    missed += not vs
print('%d mixes, %d missed' % (N, missed))
