#!/bin/bash
# seedcheck.sh <patch.diff> <prop>...   apply a seeded change to /repo, run the checks, undo it straight afterwards
P=$1; shift
cd /verif
git -C /repo apply "$P" || { echo "patch does not apply"; exit 2; }
trap 'git -C /repo checkout -- .' EXIT
for prop in "$@"; do ./check $prop --tier quick 2>&1 | grep -E "VIOLATION|rule |quick:|BROKEN" | cut -c1-300; done
