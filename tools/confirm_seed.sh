#!/bin/bash
# confirm_seed.sh <worktree> <seed-dir> <demo-test-filter>
# 1. patch only: full suite passes  2. demo only: demo passes  3. patch+demo: demo fails
WT=$1; SD=$2; FILT=$3
cd "$WT" || exit 2
export CARGO_NET_OFFLINE=true
clean() { git checkout -q -- . ; git clean -fdq -- src tests examples 2>/dev/null; }
clean
git apply "$SD/patch.diff" || { echo "PATCH-DOES-NOT-APPLY"; exit 2; }
cargo test --offline --lib 2>&1 | grep -E "^test result|FAILED|panicked|error(\[|:)" | head -5 > /tmp/cs1.$$; R1=$(grep -c "test result: ok" /tmp/cs1.$$)
clean
git apply "$SD/demo.diff" || { echo "DEMO-DOES-NOT-APPLY"; exit 2; }
cargo test --offline $FILT 2>&1 | grep -E "^test result" > /tmp/cs2.$$; R2=$(grep -c "test result: ok" /tmp/cs2.$$); N2=$(grep -o "[0-9]* passed" /tmp/cs2.$$ | awk '{s+=$1} END{print s+0}')
git apply "$SD/patch.diff" || { echo "PATCH+DEMO-DOES-NOT-APPLY"; clean; exit 2; }
cargo test --offline $FILT 2>&1 | grep -E "^test result" > /tmp/cs3.$$; R3=$(grep -c "FAILED" /tmp/cs3.$$)
clean
echo "suite-with-patch: $(cat /tmp/cs1.$$ | tr '\n' ' ')"
echo "demo-without-patch: ok-lines=$R2 passed=$N2"
echo "demo-with-patch: failed-lines=$R3"
if [ "$R1" -ge 1 ] && [ "$N2" -ge 1 ] && [ "$R3" -ge 1 ] && ! grep -q FAILED /tmp/cs1.$$; then echo CONFIRMED; else echo NOT-CONFIRMED; fi
rm -f /tmp/cs?.$$
