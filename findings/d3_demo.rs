use super::{create_database, rng};
use crate::distance::Euclidean;
use crate::{Reader, Writer};

/// C15: "at least one tree when the choice is left to arroy ... searches on any non-empty index return results",
/// for all dimensions >= 1.  With one dimension the bucket capacity is 1 and the automatic tree count is
/// n / (n / 1 + 1) = 0.
#[test]
fn d3_one_dimensional_index_gets_a_tree() {
    let handle = create_database::<Euclidean>();
    let mut rng = rng();
    let mut wtxn = handle.env.write_txn().unwrap();
    let writer = Writer::new(handle.database, 0, 1);
    for i in 0..5u32 {
        writer.add_item(&mut wtxn, i, &[i as f32]).unwrap();
    }
    writer.builder(&mut rng).build(&mut wtxn).unwrap();
    wtxn.commit().unwrap();

    let rtxn = handle.env.read_txn().unwrap();
    let reader = Reader::<Euclidean>::open(&rtxn, 0, handle.database).unwrap();
    assert_eq!(reader.n_items(), 5);
    assert!(reader.n_trees() >= 1, "automatic tree count is {}", reader.n_trees());
    let found = reader.nns(3).by_vector(&rtxn, &[2.0]).unwrap();
    assert_eq!(found.len(), 3, "search on a non-empty index returned {found:?}");
}
