use std::num::NonZeroUsize;

use super::{create_database, rng};
use crate::distance::{BinaryQuantizedEuclidean, Euclidean};
use crate::{Reader, Writer};

// D1: incremental insertion next to a single-item child re-tags children as items
#[test]
fn d1_insert_next_to_single_item_child() {
    let handle = create_database::<Euclidean>();
    let mut rng = rng();
    let mut wtxn = handle.env.write_txn().unwrap();
    let writer = Writer::new(handle.database, 0, 2);
    writer.add_item(&mut wtxn, 0, &[0., 0.]).unwrap();
    writer.add_item(&mut wtxn, 1, &[1., 0.]).unwrap();
    writer.add_item(&mut wtxn, 2, &[2., 0.]).unwrap();
    writer.builder(&mut rng).n_trees(1).build(&mut wtxn).unwrap();
    wtxn.commit().unwrap();
    // tree: split { left: Tree(descendants [1,2]), right: Item(0) }
    let mut wtxn = handle.env.write_txn().unwrap();
    writer.add_item(&mut wtxn, 3, &[-1., 0.]).unwrap();
    writer.builder(&mut rng).n_trees(1).build(&mut wtxn).unwrap();
    wtxn.commit().unwrap();
    let rtxn = handle.env.read_txn().unwrap();
    let reader = Reader::<Euclidean>::open(&rtxn, 0, handle.database).unwrap();
    reader.assert_validity(&rtxn).unwrap();
    let nns = reader.nns(10).search_k(NonZeroUsize::new(1000).unwrap()).by_vector(&rtxn, &[0., 0.]).unwrap();
    assert_eq!(nns.len(), 4);
}

// D1b: the over-full worklist receives the item's id
#[test]
fn d1b_overfull_bucket_next_to_single_item_child() {
    let handle = create_database::<Euclidean>();
    let mut rng = rng();
    let mut wtxn = handle.env.write_txn().unwrap();
    let writer = Writer::new(handle.database, 0, 2);
    writer.add_item(&mut wtxn, 0, &[0., 0.]).unwrap();
    writer.add_item(&mut wtxn, 1, &[1., 0.]).unwrap();
    writer.add_item(&mut wtxn, 2, &[2., 0.]).unwrap();
    writer.builder(&mut rng).n_trees(1).build(&mut wtxn).unwrap();
    wtxn.commit().unwrap();
    let mut wtxn = handle.env.write_txn().unwrap();
    writer.add_item(&mut wtxn, 13, &[-1., 0.]).unwrap();
    writer.add_item(&mut wtxn, 14, &[-2., 0.]).unwrap();
    writer.add_item(&mut wtxn, 15, &[-3., 0.]).unwrap();
    writer.builder(&mut rng).n_trees(1).build(&mut wtxn).unwrap();
    wtxn.commit().unwrap();
    let rtxn = handle.env.read_txn().unwrap();
    let reader = Reader::<Euclidean>::open(&rtxn, 0, handle.database).unwrap();
    reader.assert_validity(&rtxn).unwrap();
}

// D2: shrinking the forest looks up deleted single-item children
#[test]
fn d2_delete_single_item_child_then_shrink() {
    let handle = create_database::<Euclidean>();
    let mut rng = rng();
    let mut wtxn = handle.env.write_txn().unwrap();
    let writer = Writer::new(handle.database, 0, 2);
    writer.add_item(&mut wtxn, 0, &[0., 0.]).unwrap();
    writer.add_item(&mut wtxn, 1, &[1., 0.]).unwrap();
    writer.add_item(&mut wtxn, 2, &[2., 0.]).unwrap();
    writer.builder(&mut rng).n_trees(2).build(&mut wtxn).unwrap();
    wtxn.commit().unwrap();
    let mut wtxn = handle.env.write_txn().unwrap();
    writer.del_item(&mut wtxn, 0).unwrap();
    writer.del_item(&mut wtxn, 1).unwrap();
    writer.del_item(&mut wtxn, 2).unwrap();
    writer.add_item(&mut wtxn, 7, &[7., 0.]).unwrap();
    writer.add_item(&mut wtxn, 5, &[5., 0.]).unwrap();
    writer.add_item(&mut wtxn, 6, &[6., 0.]).unwrap();
    writer.builder(&mut rng).n_trees(1).build(&mut wtxn).unwrap();
    wtxn.commit().unwrap();
    let rtxn = handle.env.read_txn().unwrap();
    let reader = Reader::<Euclidean>::open(&rtxn, 0, handle.database).unwrap();
    reader.assert_validity(&rtxn).unwrap();
}

// D4: count * n_trees overflows
#[test]
fn d4_count_usize_max() {
    let handle = create_database::<Euclidean>();
    let mut rng = rng();
    let mut wtxn = handle.env.write_txn().unwrap();
    let writer = Writer::new(handle.database, 0, 2);
    for i in 0..10 {
        writer.add_item(&mut wtxn, i, &[i as f32, 0.]).unwrap();
    }
    writer.builder(&mut rng).n_trees(2).build(&mut wtxn).unwrap();
    wtxn.commit().unwrap();
    let rtxn = handle.env.read_txn().unwrap();
    let reader = Reader::<Euclidean>::open(&rtxn, 0, handle.database).unwrap();
    let nns = reader.nns(usize::MAX).by_vector(&rtxn, &[0., 0.]).unwrap();
    assert_eq!(nns.len(), 10);
}

// D8: metric change stores padded vectors
#[test]
fn d8_change_distance_from_quantized_keeps_dimension() {
    let handle = create_database::<BinaryQuantizedEuclidean>();
    let mut rng = rng();
    let mut wtxn = handle.env.write_txn().unwrap();
    let writer = Writer::new(handle.database, 0, 3);
    writer.add_item(&mut wtxn, 0, &[1., -1., 1.]).unwrap();
    writer.add_item(&mut wtxn, 1, &[-1., -1., 1.]).unwrap();
    writer.builder(&mut rng).build(&mut wtxn).unwrap();
    let writer = writer.prepare_changing_distance::<Euclidean>(&mut wtxn).unwrap();
    assert_eq!(writer.item_vector(&wtxn, 0).unwrap().unwrap(), vec![1., -1., 1.]);
    writer.add_item(&mut wtxn, 2, &[1., 1., 1.]).unwrap();
    for i in 3..10 {
        writer.add_item(&mut wtxn, i, &[1., 1., i as f32]).unwrap();
    }
    writer.builder(&mut rng).build(&mut wtxn).unwrap();
    wtxn.commit().unwrap();
    let rtxn = handle.env.read_txn().unwrap();
    let database = handle.database.remap_data_type();
    let reader = Reader::<Euclidean>::open(&rtxn, 0, database).unwrap();
    reader.assert_validity(&rtxn).unwrap();
}

// D9: iteration yields padded vectors for quantised metrics
#[test]
fn d9_iter_quantized_dimension() {
    let handle = create_database::<BinaryQuantizedEuclidean>();
    let mut wtxn = handle.env.write_txn().unwrap();
    let writer = Writer::new(handle.database, 0, 3);
    writer.add_item(&mut wtxn, 0, &[1., -1., 1.]).unwrap();
    let got: Vec<_> = writer.iter(&wtxn).unwrap().map(|r| r.unwrap()).collect();
    assert_eq!(got, vec![(0, vec![1., -1., 1.])]);
    assert_eq!(writer.item_vector(&wtxn, 0).unwrap().unwrap(), vec![1., -1., 1.]);
}
