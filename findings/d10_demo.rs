use super::{create_database, rng};
use crate::distance::Euclidean;
use crate::Writer;
use rand::Rng;

#[test]
fn d10_tiny_memory_large_dimension_terminates() {
    let handle = create_database::<Euclidean>();
    let mut rng = rng();
    let mut wtxn = handle.env.write_txn().unwrap();
    let writer = Writer::new(handle.database, 0, 250);
    for i in 0..300 {
        let v: Vec<f32> = (0..250).map(|_| rng.gen::<f32>()).collect();
        writer.add_item(&mut wtxn, i, &v).unwrap();
    }
    writer.builder(&mut rng).n_trees(1).available_memory(0).build(&mut wtxn).unwrap();
}
