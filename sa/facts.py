"""Fact model over the extractor's JSON: functions, CFG, dominators, def-use and
symbolic "origin terms" of operands.  Stdlib only.

Terms (nested tuples) describe where a value comes from, following
single-definition MIR temporaries:

  ('const', ty, value)            scalar constant (value = int from bits, or text)
  ('fn', path)                    function item constant
  ('arg', n, name)                n-th parameter (1-based, as MIR local index)
  ('var', local, name)            local with several / partial definitions
  ('call', callee, [args], site)  result of a call; site = (block index)
  ('try', t)                      the Continue payload of `t?`
  ('ref', t) ('deref', t) ('field', t, name) ('downcast', t, variant) ('index', t)
  ('cast', kind, t, ty) ('binop', op, a, b) ('unop', op, a) ('discr', t)
  ('agg', adt, variant, [(field, t)..])  ('tuple', [t..]) ('array', [t..]) ('closure', path, [t..])
  ('phi', local, [t..])           several whole definitions
  ('unknown', why)
"""
import json
from collections import defaultdict

MAX_DEPTH = 60


def place_str(p):
    s = '_%d' % p['l']
    for e in p['p']:
        k = e['k']
        if k == 'deref':
            s = '(*%s)' % s
        elif k == 'field':
            s += '.%s' % e['n']
        elif k == 'downcast':
            s += ' as %s' % e['n']
        elif k == 'cindex':
            s += '[%d%s]' % (e['o'], '-end' if e['from_end'] else '')
        elif k == 'subslice':
            s += '[%d..%s%d]' % (e['from'], '-' if e['from_end'] else '', e['to'])
        elif k == 'index':
            s += '[_%d]' % e['l']
        else:
            s += '[?]'
    return s


def const_value(c):
    """int value of a scalar constant, or None."""
    if 'bits' in c:
        return int(c['bits'])
    return None


def signed(v, size):
    if v is None:
        return None
    if v >= 1 << (8 * size - 1):
        return v - (1 << (8 * size))
    return v


class Call:
    __slots__ = ('fn', 'bb', 'callee', 'resolved', 'gargs', 'feats', 'args', 'dest', 'target', 'span', 'func')

    def __init__(self, fn, bb, t):
        self.fn = fn
        self.bb = bb
        self.callee = t['callee'] or ''
        self.resolved = t['resolved'] or ''
        self.gargs = t['gargs'] or ''
        self.feats = t['feats']
        self.args = t['args']
        self.dest = t['dest']
        self.target = t['t']
        self.span = t['span']
        self.func = t['func']

    @property
    def name(self):
        """best-known callee path: the resolved instance when available"""
        return self.resolved or self.callee

    def loc(self):
        return '%s:%d:%d' % (self.span['file'], self.span['line'], self.span['col'])

    @property
    def gnames(self):
        """generic arguments as plain names: '[ND/#1, R/#2]' -> ['ND', 'R']"""
        import re
        g = self.gargs.strip()
        if g.startswith('['):
            g = g[1:-1]
        out = []
        depth = 0
        cur = ''
        for ch in g:
            if ch in '<([':
                depth += 1
            if ch in '>)]':
                depth -= 1
            if ch == ',' and depth == 0:
                out.append(cur.strip())
                cur = ''
            else:
                cur += ch
        if cur.strip():
            out.append(cur.strip())
        return [re.sub(r'/#\d+', '', x) for x in out]

    def arg_term(self, i):
        return self.fn.term(self.args[i])

    def __repr__(self):
        return 'Call(%s @bb%d %s)' % (self.callee, self.bb, self.loc())


class Fn:
    def __init__(self, facts, j):
        self.facts = facts
        self.j = j
        self.path = j['path']
        self.kind = j['kind']
        self.vis = j['vis']
        self.parent = j['parent']
        self.feats = j['feats']
        self.upvars = j['upvars']
        self.span = j['span']
        self.is_unsafe = j.get('unsafe', False)
        self.in_test = j.get('in_test', False)
        self.arg_count = j['arg_count']
        self.locals = j['locals']
        self.blocks = j['blocks']
        self.n = len(self.blocks)
        self._succ = None
        self._pred = None
        self._dom = None
        self._pdom = None
        self._defs = None
        self._calls = None
        self._term_cache = {}

    # ------------------------------------------------------------------ basics
    def loc(self):
        return '%s:%d' % (self.span['file'], self.span['line'])

    def local_name(self, l):
        return self.locals[l]['name']

    def local_ty(self, l):
        return self.locals[l]['ty']

    def ret_ty(self):
        return self.locals[0]['ty']

    def arg_locals(self):
        return list(range(1, self.arg_count + 1))

    def arg_by_name(self, name):
        for l in self.arg_locals():
            if self.locals[l]['name'] == name:
                return l
        return None

    def live_blocks(self):
        return [i for i, b in enumerate(self.blocks) if not b['cleanup']]

    # --------------------------------------------------------------------- CFG
    def succ(self, b):
        if self._succ is None:
            self._succ = []
            for blk in self.blocks:
                t = blk['term']
                k = t['k']
                if blk['cleanup']:
                    self._succ.append([])
                elif k in ('goto', 'drop', 'assert'):
                    self._succ.append([t['t']])
                elif k == 'call':
                    self._succ.append([t['t']] if t['t'] >= 0 else [])
                elif k == 'switch' and self._const_discr(t['discr']) is not None:
                    # compile-time decided branch (cfg!(..), const generics): only the live edge
                    v = self._const_discr(t['discr'])
                    live = t['otherwise']
                    for val, tg in t['targets']:
                        if int(val) == v:
                            live = tg
                    self._succ.append([live])
                elif k == 'switch':
                    s = []
                    for _, tg in t['targets']:
                        if tg not in s:
                            s.append(tg)
                    if t['otherwise'] not in s:
                        s.append(t['otherwise'])
                    self._succ.append(s)
                else:
                    self._succ.append([])
        return self._succ[b]

    def _const_discr(self, op):
        """value of a switch discriminant that is a compile-time constant (directly or through one temporary)"""
        if op.get('k') == 'const':
            return int(op['c']['bits']) if 'bits' in op['c'] else None
        if op.get('k') in ('copy', 'move') and not op['place']['p']:
            l = op['place']['l']
            if 1 <= l <= self.arg_count:
                return None
            defs = []
            for blk in self.blocks:
                if blk['cleanup']:
                    continue
                for st in blk['stmts']:
                    if st['place']['l'] == l:
                        defs.append(st)
                tt = blk['term']
                if tt['k'] == 'call' and tt['dest']['l'] == l:
                    return None
            if len(defs) == 1 and not defs[0]['place']['p'] and defs[0]['rv']['k'] == 'use' and defs[0]['rv']['o'].get('k') == 'const' \
                    and 'bits' in defs[0]['rv']['o']['c']:
                return int(defs[0]['rv']['o']['c']['bits'])
        return None

    def pred(self, b):
        if self._pred is None:
            self._pred = [[] for _ in range(self.n)]
            for i in range(self.n):
                for s in self.succ(i):
                    self._pred[s].append(i)
        return self._pred[b]

    def reachable(self, start, avoid=()):
        """blocks reachable from `start` (inclusive) without entering `avoid`"""
        avoid = set(avoid)
        seen = set()
        st = [start] if start not in avoid else []
        while st:
            b = st.pop()
            if b in seen:
                continue
            seen.add(b)
            for s in self.succ(b):
                if s not in seen and s not in avoid:
                    st.append(s)
        return seen

    def return_blocks(self):
        return [i for i, b in enumerate(self.blocks) if b['term']['k'] == 'return' and not b['cleanup']]

    def entry_reachable(self):
        return self.reachable(0)

    def dominators(self):
        """dom[b] = set of blocks dominating b (including b)"""
        if self._dom is None:
            nodes = sorted(self.entry_reachable())
            allb = set(nodes)
            dom = {b: set(allb) for b in nodes}
            dom[0] = {0}
            changed = True
            while changed:
                changed = False
                for b in nodes:
                    if b == 0:
                        continue
                    ps = [p for p in self.pred(b) if p in dom]
                    new = set(allb)
                    for p in ps:
                        new &= dom[p]
                    new.add(b)
                    if new != dom[b]:
                        dom[b] = new
                        changed = True
            self._dom = dom
        return self._dom

    def dominates(self, a, b):
        d = self.dominators()
        return b in d and a in d[b]

    def post_dominators(self):
        """pdom[b] = blocks that post-dominate b w.r.t. normal return"""
        if self._pdom is None:
            nodes = sorted(self.entry_reachable())
            allb = set(nodes)
            exits = [b for b in nodes if not self.succ(b)]
            pd = {b: set(allb) for b in nodes}
            for e in exits:
                pd[e] = {e}
            changed = True
            while changed:
                changed = False
                for b in reversed(nodes):
                    if b in exits:
                        continue
                    ss = [s for s in self.succ(b) if s in pd]
                    new = set(allb)
                    for s in ss:
                        new &= pd[s]
                    new.add(b)
                    if new != pd[b]:
                        pd[b] = new
                        changed = True
            self._pdom = pd
        return self._pdom

    def path_exists(self, src, dsts, avoid=()):
        r = self.reachable(src, avoid)
        return any(d in r for d in dsts)

    def in_cycle(self, b):
        """is block b on a CFG cycle"""
        for s in self.succ(b):
            if b in self.reachable(s):
                return True
        return False

    # ---------------------------------------------------------------- def-use
    def defs(self):
        """local -> list of definitions.
        ('assign', bb, idx, rv, proj) | ('call', bb, Call, proj)"""
        if self._defs is None:
            d = defaultdict(list)
            for bi, blk in enumerate(self.blocks):
                if blk['cleanup']:
                    continue
                for si, st in enumerate(blk['stmts']):
                    p = st['place']
                    d[p['l']].append(('assign', bi, si, st['rv'], p['p']))
                t = blk['term']
                if t['k'] == 'call':
                    p = t['dest']
                    d[p['l']].append(('call', bi, self.call_at(bi), p['p']))
            self._defs = d
        return self._defs

    def defs_in_block(self, b):
        """[(local, term)] whole definitions made in block b, in order"""
        out = []
        blk = self.blocks[b]
        for si, st in enumerate(blk['stmts']):
            p = st['place']
            if not p['p']:
                out.append((p['l'], self._def_term(('assign', b, si, st['rv'], p['p']), 0, frozenset([p['l']]))))
        t = blk['term']
        if t['k'] == 'call' and not t['dest']['p']:
            out.append((t['dest']['l'], self._def_term(('call', b, self.call_at(b), []), 0, frozenset([t['dest']['l']]))))
        return out

    def local_term_in_env(self, l, env):
        """term of local l, where multi-definition locals take their path-specific value from env"""
        if l in env:
            return env[l]
        return self.local_term(l)

    def uses(self, l):
        """every read of local l: list of dicts
        {'k': 'arg', 'bb', 'call', 'i', 'whole'} | {'k': 'rv', 'bb', 'si', 'rk', 'dest', 'whole', 'rv'} |
        {'k': 'switch', 'bb'} | {'k': 'drop', 'bb'} | {'k': 'assert', 'bb'}
        `whole` is True when the operand/place is exactly the local (no projection)."""
        if not hasattr(self, '_uses'):
            u = defaultdict(list)

            def op_use(o, rec):
                if o.get('k') in ('copy', 'move'):
                    pl = o['place']
                    r = dict(rec)
                    r['whole'] = not pl['p']
                    r['mode'] = o['k']
                    r['proj'] = pl['p']
                    u[pl['l']].append(r)
                    for e in pl['p']:
                        if e['k'] == 'index':
                            u[e['l']].append({'k': 'index', 'bb': rec['bb'], 'whole': True})

            def place_use(pl, rec):
                r = dict(rec)
                r['whole'] = not pl['p']
                r['proj'] = pl['p']
                r['mode'] = 'place'
                u[pl['l']].append(r)

            for bi, blk in enumerate(self.blocks):
                if blk['cleanup']:
                    continue
                for si, st in enumerate(blk['stmts']):
                    rv = st['rv']
                    rec = {'k': 'rv', 'bb': bi, 'si': si, 'rk': rv['k'], 'dest': st['place'], 'rv': rv}
                    for key in ('o', 'a', 'b'):
                        if key in rv and isinstance(rv[key], dict):
                            op_use(rv[key], rec)
                    for o in rv.get('ops', []):
                        op_use(o, rec)
                    if 'place' in rv:
                        place_use(rv['place'], rec)
                    # a projected destination reads its base through derefs
                    if st['place']['p'] and any(e['k'] == 'deref' for e in st['place']['p']):
                        place_use(st['place'], {'k': 'store-through', 'bb': bi, 'si': si})
                t = blk['term']
                if t['k'] == 'call':
                    c = self.call_at(bi)
                    for i, a in enumerate(t['args']):
                        op_use(a, {'k': 'arg', 'bb': bi, 'call': c, 'i': i})
                    op_use(t['func'], {'k': 'callee', 'bb': bi, 'call': c})
                elif t['k'] == 'switch':
                    op_use(t['discr'], {'k': 'switch', 'bb': bi})
                elif t['k'] == 'drop':
                    place_use(t['place'], {'k': 'drop', 'bb': bi})
                elif t['k'] == 'assert':
                    op_use(t['cond'], {'k': 'assert', 'bb': bi})
            self._uses = u
        return self._uses.get(l, [])

    def calls(self):
        if self._calls is None:
            self._calls = {}
            for bi, blk in enumerate(self.blocks):
                if blk['cleanup']:
                    continue
                if blk['term']['k'] == 'call':
                    self._calls[bi] = Call(self, bi, blk['term'])
        return list(self._calls.values())

    def call_at(self, bb):
        self.calls()
        return self._calls.get(bb)

    def calls_to(self, *needles):
        """calls whose declared or resolved callee contains any needle"""
        out = []
        for c in self.calls():
            if any(n in c.callee or n in c.resolved for n in needles):
                out.append(c)
        return out

    # ------------------------------------------------------------------ terms
    def term(self, operand, depth=0, seen=frozenset()):
        k = operand['k']
        if k == 'const':
            c = operand['c']
            if 'fn' in c:
                return ('fn', c['fn'])
            v = const_value(c)
            txt = c.get('text', '')
            if v is None and '::promoted[' in txt:
                pt = self.promoted_term(txt)
                if pt is not None:
                    return pt
            if v is None and txt in getattr(self.facts, '_const_j', {}):
                ct = self.facts.const_term(txt)
                if ct is not None:
                    return ct
            return ('const', c['ty'], v if v is not None else txt)
        if k in ('copy', 'move'):
            return self.place_term(operand['place'], depth, seen)
        return ('unknown', 'operand')

    def promoted_term(self, txt):
        """value of a promoted constant `..::promoted[N]` of this body (its _0), when it is a simple aggregate/reference"""
        try:
            owner_path, rest = txt.rsplit('::promoted[', 1)
            n = int(rest.split(']')[0])
        except Exception:
            return None
        owner = self
        if owner_path != self.path and owner_path not in self.facts.fns and owner_path.endswith('>') and '::<' in owner_path:
            # `helper::<'_, T>::promoted[0]`: the instantiation's generic arguments are not part of the function path
            owner_path = owner_path[:owner_path.rindex('::<')]
        if owner_path != self.path and owner_path in self.facts.fns:
            # a promoted constant of another body (code inlined from a helper)
            return self.facts.fns[owner_path].promoted_term(txt)
        proms = self.j.get('promoted') or []
        if n >= len(proms):
            return None
        if not hasattr(self, '_prom_cache'):
            self._prom_cache = {}
        if n not in self._prom_cache:
            pj = dict(proms[n])
            pj.update({'path': self.path + '::promoted[%d]' % n, 'kind': 'Promoted', 'vis': '', 'parent': self.path, 'feats': [],
                       'upvars': [], 'span': self.span, 'promoted': []})
            pf = Fn(self.facts, pj)
            t = pf.local_term(0)
            ok = all(s[0] in ('agg', 'ref', 'const', 'tuple', 'array', 'cast', 'fn') for s in walk(t))
            self._prom_cache[n] = t if ok and t[0] != 'const' else None
        return self._prom_cache[n]

    def place_term(self, place, depth=0, seen=frozenset()):
        base = self.local_term(place['l'], depth, seen)
        return self.apply_proj(base, place['p'])

    def apply_proj(self, base, proj):
        t = base
        for e in proj:
            k = e['k']
            if k == 'deref':
                if t[0] == 'ref':
                    t = t[1]
                else:
                    t = ('deref', t)
            elif k == 'field':
                t = self._field(t, e['n'], e['i'])
            elif k == 'downcast':
                t = ('downcast', t, e['n'])
            elif k == 'index':
                t = ('index', t, e['l'])
            elif k == 'cindex':
                t = ('cindex', t, e['o'], e['from_end'])
            elif k == 'subslice':
                t = ('subslice', t, e['from'], e['to'], e['from_end'])
            else:
                t = ('unknown', 'proj')
        return t

    def _field(self, t, name, idx):
        if t[0] == 'agg':
            for fn_, ft in t[3]:
                if fn_ == name:
                    return ft
        if t[0] == 'tuple' and idx < len(t[1]):
            return t[1][idx]
        if t[0] == 'downcast' and t[2] == 'Continue' and t[1][0] == 'call' and t[1][1].endswith('Try::branch') and idx == 0:
            return ('try', t[1][2][0])
        if t[0] == 'downcast' and t[1][0] == 'agg' and t[1][2] == t[2]:
            for fn_, ft in t[1][3]:
                if fn_ == name:
                    return ft
        return ('field', t, name)

    def written_through_alias(self):
        """locals that a statement `(*r) = ..` of this body overwrites, r being `&mut L` / `&mut *r'` / `move r'`"""
        if getattr(self, '_wta', None) is not None:
            return self._wta
        self._wta = set()
        pts = {}
        defs = self.defs()
        changed = True
        while changed:
            changed = False
            for l, ds in defs.items():
                whole = [d for d in ds if not d[-1]]
                if l in pts or len(whole) != 1 or whole[0][0] != 'assign':
                    continue
                rv = whole[0][3]
                tgt = None
                if rv['k'] == 'ref' and rv.get('mut'):
                    pl = rv['place']
                    if not pl['p']:
                        tgt = pl['l']
                    elif len(pl['p']) == 1 and pl['p'][0]['k'] == 'deref' and pl['l'] in pts:
                        tgt = pts[pl['l']]
                elif rv['k'] == 'use' and rv['o'].get('k') in ('move', 'copy') and not rv['o']['place']['p'] and rv['o']['place']['l'] in pts:
                    tgt = pts[rv['o']['place']['l']]
                if tgt is not None:
                    pts[l] = tgt
                    changed = True
        out = set()
        for blk in self.blocks:
            if blk['cleanup']:
                continue
            for st in blk['stmts']:
                pl = st['place']
                if len(pl['p']) == 1 and pl['p'][0]['k'] == 'deref' and pl['l'] in pts:
                    out.add(pts[pl['l']])
        self._wta = out
        return out

    def local_term(self, l, depth=0, seen=frozenset()):
        key = l
        if key in self._term_cache:
            return self._term_cache[key]
        if depth > MAX_DEPTH or l in seen:
            return ('var', l, self.local_name(l))
        r = self._local_term(l, depth, seen | {l})
        if depth == 0:
            self._term_cache[key] = r
        return r

    def _local_term(self, l, depth, seen):
        if 1 <= l <= self.arg_count:
            ds = self.defs().get(l, [])
            if not any(not d[-1] for d in ds):  # no whole reassignment
                return ('arg', l, self.local_name(l) or ('arg%d' % l))
        ds = self.defs().get(l, [])
        whole = [d for d in ds if not d[-1]]
        partial = [d for d in ds if d[-1]]
        if partial or not whole:
            return ('var', l, self.local_name(l))
        if l in self.written_through_alias():
            # re-assigned in this body through a `&mut` alias (`*r = ..`, typically a virtually inlined helper taking
            # `&mut T`): its single direct definition is not its value everywhere
            return ('var', l, self.local_name(l))
        if len(whole) == 1:
            return self._def_term(whole[0], depth, seen)
        # several whole definitions: drop-flag style constants or loop variables
        ts = []
        for d in whole[:8]:
            ts.append(self._def_term(d, depth + 5, seen))
        uniq = []
        for t in ts:
            if t not in uniq:
                uniq.append(t)
        if len(uniq) == 1:
            return uniq[0]
        return ('phi', l, uniq)

    def _def_term(self, d, depth, seen):
        if d[0] == 'call':
            c = d[2]
            args = [self.term(a, depth + 1, seen) for a in c.args]
            return ('call', c.callee or c.resolved, args, c.bb)
        rv = d[3]
        k = rv['k']
        if k == 'use':
            return self.term(rv['o'], depth + 1, seen)
        if k == 'ref':
            return ('ref', self.place_term(rv['place'], depth + 1, seen))
        if k == 'rawptr':
            return ('ref', self.place_term(rv['place'], depth + 1, seen))
        if k == 'cast':
            return ('cast', rv['ck'], self.term(rv['a'], depth + 1, seen), rv['ty'])
        if k == 'binop':
            return ('binop', rv['op'], self.term(rv['a'], depth + 1, seen), self.term(rv['b'], depth + 1, seen))
        if k == 'unop':
            return ('unop', rv['op'], self.term(rv['a'], depth + 1, seen))
        if k == 'discr':
            return ('discr', self.place_term(rv['place'], depth + 1, seen))
        if k == 'repeat':
            return ('array', [self.term(rv['o'], depth + 1, seen)])
        if k == 'agg':
            ops = [self.term(o, depth + 1, seen) for o in rv['ops']]
            a = rv['agg']
            if a == 'adt':
                return ('agg', rv['adt'], rv['variant'], list(zip(rv['fields'], ops)))
            if a == 'tuple':
                return ('tuple', ops)
            if a == 'array':
                return ('array', ops)
            if a == 'closure':
                return ('closure', rv['closure'], ops)
            return ('unknown', 'agg')
        return ('unknown', rv.get('text', k)[:40])


TRANSPARENT = (
    'std::ops::Deref::deref', 'std::ops::DerefMut::deref_mut', 'std::clone::Clone::clone',
    'std::convert::Into::into', 'std::convert::From::from', 'std::borrow::Borrow::borrow',
    'std::convert::AsRef::as_ref', 'std::borrow::ToOwned::to_owned', 'std::borrow::Cow::<',
)


def _ok_payload(t):
    """payload v when t can only be `Ok(v)` on the success path: an `Ok(v)` aggregate, or a phi of one `Ok(v)` and
    error values (from_residual results / Err aggregates) -- the shape of a helper's result after virtual inlining"""
    if t[0] == 'agg' and t[1].endswith('result::Result') and t[2] == 'Ok' and t[3]:
        return t[3][0][1]
    if t[0] == 'phi':
        oks = []
        for a in t[2]:
            if a[0] == 'agg' and a[1].endswith('result::Result'):
                if a[2] == 'Ok' and a[3]:
                    oks.append(a[3][0][1])
            elif a[0] == 'call' and a[1].endswith('FromResidual::from_residual'):
                continue
            else:
                return None
        if len(oks) == 1:
            return oks[0]
    return None


def strip(t):
    """look through refs, derefs, ?-unwraps and value-preserving std wrappers"""
    while True:
        if t[0] == 'try':
            p = _ok_payload(t[1])
            t = p if p is not None else t[1]
        elif t[0] in ('ref', 'deref'):
            t = t[1]
        elif t[0] == 'cast' and t[1] in ('PtrToPtr', 'Transmute') :
            t = t[2]
        elif t[0] == 'call' and t[2] and any(t[1].startswith(p) for p in TRANSPARENT[:8]):
            t = t[2][0]
        elif t[0] == 'field' and len(t) > 2:
            # a field read back from a value that was just built: `S { a: x, .. }.a` is x (state carried in private structs,
            # tuples returned by helpers, `Some(v)` / `Ok(v)` payloads taken apart again)
            base = strip(t[1])
            variant = None
            if base[0] == 'downcast' and len(base) > 2:
                variant = base[2]
                base = strip(base[1])
            hit = None
            if base[0] == 'agg' and len(base) > 3 and isinstance(base[3], list) and (variant is None or base[2] == variant):
                for nm, ft in base[3]:
                    if nm == t[2]:
                        hit = ft
            elif base[0] == 'tuple' and variant is None and isinstance(t[2], str) and t[2].isdigit() and int(t[2]) < len(base[1]):
                hit = base[1][int(t[2])]
            if hit is None:
                return t
            t = hit
        elif t[0] == 'cindex' and len(t) > 2 and isinstance(t[2], int):
            # an element read back from an array literal that was just built (`let [a, b] = [x, y];`)
            base = strip(t[1])
            # (not for a constant-initialised buffer such as `[0u32; 3]` written out: that one is filled in place later)
            if base[0] == 'array' and t[2] < len(base[1]) and not all(e[0] == 'const' for e in base[1]):
                t = base[1][t[2]]
            else:
                return t
        else:
            return t


def is_call(t, *needles):
    return t[0] == 'call' and any(n in t[1] for n in needles)


def walk(t):
    """all sub-terms, pre-order"""
    yield t
    k = t[0]
    if k in ('ref', 'deref', 'try', 'discr', 'index', 'cindex', 'subslice'):
        yield from walk(t[1])
    elif k in ('field', 'downcast'):
        yield from walk(t[1])
    elif k == 'cast':
        yield from walk(t[2])
    elif k == 'binop':
        yield from walk(t[2])
        yield from walk(t[3])
    elif k == 'unop':
        yield from walk(t[2])
    elif k == 'call':
        for a in t[2]:
            yield from walk(a)
    elif k == 'agg':
        for _, a in t[3]:
            yield from walk(a)
    elif k in ('tuple', 'array'):
        for a in t[1]:
            yield from walk(a)
    elif k == 'closure':
        # (canonical `strip_all` forms drop capture / alternative lists: tolerate the short tuples)
        for a in (t[2] if len(t) > 2 else ()):
            yield from walk(a)
    elif k == 'phi':
        for a in (t[2] if len(t) > 2 else ()):
            yield from walk(a)


def short(name):
    """last path segment outside generic brackets: heed::Database::<..>::put -> put"""
    depth = 0
    last = 0
    i = 0
    n = len(name)
    while i < n:
        ch = name[i]
        if ch in '<([{':
            depth += 1
        elif ch in '>)]}':
            depth -= 1
        elif ch == ':' and depth == 0 and i + 1 < n and name[i + 1] == ':':
            last = i + 2
            i += 1
        i += 1
    seg = name[last:]
    return seg or name


def show(t, depth=0):
    """compact rendering for messages"""
    if depth > 6:
        return '..'
    k = t[0]
    if k == 'const':
        return str(t[2])
    if k == 'fn':
        return t[1]
    if k == 'arg':
        return t[2]
    if k == 'var':
        return t[2] or ('_%d' % t[1])
    if k == 'call':
        return '%s(%s)' % (short(t[1]), ', '.join(show(a, depth + 1) for a in t[2]))
    if k == 'try':
        return show(t[1], depth) + '?'
    if k == 'ref':
        return '&' + show(t[1], depth)
    if k == 'deref':
        return '*' + show(t[1], depth)
    if k == 'field':
        return show(t[1], depth) + '.' + t[2]
    if k == 'downcast':
        return '(%s as %s)' % (show(t[1], depth), t[2])
    if k == 'index':
        return show(t[1], depth) + '[..]'
    if k == 'cindex':
        return '%s[%s%d]' % (show(t[1], depth), '-' if t[3] else '', t[2])
    if k == 'subslice':
        return '%s[%d..%s%d]' % (show(t[1], depth), t[2], '-' if t[4] else '', t[3])
    if k == 'cast':
        return '%s as %s' % (show(t[2], depth + 1), t[3])
    if k == 'binop':
        return '%s(%s, %s)' % (t[1], show(t[2], depth + 1), show(t[3], depth + 1))
    if k == 'unop':
        return '%s(%s)' % (t[1], show(t[2], depth + 1))
    if k == 'discr':
        return 'discr(%s)' % show(t[1], depth + 1)
    if k == 'agg':
        return '%s::%s{%s}' % (t[1].split('::')[-1], t[2], ', '.join('%s: %s' % (f, show(a, depth + 1)) for f, a in t[3]))
    if k in ('tuple', 'array'):
        return '(%s)' % ', '.join(show(a, depth + 1) for a in t[1])
    if k == 'closure':
        return 'closure %s' % t[1].split('::')[-1]
    if k == 'phi':
        return 'phi(%s)' % ' | '.join(show(a, depth + 1) for a in t[2])
    return '?' + str(t[1:])[:30]


class Facts:
    def __init__(self, j):
        self.j = j
        self.config = j.get('config', '?')
        self.fns = {}
        self.dups = []
        for f in j['fns']:
            fn = Fn(self, f)
            if fn.path in self.fns:
                self.dups.append(fn.path)
                # keep both under a disambiguated key
                n = 2
                while '%s#%d' % (fn.path, n) in self.fns:
                    n += 1
                self.fns['%s#%d' % (fn.path, n)] = fn
            else:
                self.fns[fn.path] = fn
        self.adts = {a['path']: a for a in j['adts']}
        # constant items with a body (`const ALL: [NodeMode; 4] = [..]`): path -> value term, computed on demand
        self._const_j = {}
        for c in j.get('consts', []):
            if not c['path'].endswith('::_'):
                self._const_j.setdefault(c['path'], c)
        self._const_terms = {}
        self.impls = j['impls']
        self.statics = j['statics']
        self.cfg = j.get('cfg', [])

    def const_term(self, path):
        """value of a constant item when it is a plain aggregate / array / literal, else None"""
        if path not in self._const_terms:
            t = None
            cj = self._const_j.get(path)
            if cj is not None:
                pj = dict(cj)
                pj.update({'unsafe': False, 'in_test': False, 'vis': '', 'parent': '', 'feats': [], 'upvars': []})
                try:
                    pf = Fn(self, pj)
                    t0 = pf.local_term(0)
                    if all(s[0] in ('agg', 'ref', 'const', 'tuple', 'array', 'cast', 'repeat') for s in walk(t0)):
                        t = t0
                except Exception:
                    t = None
            self._const_terms[path] = t
        return self._const_terms[path]

    @classmethod
    def load(cls, path):
        return cls.build(json.load(open(path)))

    @classmethod
    def build(cls, j):
        """fact base with new private helpers virtually inlined into their callers (see inline.py); `.raw` is the
        untouched fact base"""
        import inline
        j2, amap = inline.alias_renames(j)
        raw = cls(j2)
        inl, rep = inline.inline_new_helpers(j2)
        if rep.get('inlined'):
            F = cls(inl)
            F.inlined = rep['inlined']
            # helpers spliced into every one of their call sites are analysed in their callers' context only: on their
            # own (parameters unconstrained, guards left behind in the caller) they would look unguarded to whole-crate rules
            helpers = {h for _c, h in rep['inlined']}
            still_called = set()
            for f in F.fns.values():
                if f.in_test:
                    continue
                for c in f.calls():
                    for nm in (c.callee, c.resolved):
                        if nm in helpers and f.path != nm and not f.path.startswith(nm + '::'):
                            still_called.add(nm)
            F.absorbed = helpers - still_called
        else:
            F = raw
            F.inlined = []
            F.absorbed = set()
        F.raw = raw
        F.renamed = amap
        raw.renamed = amap
        return F

    # ----------------------------------------------------------- selections
    def lib_fns(self, with_absorbed=False):
        """non-test bodies (helpers that were virtually inlined at all their call sites are left out: their code is
        analysed inside their callers; closures defined in them follow them)"""
        ab = getattr(self, 'absorbed', set())
        if with_absorbed or not ab:
            return [f for f in self.fns.values() if not f.in_test]
        return [f for f in self.fns.values() if not f.in_test and f.path not in ab]

    def fn(self, path):
        return self.fns.get(path)

    def find(self, suffix):
        """functions whose path ends with `suffix` (non-test)"""
        return [f for f in self.lib_fns() if f.path.endswith(suffix)]

    def one(self, suffix):
        r = self.find(suffix)
        return r[0] if len(r) == 1 else None

    def impl_method(self, trait, selfty, meth):
        """body of `meth` in `impl trait for selfty` (either def-path spelling)"""
        for p, f in self.fns.items():
            if p.endswith('::' + meth) and trait in p and ((' for %s>' % selfty) in p or p.startswith('<%s as ' % selfty)):
                return f
        return None

    def closures_of(self, fn):
        pre = fn.path + '::{closure'
        return [f for f in self.fns.values() if f.path.startswith(pre)]

    def family(self, fn):
        """fn and its nested closures"""
        return [fn] + self.closures_of(fn)

    def all_calls(self, test=False):
        for f in (self.fns.values() if test else self.lib_fns()):
            for c in f.calls():
                yield c

    def trait_impls(self, trait_suffix):
        return [i for i in self.impls if i['trait'] and i['trait'].endswith(trait_suffix)]

    # ------------------------------------------------------------ call graph
    def callees(self, fn):
        """in-crate function objects this body may call (trait calls on a generic
        receiver are expanded over every impl plus the default method)"""
        out = []
        for c in fn.calls():
            out.extend(self.resolve_call(c))
        # closures constructed here are considered called
        out.extend(self.closures_of(fn))
        return out

    def resolve_call(self, c):
        res = []
        for name in (c.resolved, c.callee):
            if name and name in self.fns:
                res.append(self.fns[name])
                break
        if not res and c.callee:
            # trait method on a generic receiver: `distance::Distance::side`
            meth = c.callee.split('::')[-1]
            tr = '::'.join(c.callee.split('::')[:-1])
            for p, f in self.fns.items():
                if p.endswith(' as %s>::%s' % (tr, meth)):
                    res.append(f)
            if c.callee in self.fns:
                res.append(self.fns[c.callee])
        return res

    def reach(self, roots):
        seen = {}
        st = list(roots)
        while st:
            f = st.pop()
            if f.path in seen:
                continue
            seen[f.path] = f
            st.extend(self.callees(f))
        return seen


def const_eval(t):
    """integer value of a constant-foldable term, else None"""
    t = strip(t)
    k = t[0]
    if k == 'const':
        return t[2] if isinstance(t[2], int) else None
    if k == 'cast':
        v = const_eval(t[2])
        if v is None:
            return None
        ty = t[3]
        w = {'u8': 8, 'u16': 16, 'u32': 32, 'u64': 64, 'usize': 64, 'i32': 32, 'i64': 64}.get(ty)
        return v & ((1 << w) - 1) if w else v
    if k == 'field' and t[2] == '0' and t[1][0] == 'binop':
        return const_eval(t[1])
    if k == 'binop':
        a, b = const_eval(t[2]), const_eval(t[3])
        if a is None or b is None:
            return None
        op = t[1].replace('WithOverflow', '').replace('Unchecked', '')
        try:
            return {'Add': a + b, 'Sub': a - b, 'Mul': a * b, 'Shl': a << b, 'Shr': a >> b, 'BitAnd': a & b,
                    'BitOr': a | b, 'Div': a // b if b else None, 'Rem': a % b if b else None}.get(op)
        except Exception:
            return None
    return None
