"""Virtual inlining of *new* private helper functions into their callers, at the level of the MIR facts.

Rules recognise the repository's own functions by role or name; code that a maintainer moves into a freshly extracted
helper would otherwise hide from the intra-procedural path rules (dominance, must-pass-through, origin terms).  Every
in-crate callee that is not part of the pinned function inventory (spec/pinned_functions.json: the functions that existed
when the rules were written) and is small and non-recursive is therefore spliced into its caller's CFG before the rules
run: parameters become assignments, `return` becomes an assignment to the call's destination followed by a jump to the
call's continuation.  The original helper stays in the fact base as a function of its own, so whole-crate rules (effects,
error discipline, kinds) still see it."""
import copy
import json
import os

VERIF = os.path.dirname(os.path.dirname(os.path.abspath(__file__)))
MAX_BLOCKS = 250
ROUNDS = 3


def pinned_table():
    """{path: {'sig': [...], 'kind': ..}} of the functions that existed when the rules were written"""
    p = os.path.join(VERIF, 'spec', 'pinned_functions.json')
    if os.path.exists(p):
        t = json.load(open(p))
        if isinstance(t, list):
            return {x: None for x in t}
        return t
    return None


def pinned():
    t = pinned_table()
    return set(t) if t is not None else None


def signature(f):
    n = f['arg_count']
    return [l['ty'] for l in f['locals'][:n + 1]]


def parent_of(path):
    # strip the last path segment outside generic brackets
    depth = 0
    last = -1
    i = 0
    while i < len(path) - 1:
        ch = path[i]
        if ch in '<([':
            depth += 1
        elif ch in '>)]':
            depth -= 1
        elif ch == ':' and path[i + 1] == ':' and depth == 0:
            last = i
            i += 1
        i += 1
    return path[:last] if last >= 0 else ''


def alias_renames(j, table=None):
    """A pinned function that disappeared while exactly one new function with the same parent path and the same
    signature appeared is a rename: the facts are rewritten to the pinned name so that role/name anchored rules keep
    working (and the renamed function is not mistaken for a freshly extracted helper)."""
    table = table if table is not None else pinned_table()
    if not table or any(v is None for v in table.values()):
        return j, {}
    cur = {}
    for f in j['fns']:
        cur.setdefault(f['path'], f)
    missing = [p for p in table if p not in cur and table[p]['kind'] in ('Fn', 'AssocFn')]
    new = [p for p, f in cur.items() if p not in table and f['kind'] in ('Fn', 'AssocFn') and not f.get('in_test')]
    amap = {}
    for m in missing:
        cands = [n for n in new if parent_of(n) == parent_of(m) and signature(cur[n]) == table[m]['sig']]
        others = [m2 for m2 in missing if m2 != m and parent_of(m2) == parent_of(m) and table[m2]['sig'] == table[m]['sig']]
        if len(cands) == 1 and not others:
            amap[cands[0]] = m
    # second pass: a function moved to another module / impl block keeps its name and signature
    def last_seg(path):
        par = parent_of(path)
        return path[len(par) + 2:] if par else path
    taken = set(amap)
    for m in missing:
        if m in amap.values():
            continue
        cands = [n for n in new if n not in taken and last_seg(n) == last_seg(m) and signature(cur[n]) == table[m]['sig']]
        others = [m2 for m2 in missing if m2 != m and m2 not in amap.values() and last_seg(m2) == last_seg(m) and table[m2]['sig'] == table[m]['sig']]
        if len(cands) == 1 and not others:
            amap[cands[0]] = m
            taken.add(cands[0])
    # third pass: moved *and* renamed -- the signature alone identifies it when it is unique on both sides and not trivial
    for m in missing:
        if m in amap.values() or len(table[m]['sig']) < 3:
            continue
        cands = [n for n in new if n not in taken and signature(cur[n]) == table[m]['sig']]
        others = [m2 for m2 in missing if m2 != m and m2 not in amap.values() and table[m2]['sig'] == table[m]['sig']]
        if len(cands) == 1 and not others:
            amap[cands[0]] = m
            taken.add(cands[0])
    if not amap:
        return j, {}
    txt = json.dumps(j)
    # longest names first so that a prefix of another name is not replaced inside it
    for n in sorted(amap, key=len, reverse=True):
        txt = txt.replace(json.dumps(n)[1:-1], json.dumps(amap[n])[1:-1])
    return json.loads(txt), amap


def _map_place(pl, lo, bo):
    out = {'l': pl['l'] + lo, 'p': []}
    for e in pl['p']:
        e2 = dict(e)
        if e2.get('k') == 'index':
            e2['l'] = e2['l'] + lo
        out['p'].append(e2)
    return out


def _map_op(o, lo, bo):
    if o.get('k') in ('copy', 'move'):
        return {'k': o['k'], 'place': _map_place(o['place'], lo, bo)}
    return o


def _map_rv(rv, lo, bo):
    r = dict(rv)
    for key in ('o', 'a', 'b'):
        if key in r and isinstance(r[key], dict):
            r[key] = _map_op(r[key], lo, bo)
    if 'place' in r:
        r['place'] = _map_place(r['place'], lo, bo)
    if 'ops' in r:
        r['ops'] = [_map_op(o, lo, bo) for o in r['ops']]
    return r


def _map_term(t, lo, bo):
    t = dict(t)
    k = t['k']
    if k in ('goto', 'drop', 'assert'):
        t['t'] = t['t'] + bo
    if k == 'drop':
        t['place'] = _map_place(t['place'], lo, bo)
    if k == 'assert':
        t['cond'] = _map_op(t['cond'], lo, bo)
    if k == 'switch':
        t['discr'] = _map_op(t['discr'], lo, bo)
        t['targets'] = [[v, tg + bo] for v, tg in t['targets']]
        t['otherwise'] = t['otherwise'] + bo
    if k == 'call':
        t['func'] = _map_op(t['func'], lo, bo)
        t['args'] = [_map_op(a, lo, bo) for a in t['args']]
        t['dest'] = _map_place(t['dest'], lo, bo)
        if t['t'] >= 0:
            t['t'] = t['t'] + bo
    return t


def splice(caller, bi, callee):
    """inline `callee` at the call terminating block `bi` of `caller` (both JSON dicts); in place"""
    call = caller['blocks'][bi]['term']
    lo = len(caller['locals'])
    bo = len(caller['blocks'])
    span = call.get('span') or caller['span']
    caller['locals'].extend(copy.deepcopy(callee['locals']))
    # parameters
    stmts = caller['blocks'][bi]['stmts']
    for i, a in enumerate(call['args']):
        if i + 1 <= callee['arg_count']:
            stmts.append({'place': {'l': lo + 1 + i, 'p': []}, 'rv': {'k': 'use', 'o': a}, 'span': span})
    caller['blocks'][bi]['term'] = {'k': 'goto', 't': bo}
    dest = call['dest']
    target = call['t']
    for blk in callee['blocks']:
        nb = {'cleanup': blk['cleanup'], 'stmts': [], 'term': None}
        for st in blk['stmts']:
            nb['stmts'].append({'place': _map_place(st['place'], lo, bo), 'rv': _map_rv(st['rv'], lo, bo), 'span': st['span']})
        t = blk['term']
        if t['k'] == 'return' and not blk['cleanup']:
            nb['stmts'].append({'place': dest, 'rv': {'k': 'use', 'o': {'k': 'move', 'place': {'l': lo, 'p': []}}}, 'span': span})
            nb['term'] = {'k': 'goto', 't': target} if target >= 0 else {'k': 'unreachable'}
        else:
            nb['term'] = _map_term(t, lo, bo)
        caller['blocks'].append(nb)
    # promoted constants of the callee are addressed by path in their text and resolved through the fact base


def calls_self(fn):
    for blk in fn['blocks']:
        t = blk['term']
        if t['k'] == 'call' and (t.get('callee') == fn['path'] or t.get('resolved') == fn['path']):
            return True
    return False


def inline_new_helpers(j, known=None):
    """returns (new fact dict, report).  `j` is not modified."""
    j, amap = alias_renames(j)
    known = known if known is not None else pinned()
    if known is None:
        return j, {'inlined': [], 'reason': 'no pinned inventory', 'renamed': amap}
    byp = {}
    for f in j['fns']:
        byp.setdefault(f['path'], f)
    new = {p for p, f in byp.items() if p not in known and f['kind'] in ('Fn', 'AssocFn') and not f.get('in_test')
           and len(f['blocks']) <= MAX_BLOCKS and not calls_self(f)}
    # closures nested in new helpers are not inlined themselves; a new helper that only exists as a closure owner is fine
    if not new:
        return j, {'inlined': [], 'renamed': amap}
    # mutual recursion among new helpers (a recursive walker split into per-arm methods): the other members of the cycle are
    # folded into its entry (the member called from outside), which thereby becomes directly self-recursive -- like the
    # function it replaced -- and is then kept as a function of its own instead of being unrolled into its callers
    def callees_of(fn):
        out = set()
        for blk in fn['blocks']:
            t = blk['term']
            if t['k'] == 'call' and not blk['cleanup']:
                for name in (t.get('callee'), t.get('resolved')):
                    if name in new:
                        out.add(name)
        return out
    graph = {p: callees_of(byp[p]) for p in new}

    def reach_from(p):
        seen, st = set(), [p]
        while st:
            x = st.pop()
            for y in graph.get(x, ()):
                if y not in seen:
                    seen.add(y)
                    st.append(y)
        return seen
    reach = {p: reach_from(p) for p in new}
    cyc = {p for p in new if p in reach[p]}
    fold = {}            # cycle entry -> members folded into it
    keep_out = set()     # functions that must not be inlined into outside callers
    done = set()
    for p in sorted(cyc):
        if p in done:
            continue
        scc = {q for q in cyc if q in reach[p] and p in reach[q]} | {p}
        done |= scc
        outside = set()
        for f in j['fns']:
            if f['path'] in scc or f.get('in_test'):
                continue
            for blk in f['blocks']:
                t = blk['term']
                if t['k'] == 'call' and not blk['cleanup']:
                    for name in (t.get('callee'), t.get('resolved')):
                        if name in scc:
                            outside.add(name)
        keep_out |= scc
        if len(outside) == 1:
            fold[next(iter(outside))] = scc - outside
    out = copy.deepcopy(j)
    fns = {}
    for f in out['fns']:
        fns.setdefault(f['path'], f)
    orig = {p: copy.deepcopy(byp[p]) for p in new}
    report = []
    for head, members in fold.items():
        hf = fns[head]
        for _ in range(4):
            changed = False
            bi = 0
            while bi < len(hf['blocks']):
                blk = hf['blocks'][bi]
                t = blk['term']
                if not blk['cleanup'] and t['k'] == 'call':
                    name = t.get('callee') if t.get('callee') in members else (t.get('resolved') if t.get('resolved') in members else None)
                    if name and len(hf['blocks']) < 900:
                        splice(hf, bi, orig[name])
                        report.append((head, name))
                        changed = True
                bi += 1
            if not changed:
                break
        orig[head] = copy.deepcopy(hf)
    new = new - keep_out
    for _ in range(ROUNDS):
        changed = False
        for f in out['fns']:
            if f.get('in_test'):
                continue
            bi = 0
            while bi < len(f['blocks']):
                blk = f['blocks'][bi]
                t = blk['term']
                if not blk['cleanup'] and t['k'] == 'call':
                    name = t.get('callee') if t.get('callee') in new else (t.get('resolved') if t.get('resolved') in new else None)
                    if name and name != f['path'] and len(f['blocks']) < 600:
                        splice(f, bi, orig[name])
                        report.append((f['path'], name))
                        changed = True
                bi += 1
        if not changed:
            break
    out['inlined'] = report
    return out, {'inlined': report, 'renamed': amap}
