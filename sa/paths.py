"""Path-rule helpers on one MIR body: switch edges with their conditions, the arms
of a `Result`, classification of what a function returns on each exit."""
from facts import strip, show, walk


def switch_at(fn, b):
    t = fn.blocks[b]['term']
    if t['k'] != 'switch':
        return None
    return t


def edge_cond(fn, b, s):
    """Condition under which control goes from switch block b to successor s.
    Returns (term, values, is_otherwise): `term` is the discriminant's origin term with
    leading `Not`s removed; for boolean discriminants `truth` is folded in:
      ('bool', term, truth)   -- term is truth on this edge
      ('disc', term, values, is_otherwise) -- enum discriminant / integer switch
    or None when b is not a switch or s is reached by several arms of different polarity."""
    t = switch_at(fn, b)
    if t is None:
        return None
    d = fn.term(t['discr'])
    vals = [int(v) for v, tg in t['targets'] if tg == s]
    is_other = (t['otherwise'] == s)
    ty = None
    if t['discr']['k'] in ('copy', 'move'):
        pl = t['discr']['place']
        if not pl['p']:
            ty = fn.local_ty(pl['l'])
    if ty == 'bool' or (d[0] == 'binop' and d[1] in ('Eq', 'Ne', 'Lt', 'Le', 'Gt', 'Ge')) or (d[0] == 'unop' and d[1] == 'Not'):
        # bool switch: targets [[0, F]] otherwise T
        if vals and is_other:
            return None
        truth = is_other if not vals else (vals[0] != 0)
        neg = False
        while d[0] == 'unop' and d[1] == 'Not':
            d = d[2]
            neg = not neg
        if neg:
            truth = not truth
        return ('bool', d, truth)
    return ('disc', d, vals, is_other)


def result_arms(fn, call):
    """For a call returning Result: blocks where the Ok payload / the Err is in hand.
    Recognises `?` (Try::branch + switch) and a direct `match` on the result.
    Returns dict with optional keys 'ok', 'err', 'ok_term' or {'tail': True}."""
    dest = call.dest
    if dest['l'] == 0 and not dest['p']:
        return {'tail': True}
    b = call.target
    if b < 0:
        return {}
    seen = 0
    cur = b
    # follow straight-line blocks (drops, gotos) until a Try::branch call or a switch
    while seen < 6:
        seen += 1
        blk = fn.blocks[cur]
        t = blk['term']
        if t['k'] == 'call' and t['callee'] and t['callee'].endswith('Try::branch'):
            a0 = fn.term(t['args'][0])
            if _mentions_call(a0, call.bb):
                nb = t['t']
                sw = switch_at(fn, nb)
                if sw is not None:
                    out = {}
                    for v, tg in sw['targets']:
                        if int(v) == 0:
                            out['ok'] = tg
                        elif int(v) == 1:
                            out['err'] = tg
                    out['switch'] = nb
                    return out
            return {}
        if t['k'] == 'switch':
            d = fn.term(t['discr'])
            if d[0] == 'discr' and _mentions_call(d[1], call.bb):
                out = {'switch': cur}
                for v, tg in t['targets']:
                    if int(v) == 0:
                        out['ok'] = tg
                    elif int(v) == 1:
                        out['err'] = tg
                if 'ok' not in out:
                    out['ok'] = t['otherwise']
                elif 'err' not in out:
                    out['err'] = t['otherwise']
                return out
            return {}
        if t['k'] in ('goto', 'drop'):
            cur = t['t']
            continue
        if t['k'] == 'call':
            # the result is passed on: through an Ok-preserving adaptor (map_err / inspect_err / or_else keep Ok, map keeps
            # the success), the arms of the adaptor's result are the arms of the original call
            cal = t.get('callee') or ''
            if cal.endswith(('Result::<T, E>::map_err', 'Result::<T, E>::inspect_err', 'Result::<T, E>::map', 'Result::<T, E>::inspect')) and t['args'] \
                    and _mentions_call(fn.term(t['args'][0]), call.bb):
                inner = result_arms(fn, fn.call_at(cur))
                inner['via'] = cur
                return inner
            return {'passed': cur}
        return {}
    return {}


def _mentions_call(t, bb):
    for s in walk(t):
        if s[0] == 'call' and s[3] == bb:
            return True
    return False


def mentions_call(t, bb):
    return _mentions_call(t, bb)


def ret_assigns(fn):
    """[(block, kind, term)] for each whole assignment to the return place.
    kind: 'ok' | 'err' | 'residual' (from `?`) | 'call' (tail call) | 'other'.
    A plain move of a multiply-defined local into the return place (the shape left by virtual inlining of a helper:
    `_0 = move _ret_of_helper`) is expanded into that local's own definitions, so error returns of the helper are
    not mistaken for success exits."""
    if hasattr(fn, '_ret_assigns'):
        return fn._ret_assigns
    out = []

    def classify(d, l, depth):
        if d[0] == 'call':
            c = d[2]
            if c.callee.endswith('FromResidual::from_residual'):
                out.append((d[1], 'residual', ('call', c.callee, [fn.term(a) for a in c.args], c.bb)))
            else:
                out.append((d[1], 'call', ('call', c.callee or c.resolved, [fn.term(a) for a in c.args], c.bb)))
            return
        rv = d[3]
        if rv['k'] == 'use' and rv['o'].get('k') in ('copy', 'move') and not rv['o']['place']['p'] and depth < 4:
            src = rv['o']['place']['l']
            ds = [x for x in fn.defs().get(src, []) if not x[-1]]
            if len(ds) >= 2 and not (1 <= src <= fn.arg_count):
                for x in ds:
                    classify(x, src, depth + 1)
                return
        t = fn._def_term(d, 0, frozenset([l]))
        if t[0] == 'agg' and t[1].endswith('result::Result'):
            out.append((d[1], 'ok' if t[2] == 'Ok' else 'err', t))
        else:
            out.append((d[1], 'other', t))

    for d in fn.defs().get(0, []):
        if d[-1]:
            continue
        classify(d, 0, 0)
    fn._ret_assigns = out
    return out


def err_variant(t):
    """name of the arroy Error variant constructed in an `Err(..)` return term"""
    for s in walk(t):
        if s[0] == 'agg' and s[1].endswith('error::Error'):
            return s[2]
        if s[0] == 'call' and s[1].endswith('error::Error::missing_key'):
            return 'MissingKey'
    return None


def agg_fields(t, adt_suffix, variant=None):
    for s in walk(t):
        if s[0] == 'agg' and s[1].endswith(adt_suffix) and (variant is None or s[2] == variant):
            return dict(s[3])
    return None


def _path_effects(fn, b):
    """ordered effects of block b on what a path-sensitive walk knows about locals:
    (local, ('bool', v)) | (local, ('v', variant index)) | (local, ('int', n)) | (local, ('copy', src)) |
    (local, ('discr', src)) | (local, ('branch', src)) | (local, None = unknown)"""
    if not hasattr(fn, '_path_fx'):
        fn._path_fx = {}
    if b in fn._path_fx:
        return fn._path_fx[b]
    fx = []
    blk = fn.blocks[b]
    for st in blk['stmts']:
        pl = st['place']
        if pl['p']:
            # a partial store invalidates what is known about the whole local
            fx.append((pl['l'], None))
            continue
        l = pl['l']
        rv = st['rv']
        k = rv['k']
        if k == 'use' and rv['o'].get('k') == 'const' and 'bits' in rv['o']['c']:
            if fn.local_ty(l) == 'bool':
                fx.append((l, ('bool', bool(int(rv['o']['c']['bits'])))))
            else:
                fx.append((l, ('int', int(rv['o']['c']['bits']))))
        elif k == 'use' and rv['o'].get('k') in ('copy', 'move') and not rv['o']['place']['p']:
            fx.append((l, ('copy', rv['o']['place']['l'])))
        elif k == 'agg' and rv.get('agg') == 'adt':
            pay = None
            if len(rv.get('ops', [])) == 1:
                o = rv['ops'][0]
                if o.get('k') == 'const' and 'bits' in o['c']:
                    pay = ('bool', bool(int(o['c']['bits']))) if o['c'].get('ty') == 'bool' else ('int', int(o['c']['bits']))
                elif o.get('k') in ('copy', 'move') and not o['place']['p']:
                    pay = ('loc', o['place']['l'])
            fx.append((l, ('v', rv['vidx'], pay)))
        elif k == 'use' and rv['o'].get('k') in ('copy', 'move') and len(rv['o']['place']['p']) == 2 and rv['o']['place']['p'][0]['k'] == 'downcast' \
                and rv['o']['place']['p'][1]['k'] == 'field' and rv['o']['place']['p'][1].get('i', 0) == 0:
            fx.append((l, ('payload', rv['o']['place']['l'])))
        elif k == 'discr' and not rv['place']['p']:
            fx.append((l, ('discr', rv['place']['l'])))
        else:
            fx.append((l, None))
    t = blk['term']
    if t['k'] == 'call' and not t['dest']['p']:
        l = t['dest']['l']
        cal = t.get('callee') or ''
        if cal.endswith('Try::branch') and t['args'] and t['args'][0].get('k') in ('copy', 'move') and not t['args'][0]['place']['p']:
            fx.append((l, ('branch', t['args'][0]['place']['l'])))
        elif cal.endswith('FromResidual::from_residual'):
            ty = fn.local_ty(l)
            fx.append((l, ('v', 1) if ty.startswith('std::result::Result') else (('v', 0) if ty.startswith('std::option::Option') else None)))
        else:
            fx.append((l, None))
    fn._path_fx[b] = fx
    return fx


def feasible_reach(fn, start, avoid=(), known=None, limit=40000, edges=None, first_edge=None):
    """blocks reachable from `start` without entering `avoid`, pruning branches whose outcome is known along the path:
    boolean locals assigned constants, and enum values whose variant was just constructed (`Ok(..)`, `Err(..)`, the
    result of `?`'s from_residual) and is then tested through Try::branch / discriminant / switch.  This removes the
    infeasible paths created by `let flag = a || b; if flag {..}` lowerings and by the merge of a (virtually inlined)
    helper's Ok and Err returns in front of the caller's `?`."""
    avoid = set(avoid)
    seen = set()
    out = set()
    st = [(start, tuple(sorted((known or {}).items())))]
    n = 0
    while st:
        b, kn = st.pop()
        if b in avoid or (b, kn) in seen:
            continue
        n += 1
        if n > limit:
            r = fn.reachable(start, avoid)
            if edges is not None:
                edges |= {(x, y) for x in r for y in fn.succ(x) if y not in avoid}
            return r
        seen.add((b, kn))
        out.add(b)
        env = dict(kn)
        if first_edge is not None and b == start and n == 1:
            # leave the start block through one given edge only (the other successors may be re-entered later on)
            _push = (lambda x, k2: (edges.add((b, x)) if edges is not None else None, st.append((x, k2)))[1] if x == first_edge else None)
        else:
            _push = (lambda x, k2: (edges.add((b, x)) if edges is not None else None, st.append((x, k2)))[1])
        for l, v in _path_effects(fn, b):
            if v is None:
                env.pop(l, None)
            elif v[0] == 'copy':
                if v[1] in env:
                    env[l] = env[v[1]]
                else:
                    env.pop(l, None)
            elif v[0] == 'payload':
                src = env.get(v[1])
                if src is not None and src[0] == 'v' and len(src) > 2 and src[2] is not None:
                    env[l] = src[2]
                else:
                    env.pop(l, None)
            elif v[0] == 'v' and len(v) > 2:
                pv = v[2]
                if pv is not None and pv[0] == 'loc':
                    pv = env.get(pv[1])
                    if pv is not None and pv[0] not in ('bool', 'int'):
                        pv = None
                env[l] = ('v', v[1], pv)
            elif v[0] == 'discr':
                src = env.get(v[1])
                if src is not None and src[0] == 'v':
                    env[l] = ('int', src[1])
                else:
                    env.pop(l, None)
            elif v[0] == 'branch':
                src = env.get(v[1])
                ty = fn.local_ty(v[1])
                pv = src[2] if (src is not None and len(src) > 2) else None
                if src is not None and src[0] == 'v' and ty.startswith('std::result::Result'):
                    env[l] = ('v', 0 if src[1] == 0 else 1, pv if src[1] == 0 else None)
                elif src is not None and src[0] == 'v' and ty.startswith('std::option::Option'):
                    env[l] = ('v', 0 if src[1] == 1 else 1, pv if src[1] == 1 else None)
                else:
                    env.pop(l, None)
            else:
                env[l] = v
        t = fn.blocks[b]['term']
        succs = fn.succ(b)
        if t['k'] == 'switch' and t['discr'].get('k') in ('copy', 'move') and not t['discr']['place']['p']:
            l = t['discr']['place']['l']
            tg = {int(v): x for v, x in t['targets']}
            kv = env.get(l)
            if fn.local_ty(l) == 'bool':
                f_edge = tg.get(0, t['otherwise'])
                t_edge = t['otherwise'] if 0 in tg else tg.get(1, t['otherwise'])
                if kv is not None and kv[0] == 'bool':
                    _push(t_edge if kv[1] else f_edge, tuple(sorted(env.items())))
                    continue
                for x in succs:
                    e2 = dict(env)
                    if x == t_edge and x != f_edge:
                        e2[l] = ('bool', True)
                    elif x == f_edge and x != t_edge:
                        e2[l] = ('bool', False)
                    _push(x, tuple(sorted(e2.items())))
                continue
            if kv is not None and kv[0] == 'int':
                _push(tg.get(kv[1], t['otherwise']), tuple(sorted(env.items())))
                continue
        for x in succs:
            _push(x, tuple(sorted(env.items())))
    return out


def must_pass(fn, start, goals, through):
    """True when every (boolean-feasible) path from block `start` to any block of `goals` enters a block of `through`"""
    through = set(through)
    if start in through:
        return True
    r = feasible_reach(fn, start, avoid=through)
    return not any(g in r for g in goals)


def witness_path(fn, start, goals, avoid=()):
    """some path start -> goal avoiding `avoid` (list of block indices) or None"""
    avoid = set(avoid)
    prev = {start: None}
    st = [start]
    goals = set(goals)
    while st:
        b = st.pop(0)
        if b in goals:
            p = []
            while b is not None:
                p.append(b)
                b = prev[b]
            return list(reversed(p))
        for s in fn.succ(b):
            if s not in prev and s not in avoid:
                prev[s] = b
                st.append(s)
    return None


def edge_dominates(fn, s, x, b):
    """every path from entry to b uses the CFG edge s->x"""
    seen = set()
    st = [0]
    while st:
        n = st.pop()
        if n in seen:
            continue
        seen.add(n)
        if n == b:
            return False
        for y in fn.succ(n):
            if n == s and y == x:
                continue
            st.append(y)
    return True


def natural_loop(fn, h):
    """blocks of the natural loop(s) headed by h (h dominates the source of a back edge to h)"""
    dom = fn.dominators()
    tails = [t for t in fn.pred(h) if t in dom and h in dom[t]]
    if not tails:
        return set()
    loop = {h}
    work = list(tails)
    while work:
        n = work.pop()
        if n in loop:
            continue
        loop.add(n)
        work.extend(p for p in fn.pred(n) if p in dom)
    return loop


def block_line(fn, b):
    blk = fn.blocks[b]
    t = blk['term']
    if 'span' in t:
        return t['span']['line']
    if blk['stmts']:
        return blk['stmts'][0]['span']['line']
    return 0


def path_str(fn, path):
    return ' -> '.join('bb%d(L%d)' % (b, block_line(fn, b)) for b in path)


def direct_control_edges(fn, b):
    """edges (s, x) of switch blocks s such that b is control dependent on s through successor x:
    b post-dominates x (or is x) and does not strictly post-dominate s"""
    pd = fn.post_dominators()
    out = []
    for s in fn.entry_reachable():
        if switch_at(fn, s) is None:
            continue
        if s != b and b in pd.get(s, ()):  # b post-dominates s: no dependence
            continue
        for x in fn.succ(s):
            if x == b or b in pd.get(x, ()):
                out.append((s, x))
    return out


def controlling_edges(fn, b, transitive=True):
    """(s, x) edges b is (transitively) control dependent on, innermost first"""
    seen = set()
    out = []
    work = [b]
    visited = {b}
    while work:
        cur = work.pop(0)
        for s, x in direct_control_edges(fn, cur):
            if (s, x) in seen:
                continue
            seen.add((s, x))
            out.append((s, x))
            if transitive and s not in visited:
                visited.add(s)
                work.append(s)
    return out


def controlling_switches(fn, b):
    """switch blocks on which b is (transitively) control dependent"""
    out = []
    for s, x in controlling_edges(fn, b):
        if s not in out:
            out.append(s)
    return out


def controlling_conds(fn, b, transitive=True):
    """[(switch block, successor, edge_cond)] for the edges b is control dependent on"""
    out = []
    for s, x in controlling_edges(fn, b, transitive):
        e = edge_cond(fn, s, x)
        if e:
            out.append((s, x, e))
    return out


def bool_function(fn, atom_of, max_paths=4000):
    """Finite-domain, path-sensitive evaluation of a function returning Result<bool> (or bool).
    `atom_of(term)` maps a boolean condition term to (atom, polarity) or None.
    Walks every acyclic CFG path; at a boolean switch on a recognised atom only the edges consistent
    with the current atom assignment are followed.  Returns (rows, problems) with
    rows = {(assignment as sorted tuple): set(values)}, value in True / False / ('atom', name, pol)."""
    multi = {l for l, ds in fn.defs().items() if len([d for d in ds if not d[-1]]) >= 2}
    rows = {}
    problems = []
    count = [0]

    def value_of(t, env):
        t0 = strip(t)
        if t0[0] == 'phi' and t0[1] in env:
            return value_of(env[t0[1]], env)
        if t0[0] == 'const' and isinstance(t0[2], int):
            return bool(t0[2])
        a = atom_of(t0)
        if a:
            return ('atom', a[0], a[1])
        return ('unknown', show(t0)[:60])

    def go(b, assign, env, visited):
        count[0] += 1
        if count[0] > max_paths:
            problems.append('path budget exhausted')
            return
        if b in visited:
            return
        visited = visited | {b}
        blk = fn.blocks[b]
        env2 = env
        for d in fn.defs_in_block(b):
            l = d[0]
            if l in multi:
                if env2 is env:
                    env2 = dict(env)
                env2[l] = d[1]
        t = blk['term']
        if t['k'] == 'return':
            for rb, k, rt in ret_assigns(fn):
                pass
            val = fn.local_term_in_env(0, env2)
            if val[0] == 'agg' and val[1].endswith('result::Result'):
                if val[2] != 'Ok':
                    return
                v = value_of(dict(val[3])['0'], env2)
            elif val[0] == 'call':
                return  # residual / tail call: not a boolean answer
            else:
                v = value_of(val, env2)
            rows.setdefault(tuple(sorted(assign.items())), set()).add(v)
            return
        if t['k'] == 'switch':
            for s in fn.succ(b):
                e = edge_cond(fn, b, s)
                if e and e[0] == 'bool':
                    a = atom_of(e[1])
                    if a:
                        name, pol = a
                        want = e[2] if pol else (not e[2])
                        if name in assign:
                            if assign[name] != want:
                                continue
                            go(s, assign, env2, visited)
                        else:
                            na = dict(assign)
                            na[name] = want
                            go(s, na, env2, visited)
                        continue
                go(s, assign, env2, visited)
            return
        for s in fn.succ(b):
            go(s, assign, env2, visited)

    go(0, {}, {}, frozenset())
    return rows, problems
