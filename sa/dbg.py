import sys, os
sys.path.insert(0, os.path.dirname(os.path.abspath(__file__)))
from facts import *
from paths import *
F = Facts.load(os.path.join(os.path.dirname(os.path.dirname(os.path.abspath(__file__))), '.cache/facts-debug.json'))
def calls(suffix, filt=None):
    for f in F.find(suffix):
        print('==', f.path)
        for c in f.calls():
            if filt and not any(x in c.callee for x in filt): continue
            print(' bb%d %s(%s) -> bb%d' % (c.bb, c.callee.split('::<')[0][-40:], ', '.join(show(c.arg_term(i))[:70] for i in range(len(c.args))), c.target))
def switches(suffix):
    for f in F.find(suffix):
        for b in f.live_blocks():
            if switch_at(f,b):
                for s in f.succ(b):
                    e=edge_cond(f,b,s)
                    print(' bb%d->bb%d'%(b,s), (e[0], show(e[1])[:90])+tuple(e[2:]) if e else None)
def rets(suffix):
    for f in F.find(suffix):
        for b,k,t in ret_assigns(f): print(' ret bb%d %s %s'%(b,k,show(t)[:120]))
if __name__=='__main__':
    for a in sys.argv[2:]:
        globals()[sys.argv[1]](a)
