"""C09 -- a crash leaves the last committed index intact.
Decided clause: arroy adds no durability side channel."""
from rules import EFF_TXN_ENV, EFF_FS_PROC, EFF_LEAK, effect_scan
from props.C08 import txn_provenance, statics_rule

EXPL = ("Crash atomicity is LMDB's copy-on-write commit (trusted). Decided statically over every non-test body: "
        "(1) the library never commits, aborts, opens or syncs anything itself and uses no environment flags, so the "
        "only durability point is the caller's commit; (2) every database write goes through the caller's transaction; "
        "(3) the only filesystem effects are anonymous temp files created by the TmpNodes constructors and their "
        "read-only map (no named file, directory, process or env effect that could survive a crash as a mixture); "
        "(4) no global state. NOT decided: the set of crash states LMDB can expose; that the committed state is valid (C01).")


def run(ctx):
    ctx.explanation = EXPL
    ctx.trusted = ['rustc nightly MIR construction', 'LMDB crash consistency', 'tempfile::tempfile creates unlinked files', 'effect tables in sa/rules.py']
    ctx.assumptions = ['LMDB commit is atomic and durable as documented']
    effect_scan(ctx, 'R-EFF-TXN', EFF_TXN_ENV, what='transaction/environment functions')
    n, allowed = effect_scan(ctx, 'R-EFF-FS', EFF_FS_PROC, what='filesystem/process effects')
    ctx.floor('R-EFF-FS', 'anonymous temp-file sites (TmpNodes constructors + map)', allowed, 3)
    effect_scan(ctx, 'R-EFF-NAMED', [r for r in EFF_LEAK if r[0].startswith('tempfile')], what='persistent temp files')
    txn_provenance(ctx)
    statics_rule(ctx)
    # state kept in the Writer / Reader values themselves (interior mutability) survives an aborted or killed transaction just
    # like a file would: C08's freeze rule
    from props.C08 import freeze_rule
    freeze_rule(ctx)
    # "that state opens, passes the structural checks of C01 and answers queries as in C02": the committed state a crash can
    # expose is whatever a writer leaves in its transaction, so the staleness protocol (C06) and the forest disciplines (C01)
    # are re-evaluated here rather than assumed
    from props import C01, C06
    import premises
    premises.forest(ctx)
