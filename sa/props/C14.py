"""C14 -- the memory hint changes how a build proceeds, never what it produces."""
import forest_rules as fr

EXPL = ("Decided (progress + conservation): (P-SELECT) in the batch selector the selection loop exits only on exhaustion, on "
        "the budget break, or on error; the break is edge-dominated by `len(selected) >= K` with a constant K >= 1, so a "
        "non-empty input always yields a non-empty batch for every memory value including 0; on the continue path the chosen id is "
        "pushed to the selected set, inserted in the leaf map and removed from the candidates (same id), and nothing is consumed "
        "on the break path -- the input is partitioned, nothing dropped or duplicated; (Q-WORKLIST) the selected half is what gets "
        "routed, the remainder is re-examined by the enclosing loop or passed to the insertion rooted at the same bucket, buckets it "
        "reports over-full are OR-ed back into the worklist, which pops exactly the id it examines and stores the new subtree under "
        "that id; (Q-PROGRESS) when an over-full bucket is rebuilt from a partial batch, the tree constructor's single-bucket shortcut is disabled while a remainder exists (otherwise re-inserting the remainder recreates the same bucket and the worklist never drains); (R-MEMORY-HINT) the available_memory option reaches nothing but the selector's memory argument. NOT decided: "
        "termination when re-splitting does not shrink (duplicates, C20); time."
        " Q-PROGRESS requires every bucket-return site of the tree constructor to be disabled while a remainder exists, and its recursive calls to re-enable the shortcut with a constant (a forced split must not propagate to subsets); the C01 / C06 premise rule sets (incl. R-FULL-SCAN and applied-before-next-round, which are what a tight memory hint exercises) are re-evaluated.")


def run(ctx):
    ctx.explanation = EXPL
    ctx.trusted = ['rustc nightly MIR construction', 'roaring select/remove_smallest semantics']
    fr.r_selector(ctx)
    fr.r_worklist(ctx)
    fr.r_progress(ctx)
    fr.r_memory_only(ctx)
    # the worklist only works if every bucket that exceeds the capacity is queued under its own id (C15's capacity gate)
    fr.r_capacity(ctx)
    # the statement refers to C01 ("a forest satisfying C01"): C01's structural clauses are re-checked by this check too
    from props import C01
    import premises
    premises.forest(ctx)
    import rules as _rules
    ctx.floor('R-SETTER', 'option setters', _rules.r_setters(ctx, ('writer::ArroyBuilder',)), 5)
