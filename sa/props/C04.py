"""C04 -- a stored vector is routed to itself by every tree."""
import pairing
import reader_rules as rr
import side_rules as sr

EXPL = ("Decided by: (R-SIGN, finite sign-domain abstract interpretation incl. NaN) Distance::side sends margin>0 Right, <0 Left "
        "and only 0/NaN to the random side; Distance::pq_distance keeps a positive incoming priority positive on the side the "
        "item was routed to and makes it negative on the other side -- checked for the default methods and for every override "
        "among the 7 impls; by induction an item's own path carries positive priorities and every sibling a negative one, so on "
        "the max-heap it is popped first. (R-MARGIN) writer and reader obtain the margin from the same D::margin_no_header, "
        "whose impls forward both arguments to one symmetric kernel (C11 decides the kernel's pairing). (R-LINK, tag "
        "propagation) at every split-node construction in the writer (tree creation, incremental insertion, deletion) the left "
        "child derives from values routed Left / the old left child only, the right child from Right only. (S2-PAIRING) the "
        "reader pushes `left` with the Side::Left priority and `right` with Side::Right. (S6-HEAP) the traversal queue is a "
        "max-heap on (OrderedFloat<f32>, NodeId). (R-RANDOM-ZERO) random child assignment is paired with a zeroed normal and "
        "incremental insertion routes randomly exactly when the normal is zero (the property's exemption). NOT decided: nothing "
        "structural; exactly-zero margins are exempt by the property.")


def run(ctx):
    ctx.explanation = EXPL
    ctx.trusted = ['rustc nightly MIR construction', 'f32::min semantics', 'std BinaryHeap is a max-heap']
    F = ctx.F
    sr.r_sign_agreement(ctx)
    sr.r_margin_forward(ctx)
    n, summ = pairing.check_pairing(ctx, 'R-LINK')
    ctx.floor('R-LINK', 'split-node constructions in the writer', n, 3)
    tvs = rr.traversal(F)
    if ctx.need(len(tvs) >= 1, 'S2-PAIRING', 'traversal function'):
        for f in tvs:
            tv = rr.Trav(ctx, f)
            if ctx.need(tv.pop is not None and tv.dedup is not None, 'S2-PAIRING', 'queue.pop()/dedup in ' + f.path):
                rr.r_split_arm(ctx, tv)
                rr.r_seed_roots(ctx, tv)
    sr.r_random_zero(ctx)
    sr.r_routed_by_side(ctx)
    # "every stored vector sits on its own side of every plane above it" is a statement about the forest the writer maintains:
    # an overwritten vector must leave its old position (removal pass, C01) and the overwrite must be seen by the next build
    # (updated mark, C06).  These premises are re-evaluated here rather than assumed.
    from props import C01, C06
    import premises
    premises.forest(ctx)
    # a NaN or otherwise undefined normal is neither a plane nor the exempt zero plane: the centroid / normalisation guards
    # that keep NaN out of split normals (C20's R-CENTROID) are part of "routed to itself"
    from props import C20
    C20.r_centroid(ctx)
    # the writer computes margin(item, normal), the reader margin(normal, query): they agree only if the kernel both margins
    # forward to pairs lane i of one operand with lane i of the other (C11's structural kernel clauses)
    from props import C11
    C11.structural(ctx)
