"""C05 -- the item store returns exactly what was last written."""
import paths
import vec_rules
from facts import strip, show, walk, short
from rules import db_ops, cursor_ops, key_info, same, root, is_public, owner_path, heed_db_call, full_kind_range, sp
from props import C06, C16

EXPL = ("Decided structurally: (R-COPY) the f32 vector codec performs no floating-point operation and uses one "
        "endianness class on both sides (bit patterns survive); (R-KEY-API) add/append/del/contains/item_vector of Writer "
        "and Reader address exactly Key::item(self.index, <the item parameter>); (R-WRITE-ALWAYS) every success return of "
        "add_item/append_item is preceded by the item put of a leaf built from the caller's vector (no skipped write); "
        "(R-TRUNC) every vector decoded from a stored leaf that is returned or re-encoded is truncated to the declared "
        "dimension (item_vector x2, iteration, metric change); (R-ITER) both iterators scan Prefix::item(self.index) in key "
        "order and yield the entry's own id and vector; contains/is_empty are the emptiness of a get / of that scan; "
        "(R-CLEAR) clear removes every key of the index; (R-BUILD-RO) no database write reachable from the build entry "
        "targets an item key except the DotProduct preprocess cursor, which rewrites only header fields of the leaf it just "
        "read; (R-META-ITEMS) the id set published in the metadata is the live item-prefix scan. NOT decided: heed/LMDB "
        "get/put fidelity (trusted).")


def api_fns(F):
    out = []
    for owner in ('writer::Writer::<D>::', "reader::Reader::<'t, D>::"):
        for name in ('add_item', 'append_item', 'del_item', 'contains_item', 'item_vector'):
            f = F.one(owner + name)
            if f is not None:
                out.append(f)
    return out


def r_key_api(ctx):
    F = ctx.F
    rule = 'R-KEY-API'
    fns = api_fns(F)
    ctx.floor(rule, 'item API methods', len(fns), 7)
    for f in fns:
        u32s = [l for l in f.arg_locals() if f.local_ty(l) == 'u32']
        item_arg = u32s[0] if len(u32s) == 1 else f.arg_by_name('item')
        if not ctx.need(item_arg is not None, rule, 'item parameter of ' + f.path):
            continue
        found = False
        for g in F.family(f):
            for (_g, c, op, w, k) in db_ops(F, [g]):
                if k is None:
                    continue
                ki = key_info(c.arg_term(k))
                if ki and ki[0] == 'item':
                    found = True
                    it = strip(ki[2])
                    idx = strip(ki[1])
                    good = it[0] == 'arg' and it[1] == item_arg and idx[0] == 'field' and idx[2] == 'index'
                    ctx.check(good, rule, '%s/%s' % (f.path, op), c.loc(), 'Key::item(self.index, item)',
                              '`%s` addresses %s instead of Key::item(self.index, item)' % (f.path, show(c.arg_term(k))))
            for c in g.calls():
                if c.callee == 'reader::item_leaf':
                    found = True
                    idx, it = strip(c.arg_term(1)), strip(c.arg_term(3))
                    good = it[0] == 'arg' and it[1] == item_arg and idx[0] == 'field' and idx[2] == 'index'
                    ctx.check(good, rule, '%s/item_leaf' % f.path, c.loc(), 'item_leaf(self.database, self.index, txn, item)',
                              '`%s` looks up (%s, %s) instead of (self.index, item)' % (f.path, show(idx), show(it)))
        ctx.check(found, rule, f.path + '/addresses-item-key', f.loc(), 'reaches the item key', '`%s` no longer reads/writes an item key' % f.path)
    il = F.one('reader::item_leaf')
    if ctx.need(il is not None, rule, 'reader::item_leaf'):
        gets = [(c, k) for (_g, c, op, w, k) in db_ops(F, [il]) if op == 'get']
        good = len(gets) == 1
        if good:
            ki = key_info(gets[0][0].arg_term(gets[0][1]))
            good = ki is not None and ki[0] == 'item' and strip(ki[1])[0] == 'arg' and strip(ki[2])[0] == 'arg' \
                and il.local_ty(strip(ki[1])[1]) == 'u16' and il.local_ty(strip(ki[2])[1]) == 'u32'
        ctx.check(good, rule, 'item_leaf/get', il.loc(), 'get(Key::item(index, item))', 'reader::item_leaf does not read Key::item(index, item)')
        # Some(leaf) only for a Leaf node, the leaf of that very get
        oks = [(b, t) for b, k, t in paths.ret_assigns(il) if k == 'ok']
        some = [t for b, t in oks if 'Some' in show(t) or paths.mentions_call(t, gets[0][0].bb if gets else -1)]
        ctx.check(bool(some) and all(gets and paths.mentions_call(t, gets[0][0].bb) for t in some), rule, 'item_leaf/returns-own-leaf', il.loc(),
                  'returns the leaf it fetched', 'reader::item_leaf returns something else than the fetched leaf')


def r_write_always(ctx):
    F = ctx.F
    rule = 'R-WRITE-ALWAYS'
    for name in ('add_item', 'append_item'):
        f = F.one('writer::Writer::<D>::' + name)
        if not ctx.need(f is not None, rule, name):
            continue
        puts = []
        for (_g, c, op, w, k) in db_ops(F, [f]):
            if w and k is not None:
                ki = key_info(c.arg_term(k))
                if ki and ki[0] == 'item':
                    puts.append(c)
        goals = [b for b, k, t in paths.ret_assigns(f) if k in ('ok', 'call', 'other')]
        good = bool(puts) and paths.must_pass(f, 0, goals, [c.bb for c in puts])
        w = None if good else paths.witness_path(f, 0, goals, avoid=[c.bb for c in puts])
        ctx.check(good, rule, f.path, f.loc(), 'every success return follows the item put',
                  '`%s` can return success without writing the item (a later read returns the previous vector)' % f.path, path=[paths.path_str(f, w)] if w else None)


def r_iter(ctx):
    F = ctx.F
    rule = 'R-ITER'
    for path in ('writer::Writer::<D>::iter', "reader::Reader::<'t, D>::iter"):
        f = F.one(path)
        if not ctx.need(f is not None, rule, path):
            continue
        its = [(c, k) for (_g, c, op, w, k) in db_ops(F, [f]) if op == 'prefix_iter']
        good = len(its) == 1
        if good:
            ki = key_info(its[0][0].arg_term(its[0][1]))
            good = ki is not None and ki[0] == 'p-item' and strip(ki[1])[0] == 'field' and strip(ki[1])[2] == 'index'
            agg = None
            for b, k, t in paths.ret_assigns(f):
                agg = paths.agg_fields(t, 'item_iter::ItemIter') or agg
            good = good and agg is not None and paths.mentions_call(agg['inner'], its[0][0].bb) and vec_rules.is_dimensions(agg.get('dimensions', ('unknown',)))
        ctx.check(good, rule, path, f.loc(), 'ItemIter over prefix_iter(Prefix::item(self.index)) with the declared dimension',
                  '`%s` does not iterate exactly the item prefix of its own index' % path)
    nx = F.fn("<item_iter::ItemIter<'_, D> as std::iter::Iterator>::next")
    if ctx.need(nx is not None, rule, 'ItemIter::next'):
        # yields (key.node.item, vector of the same entry)
        good = False
        for b, k, t in paths.ret_assigns(nx):
            for s in walk(t):
                if s[0] == 'tuple' and len(s[1]) == 2:
                    idt, vt = strip(s[1][0]), s[1][1]
                    inner = [x for x in walk(idt) if x[0] == 'call' and x[1].endswith('Iterator::next')]
                    inner2 = [x for x in walk(vt) if x[0] == 'call' and x[1].endswith('Iterator::next')]
                    if idt[0] == 'field' and idt[2] == 'item' and inner and inner2 and inner[0][3] == inner2[0][3]:
                        good = True
        ctx.check(good, rule, 'ItemIter::next/pair', nx.loc(), 'yields the id and the vector of the same cursor entry',
                  'ItemIter::next does not pair the entry\'s own id with its own vector')
    for path in ('writer::Writer::<D>::contains_item', "reader::Reader::<'t, D>::contains_item"):
        f = F.one(path)
        if not ctx.need(f is not None, rule, path):
            continue
        good = False
        for g in F.family(f):
            for b, k, t in paths.ret_assigns(g):
                s = strip(t)
                if s[0] == 'agg' and s[1].endswith('result::Result') and s[2] == 'Ok' and s[3]:
                    s = strip(s[3][0][1])      # Ok(entry.is_some()) written as an explicit match arm
                neg = False
                while s[0] == 'unop' and s[1] == 'Not':
                    s = strip(s[2])
                    neg = not neg
                if s[0] == 'call' and ((s[1].endswith('::is_some') and not neg) or (s[1].endswith('::is_none') and neg)):
                    good = True
        ctx.check(good, rule, path + '/is_some', f.loc(), 'presence = get(..).is_some()', '`%s` does not report get(..).is_some()' % path)
    for path in ('writer::Writer::<D>::is_empty', "reader::Reader::<'t, D>::is_empty"):
        f = F.one(path)
        if not ctx.need(f is not None, rule, path):
            continue
        good = False
        for g in F.family(f):
            for b, k, t in paths.ret_assigns(g):
                s = strip(t)
                if s[0] == 'agg' and s[1].endswith('result::Result') and s[2] == 'Ok' and s[3]:
                    s = strip(s[3][0][1])      # Ok(first.is_none()) after `let mut items = self.iter(rtxn)?`
                neg = False
                while s[0] == 'unop' and s[1] == 'Not':
                    s = strip(s[2])
                    neg = not neg
                if s[0] == 'call' and ((s[1].endswith('::is_none') and not neg) or (s[1].endswith('::is_some') and neg)) \
                        and any(x[0] == 'call' and x[1].endswith('Iterator::next') for x in walk(s)):
                    good = True
        ctx.check(good and any(c.callee.endswith('::iter') for c in f.calls()), rule, path + '/first-is-none', f.loc(), 'empty = iter().next().is_none()',
                  '`%s` does not report iter().next().is_none()' % path)
    r = F.adts.get('reader::Reader')
    for path, fld, how in (("reader::Reader::<'t, D>::n_items", 'items', 'len'), ("reader::Reader::<'t, D>::item_ids", 'items', 'ref')):
        f = F.one(path)
        if not ctx.need(f is not None, rule, path):
            continue
        good = False
        for b, k, t in paths.ret_assigns(f):
            s = t if how == 'ref' else strip(t)
            txt = show(t)
            good = 'self.items' in txt and (how == 'ref' or (strip(t)[0] == 'call' and strip(t)[1].endswith('RoaringBitmap>::len')))
        ctx.check(good, rule, path, f.loc(), 'reports self.items', '`%s` no longer reports the metadata id set' % path)


def r_clear(ctx):
    C06.clear_rule(ctx, 'R-CLEAR')


def r_build_ro(ctx):
    F = ctx.F
    rule = 'R-BUILD-RO'
    be = C06.build_entry(F)
    if not ctx.need(be is not None, rule, 'build entry'):
        return
    reach = dict(F.reach([be]))
    # the build calls `D::preprocess` through the trait: every implementation (and the default) is part of the build
    for pth, g0 in F.fns.items():
        if (pth.endswith(' as distance::Distance>::preprocess') or pth == 'distance::Distance::preprocess') and not g0.in_test:
            for g1 in F.family(g0):
                reach.setdefault(g1.path, g1)
    n = 0
    for g in reach.values():
        for (_g, c, op, w, k) in db_ops(F, [g]):
            if not w or k is None:
                continue
            n += 1
            from rules import key_kind_at
            kind = key_kind_at(g, c, k) or '?'
            key = '%s/%s' % (owner_path(g), op)
            if op in ('prefix_iter_mut',):
                continue
            ctx.check(kind in ('tree', 'metadata', 'version', 'updated', 'not-item'), rule, key + '/' + kind, c.loc(), 'build writes a %s key' % kind,
                      'the build writes an item key (`%s` in `%s`): building must not change stored items' % (op, g.path))
        for (_g, c, op) in cursor_ops(F, [g]):
            n += 1
            key = '%s/%s' % (owner_path(g), op)
            if op == 'del_current':
                rc = C06.cursor_root_call(g, c.arg_term(0)) if hasattr(C06, 'cursor_root_call') else None
                from rules import cursor_root_call
                rc = cursor_root_call(g, c.arg_term(0))
                ki = key_info(rc[2][2]) if rc else None
                ctx.check(ki is not None and ki[0] in ('p-updated', 'p-tree'), rule, key, c.loc(), 'cursor delete over %s' % (ki[0] if ki else '?'),
                          'a build-time cursor in `%s` deletes entries that are not marks/tree nodes' % g.path)
            else:
                # in-place rewrite of an item: only header fields of the leaf just read may change
                val = c.arg_term(len(c.args) - 1)
                leaf_roots = set()
                for s in walk(val):
                    if s[0] == 'var':
                        leaf_roots.add(s[1])
                bad = []
                for blk in g.blocks:
                    for st in blk['stmts']:
                        p = st['place']
                        if p['l'] in leaf_roots and p['p']:
                            names = [e.get('n') for e in p['p'] if e['k'] == 'field']
                            if names[:1] != ['header']:
                                bad.append('.'.join(n for n in names if n))
                src_ok = any(s[0] == 'call' and s[1].endswith('Leaf::<\'_, D>::into_owned') or (s[0] == 'call' and s[1].endswith('::into_owned')) for l in leaf_roots for s in walk(g.local_term(l)))
                whole = []
                for l in leaf_roots:
                    ds = [d for d in g.defs().get(l, []) if not d[-1]]
                    whole.append(len(ds))
                ctx.check(not bad and bool(leaf_roots), rule, key, c.loc(), 'rewrites only header fields of the leaf it just read',
                          'the build-time item rewrite in `%s` changes %s of the stored leaf: building must not change item vectors' % (g.path, bad or 'an unknown part'))
    ctx.floor(rule, 'database writes reachable from the build entry', n, 12)


def r_meta_items(ctx):
    F = ctx.F
    rule = 'R-META-ITEMS'
    be = C06.build_entry(F)
    if be is None:
        return
    reach = F.reach([be])
    n = 0
    for g in reach.values():
        for (_g, c, op, w, k) in db_ops(F, [g]):
            if op != 'put' or k is None:
                continue
            ki = key_info(c.arg_term(k))
            if not ki or ki[0] != 'metadata':
                continue
            n += 1
            d = paths.agg_fields(c.arg_term(3), 'metadata::Metadata')
            good = False
            why = '?'
            if d:
                it = strip(d['items'])
                # either the scan result itself or the parameter fed with it by the build entry
                src = it
                if it[0] == 'arg' and g is not be:
                    for cc in be.calls():
                        if any(h is g for h in F.resolve_call(cc)):
                            src = strip(cc.arg_term(it[1] - 1))
                if src[0] == 'call':
                    for h in F.resolve_call(be.call_at(src[3])):
                        scans = [(key_info(x.arg_term(2)) or (None,))[0] for hh in F.family(h) for x in hh.calls() if 'prefix_iter' in x.callee]
                        pushes = [show(x.arg_term(1)) for hh in F.family(h) for x in hh.calls() if x.callee.endswith(('RoaringBitmap>::push', 'RoaringBitmap>::insert'))]
                        good = scans == ['p-item'] and any('unwrap_item' in p or '.item' in p for p in pushes)
                        why = 'items = ids of the Prefix::item(self.index) scan in `%s`' % h.path
            ctx.check(good, rule, '%s/metadata.items' % g.path, c.loc(), why, 'the id set published in the metadata of `%s` is not the live item scan (%s)' % (g.path, why))
    ctx.floor(rule, 'metadata puts of the build', n, 2)


def run(ctx):
    ctx.explanation = EXPL
    ctx.trusted = ['rustc nightly MIR construction', 'heed get/put fidelity', 'bytemuck::cast_slice reinterprets in place']
    ctx.assumptions = ['little-endian host']
    vec_rules.f32_codec_is_bytecopy(ctx, 'R-COPY')
    C16.r_vector_encoding(ctx)
    r_key_api(ctx)
    r_write_always(ctx)
    n = vec_rules.trunc_rule(ctx, 'R-TRUNC')
    ctx.floor('R-TRUNC', 'to_vec sites on stored leaves', n, 4)
    r_iter(ctx)
    r_clear(ctx)
    r_build_ro(ctx)
    r_meta_items(ctx)
    # "counts and the id set reported by a reader agree": every successful build (re)publishes the metadata
    be = C06.build_entry(ctx.F)
    if ctx.need(be is not None, 'R-PUBLISH', 'build entry'):
        ctx.check(C06.always_passes(ctx.F, be, C06.is_metadata_put(ctx.F)), 'R-PUBLISH', '%s/metadata' % be.path, be.loc(),
                  'every success path of the build writes the metadata (item ids, roots, metric)',
                  'a success path of `%s` returns without rewriting the metadata: the reader\'s item ids / counts can disagree with the item store' % be.path)
    # quantised metrics: "the sign pattern of what was written, at the declared dimension": C12's codec clauses
    from props import C12
    C12.r_pack_bits(ctx)
    C12.r_iter(ctx)
    # what is read back is what the item API stored: the caller's vector, encoded as is, with the header derived from it
    from props import C19
    C19.r_stored_leaf(ctx)
    # "deletion reports whether the item existed": the delete's own answer is what del_item returns on each side (R-DEL)
    C19.r_del(ctx)
    # `item_ids()` / `n_items()` / `contains` on a reader answer from the metadata of the last build: they describe the item
    # store only as long as the staleness protocol (C06 rule set) refuses readers after any change -- re-evaluated here
    C06.rules(ctx)
