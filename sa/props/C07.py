"""C07 -- indexes sharing one database never affect each other."""
import paths
from facts import strip, show, walk
from rules import (db_ops, cursor_ops, key_info, same, full_kind_range, KEY_CTORS, WHOLE_DB_OPS, owner_path, root, cursor_root_call, sp)

EXPL = ("Decided by index-provenance over the MIR origin terms of every key: (R-INDEX-KEY) the index argument of every "
        "Key::/Prefix:: constructor call in the library is the function's own index -- `self.index` (also through closure "
        "captures), or a u16 parameter; (R-INDEX-ARG) every call passing a u16 index to an in-crate function and every "
        "Writer/Reader aggregate feeds it from an own index, so parameters are own indexes by induction over the call graph "
        "(public entry points take the user's index once and store it); constants, arithmetic or foreign origins are violations. "
        "(R-INDEX-OP) every heed operation's key/prefix/range argument is built by such a constructor (the upgrade copies keys "
        "read from the source database; cursor writes use the key the cursor yielded); the single delete_range is "
        "Key::tree(idx,0)..=Key::tree(idx,u32::MAX) of one index. (R-WHOLE-DB) whole-database operations (clear, iter, len, "
        "range, first/last...) only in the upgrade entry points / n_nodes. (R-PREFIX) PrefixCodec writes index (big-endian) "
        "then kind exactly like KeyCodec, so a prefix scan is exactly one (index, kind). NOT decided: heed's prefix iteration itself.")

PUBLIC_INDEX_ENTRY = {
    'writer::Writer::<D>::new': 'public constructor: the user names the index once; stored as self.index',
    "reader::Reader::<'t, D>::open": 'public constructor: the user names the index once; stored as self.index',
}


def own_index(f, t):
    """is `t` the enclosing function's own index?  -> reason string or None"""
    t0 = strip(t)
    if t0[0] == 'arg':
        if f.local_ty(t0[1]) == 'u16':
            return 'u16 parameter `%s`' % t0[2]
        return None
    if t0[0] == 'field' and t0[2] == 'index':
        r = root(t0[1])
        if r[0] == 'arg':
            return 'index field of `%s`' % show(t0[1])
    return None


def upgrade_loop_index(f, t):
    """the variable of the per-index upgrade loop, which visits every u16 once"""
    from rules import every_u16
    return every_u16(f, t)


def r_index_key(ctx):
    F = ctx.F
    rule = 'R-INDEX-KEY'
    n = 0
    ordn = {}
    for f in F.lib_fns():
        for c in f.calls():
            if c.callee not in KEY_CTORS:
                continue
            n += 1
            t = c.arg_term(0)
            base = '%s/%s' % (f.path, c.callee.split('::', 1)[1])
            ordn[base] = ordn.get(base, 0) + 1
            key = '%s#%d' % (base, ordn[base])
            why = own_index(f, t)
            if why is None and f.path.startswith('upgrade::') and upgrade_loop_index(f, t):
                why = 'loop variable over every index 0..=65535 (per-index upgrade)'
            if why is None and f.path.startswith('upgrade::'):
                t0 = strip(t)
                if t0[0] == 'field' and t0[2] == 'index' and any(x[0] == 'call' and x[1].endswith('Iterator::next') and any(
                        y[0] == 'call' and y[1].startswith('heed::Database') and y[1].endswith('::iter') for y in walk(x)) for x in walk(t0)):
                    why = 'upgrade: the index of the source entry being rewritten (keys keep their index)'
            if why is None and 'heed::BytesDecode' in f.path and any(s[0] == 'call' and s[1].endswith('read_u16') for s in walk(t)):
                why = 'key decoder: the index is the one stored in the key bytes'
            if why:
                ctx.ok(rule, key, c.loc(), why)
            else:
                ctx.bad(rule, key, c.loc(), 'index component of `%s` in `%s` is not the function\'s own index: %s' % (c.callee, f.path, show(t)))
    ctx.floor(rule, 'Key/Prefix constructor calls', n, 44)


def r_index_arg(ctx):
    """u16 index parameters are fed with own indexes at every call site; struct fields likewise"""
    F = ctx.F
    rule = 'R-INDEX-ARG'
    n = 0
    for f in F.lib_fns():
        for c in f.calls():
            for g in F.resolve_call(c):
                if g.in_test:
                    continue
                for i, l in enumerate(g.arg_locals()):
                    if g.local_ty(l) == 'u16' and i < len(c.args) and c.callee not in KEY_CTORS and not g.path.startswith('key::'):
                        n += 1
                        t = c.arg_term(i)
                        key = '%s->%s/%s' % (owner_path(f), g.path, g.local_name(l))
                        why = own_index(f, t)
                        ctx.check(why is not None, rule, key, c.loc(), why or '',
                                  'call of `%s` from `%s` passes a foreign index: %s' % (g.path, f.path, show(t)))
        # aggregates of the handle types
        for blk in f.blocks:
            if blk['cleanup']:
                continue
            for st in blk['stmts']:
                rv = st['rv']
                if rv['k'] == 'agg' and rv.get('agg') == 'adt' and rv['adt'] in ('writer::Writer', 'reader::Reader') and 'index' in rv['fields']:
                    n += 1
                    t = f.term(rv['ops'][rv['fields'].index('index')])
                    key = '%s/%s{index}' % (f.path, rv['adt'])
                    why = own_index(f, t)
                    ctx.check(why is not None, rule, key, sp(st['span']), why or '',
                              '`%s` built in `%s` with a foreign index: %s' % (rv['adt'], f.path, show(t)))
    ctx.floor(rule, 'index hand-overs (u16 arguments, handle aggregates)', n, 11)


def worklist_keys_ok(f, t):
    """`t` is an element taken out of a local Vec (pop / remove / swap_remove / iteration) whose every element was built by
    a Key constructor (initial `vec![..]` content and every push)"""
    t0 = strip(t)
    src = None
    for s in walk(t0):
        if s[0] == 'call' and s[1].endswith(('Vec::<T, A>::pop', 'Vec::<T, A>::remove', 'Vec::<T, A>::swap_remove', 'VecDeque::<T, A>::pop_front', 'VecDeque::<T, A>::pop_back')) and s[2]:
            src = strip(s[2][0])
            break
    if src is None or src[0] != 'call' or not isinstance(src[3], int):
        return False
    elems = []
    if src[1].endswith('box_assume_init_into_vec_unsafe'):
        blk = f.blocks[src[3]]
        found = False
        for si, st in enumerate(blk['stmts']):
            if st['rv']['k'] == 'agg' and st['rv'].get('agg') == 'array' and st['place']['p'] and st['place']['p'][0]['k'] == 'deref':
                arr = f._def_term(('assign', src[3], si, st['rv'], []), 0, frozenset())
                elems += list(strip(arr)[1]) if strip(arr)[0] == 'array' else [arr]
                found = True
        if not found:
            return False
    elif not src[1].endswith(('Vec::<T>::new', 'Vec::<T>::with_capacity', 'VecDeque::<T>::new', 'Default::default')):
        return False
    for x in f.calls():
        if x.args and strip(x.arg_term(0))[0] == 'call' and strip(x.arg_term(0))[3] == src[3] and x.bb != src[3]:
            if x.callee.endswith(('::push', '::push_back', '::push_front', '::insert')):
                elems.append(x.arg_term(len(x.args) - 1))
            elif x.callee.endswith(('::extend', '::append', '::extend_from_slice', '::resize')):
                return False
    return bool(elems) and all(key_info(e) is not None for e in elems)


def r_index_op(ctx):
    F = ctx.F
    rule = 'R-INDEX-OP'
    ops = db_ops(F)
    n = 0
    ordn = {}
    for f, c, op, w, k in ops:
        if k is None:
            continue
        n += 1
        t = c.arg_term(k)
        base = '%s/%s' % (owner_path(f), op)
        ordn[base] = ordn.get(base, 0) + 1
        key = '%s#%d' % (base, ordn[base])
        ki = key_info(t)
        if 'range' in op:
            fr = full_kind_range(t)
            ctx.check(fr is not None, rule, key, c.loc(), 'range = Key::k(idx,0) ..= Key::k(idx,u32::MAX): exactly one kind of one index',
                      'range bounds of `%s` in `%s` are not the inclusive full id range of one kind of one index: %s' % (op, f.path, show(t)))
            continue
        if ki:
            ctx.ok(rule, key, c.loc(), 'key built by %s' % ki[0])
        elif f.path.startswith('upgrade::cosine_from_0_4_to_0_5') and root(t)[0] == 'var' and root(t)[2] == 'key':
            ctx.ok(rule, key, c.loc(), 'upgrade: key read from the source database, only its kind/id rewritten')
        elif worklist_keys_ok(f, t):
            ctx.ok(rule, key, c.loc(), 'key popped from a work list that only ever receives constructor-built keys')
        else:
            ctx.bad(rule, key, c.loc(), 'key of `%s` in `%s` is not built by a Key/Prefix constructor: %s' % (op, f.path, show(t)))
    for f, c, op in cursor_ops(F):
        n += 1
        key = '%s/%s' % (owner_path(f), op)
        rc = cursor_root_call(f, c.arg_term(0))
        # a positional operation acts on the entry the iterator *yielded*: when `next()` answered None (prefix exhausted or
        # empty) the underlying LMDB cursor already stands on the first key after the prefix -- an entry of another index
        cur_local = c.args[0]['place']['l'] if c.args and c.args[0].get('k') in ('copy', 'move') else None

        def same_cursor(x):
            if not x.args or x.args[0].get('k') not in ('copy', 'move'):
                return False
            rx = cursor_root_call(f, x.arg_term(0))
            return (rc is not None and rx is not None and rx[3] == rc[3]) or (cur_local is not None and root(x.arg_term(0)) == root(c.arg_term(0)))
        nexts = [x for x in f.calls() if x.callee.endswith('Iterator::next') and same_cursor(x)]
        if nexts:
            stray = None
            for nx_ in nexts:
                somes = set()
                for b0 in f.live_blocks():
                    if paths.switch_at(f, b0) is None:
                        continue
                    for x0 in f.succ(b0):
                        e = paths.edge_cond(f, b0, x0)
                        if e and e[0] == 'disc' and paths.mentions_call(e[1], nx_.bb):
                            d0 = strip(e[1])
                            inner = strip(d0[1]) if d0[0] == 'discr' else d0
                            is_try = inner[0] == 'call' and inner[1].endswith('Try::branch')
                            vals = list(e[2])
                            if not vals and len(e) > 3 and e[3]:
                                listed = [int(v) for v, _t in paths.switch_at(f, b0)['targets']]
                                vals = [v for v in (0, 1) if v not in listed]
                            if not is_try and vals == [1]:
                                somes.add(x0)
                others = [y.bb for y in nexts if y is not nx_]
                if nx_.target is not None and nx_.target >= 0 and c.bb in f.reachable(nx_.target, avoid=list(somes) + others):
                    stray = nx_
            ctx.check(stray is None, rule, key + '/on-yielded-entry', c.loc(), 'runs only after `next()` yielded an entry of the prefix',
                      '`%s` in `%s` can run although the preceding `next()` did not yield an entry (its answer is not tested, or the None arm reaches it): the LMDB cursor then stands on the first key after the prefix, which belongs to another index' % (op, f.path))
        if op == 'del_current':
            ctx.check(rc is not None or f.path.endswith('::preprocess'), rule, key, c.loc(), 'deletes the entry the prefix cursor is on',
                      'del_current in `%s` on a cursor that is not a prefix cursor' % f.path)
        else:
            kt = c.arg_term(len(c.args) - 2)
            nx = [s for s in walk(kt) if s[0] == 'call' and s[1].endswith('Iterator::next')]
            ctx.check(bool(nx), rule, key, c.loc(), 'writes under the key the cursor just yielded',
                      '`%s` in `%s` writes a key that the cursor did not yield: %s' % (op, f.path, show(kt)))
    ctx.floor(rule, 'keyed heed operations', n, 50)


WHOLE_ALLOWED = {
    ('clear', 'upgrade::cosine_from_0_4_to_0_5'): 'the 0.4->0.5 upgrade rewrites the whole (separate) target database',
    ('iter', 'upgrade::cosine_from_0_4_to_0_5'): 'the upgrade must visit every entry of the source database',
    ('len', "reader::Reader::<'t, D>::n_nodes"): 'read-only count exposed for exhaustive search budgets',
}


def r_whole_db(ctx):
    F = ctx.F
    rule = 'R-WHOLE-DB'
    for f, c, op, w, k in db_ops(F):
        if op in WHOLE_DB_OPS or k is None:
            key = '%s/%s' % (owner_path(f), op)
            why = WHOLE_ALLOWED.get((op, owner_path(f)))
            if why and not (w and op != 'clear'):
                ctx.ok(rule, key, c.loc(), 'allowed: ' + why)
            else:
                ctx.bad(rule, key, c.loc(), 'whole-database operation `%s` in `%s` is not confined to one index' % (op, f.path))
    # an allowed whole-database *read* is an accessor for the caller, not an input of the library's own logic: a search or a
    # build that consults it depends on the content of the other indexes
    for (op, owner), why in WHOLE_ALLOWED.items():
        if not owner.startswith('reader::'):
            continue
        users = [(g, x) for g in F.lib_fns() for x in g.calls() if (x.callee == owner or x.resolved == owner) and owner_path(g) != owner]
        ctx.check(not users, rule, '%s/internal-use' % owner, users[0][1].loc() if users else '', 'the whole-database count is not used by the library itself',
                  '`%s` (a whole-database `%s`) is consulted by %s: results of one index would depend on the other indexes of the database' % (owner, op, sorted({g.path for g, x in users})))
    ctx.ok(rule, 'scan', '', 'all heed Database operations classified', nontrivial=False)


def r_prefix(ctx):
    """PrefixCodec emits the same leading bytes as KeyCodec"""
    try:
        import schema
    except ImportError:
        ctx.note('R-PREFIX: wire-schema engine not available in this build')
        return
    schema.check_prefix_agrees(ctx, 'R-PREFIX')


def run(ctx):
    ctx.explanation = EXPL
    ctx.trusted = ['rustc nightly MIR construction', 'heed prefix iteration and range deletion']
    ctx.assumptions = ['keys compare bytewise in LMDB (no custom comparator): checked by C16 layout rule']
    r_index_key(ctx)
    r_index_arg(ctx)
    r_index_op(ctx)
    r_whole_db(ctx)
    r_prefix(ctx)
    # the index only confines an operation if it survives the key codec in both directions (cursor based writes decode the
    # key and put it back): C16's key layout clause
    from props import C16
    C16.r_key(ctx)
