"""C11 -- reported distances equal the metric's definition (structural clauses only)."""
import struct

import paths
import simd
from facts import strip, show, walk, short, const_eval
from rules import root, strip_all


EXPL = ("Numerical accuracy within rounding is a statement about values and is NOT decided. Decided structural clauses: "
        "(R-SIMD) for every #[target_feature] kernel of the spaces module (AVX x2, SSE x2 on this host): the paired loads of both "
        "inputs use identical offsets that tile [0, S) exactly with the lane width; pointer stride = counter step = modulus of "
        "`n - n % S`; every accumulator is updated from its own previous value with the squared difference (same `sub` value "
        "twice) / product of the lanes loaded at one offset from v1 and v2, and reaches the final horizontal sum exactly once; the "
        "tail loop runs n - m times from the advanced pointers over both inputs with one index. (R-SCALAR) the plain loops compute "
        "sum (u-v)*(u-v) / sum a*b over zip(u, v). (R-DISPATCH) each dispatcher hands (u, v) to kernels of its own kind and falls "
        "back to its own plain loop. (R-FEATURE) every call to a target-feature function is inside a function enabling the "
        "features or dominated by runtime detection of each of them. (R-FORM) Euclidean = sqrt of the kernel sum, Manhattan = "
        "sum |p-q| floored at 0, Cosine = (1 - clamp(pq/(|p||q|), -1, 1))/2 in [0,1] (interval evaluation) and 0 when the norm "
        "product is <= EPSILON, DotProduct reported = -(-p.q); each built_distance forwards (p.vector, q.vector) to a kernel that "
        "is symmetric by the pairing above. NOT analysed: simple_neon.rs (aarch64 only). NOT decided: rounding error, last-ulp "
        "agreement of SIMD and scalar sums.")


def f32_of_bits(b):
    return struct.unpack('<f', struct.pack('<I', b & 0xFFFFFFFF))[0]


def interval(t):
    """[lo, hi] of a float term built from constants, clamp, Sub, Div, Neg; None when unknown"""
    t0 = strip(t)
    if t0[0] == 'const' and isinstance(t0[2], int) and t0[1] == 'f32':
        v = f32_of_bits(t0[2])
        return (v, v)
    if t0[0] == 'call' and t0[1].endswith('f32>::clamp') and len(t0[2]) == 3:
        lo, hi = interval(t0[2][1]), interval(t0[2][2])
        if lo and hi:
            return (lo[0], hi[1])
    if t0[0] == 'binop' and t0[1] == 'Sub':
        a, b = interval(t0[2]), interval(t0[3])
        if a and b:
            return (a[0] - b[1], a[1] - b[0])
    if t0[0] == 'binop' and t0[1] == 'Div':
        a, b = interval(t0[2]), interval(t0[3])
        if a and b and b[0] == b[1] and b[0] > 0:
            return (a[0] / b[0], a[1] / b[0])
    if t0[0] == 'unop' and t0[1] == 'Neg':
        a = interval(t0[2])
        if a:
            return (-a[1], -a[0])
    return None


def vec_args(t, f):
    """are the two arguments `p.vector` and `q.vector` of the two leaf parameters (any order)"""
    if len(t[2]) != 2:
        return False
    a, b = strip(t[2][0]), strip(t[2][1])

    def leaf_param(x):
        while x[0] == 'call' and x[1].endswith('Deref::deref'):
            x = strip(x[2][0])
        if x[0] == 'field' and x[2] == 'vector' and strip(x[1])[0] == 'arg':
            return strip(x[1])[1]
        if x[0] == 'arg':
            return x[1]
        return None
    pa, pb = leaf_param(a), leaf_param(b)
    return pa is not None and pb is not None and pa != pb


def r_scalar(ctx, rule='R-SCALAR'):
    F = ctx.F
    for name, want in (('spaces::simple::euclidean_distance_non_optimized', 'sq'), ('spaces::simple::dot_product_non_optimized', 'mul')):
        f = F.fn(name)
        if not ctx.need(f is not None, rule, name):
            continue
        rets = paths.ret_assigns(f)
        t = strip(rets[0][2]) if rets else ('unknown',)
        good = t[0] == 'call' and t[1].endswith('Iterator::sum')
        zipc = [x for x in walk(t) if x[0] == 'call' and x[1].endswith('Iterator::zip')]
        good = good and bool(zipc) and {strip(root_arg(x)) [1] if strip(root_arg(x))[0] == 'arg' else None for x in zipc[0][2]} == {1, 2}
        clo = [x for x in walk(t) if x[0] == 'closure']
        okc = False
        if clo:
            g = F.fn(clo[0][1])
            if g is not None:
                for b, k, tt in paths.ret_assigns(g):
                    s = strip(tt)
                    if want == 'sq':
                        okc = s[0] == 'binop' and s[1] == 'Mul' and strip(s[2])[0] == 'binop' and strip(s[2])[1] == 'Sub' and strip_all(s[2]) == strip_all(s[3]) and _pair(strip(s[2]))
                    else:
                        okc = s[0] == 'binop' and s[1] == 'Mul' and _pair(s)
        ctx.check(good and okc, rule, name.split('::')[-1], f.loc(), 'sum over zip(u, v) of %s' % ('(u-v)*(u-v)' if want == 'sq' else 'a*b'),
                  '`%s` is not the plain sum over zip(u, v) of %s' % (name, '(u-v)*(u-v)' if want == 'sq' else 'a*b'))


def root_arg(t):
    t0 = strip(t)
    while t0[0] == 'call' and t0[2]:
        t0 = strip(t0[2][0])
    return t0


def _pair(s):
    """binop over the two components of the zipped pair"""
    a, b = strip(s[2]), strip(s[3])
    return a[0] == 'field' and b[0] == 'field' and {a[2], b[2]} == {'0', '1'} and strip_all(a[1]) == strip_all(b[1])


def r_dispatch(ctx, rule='R-DISPATCH'):
    F = ctx.F
    for name, kind in (('spaces::simple::euclidean_distance', 'euclid'), ('spaces::simple::dot_product', 'dot')):
        f = F.fn(name)
        if not ctx.need(f is not None, rule, name):
            continue
        n = 0
        for c in f.calls():
            g = F.fn(c.callee)
            if g is None or not g.path.startswith('spaces::'):
                continue
            n += 1
            is_e = any('sub_ps' in x.callee for x in g.calls()) or any(
                any(b[0] == 'binop' and b[1] == 'Sub' for b in walk(t)) for h in F.family(g) for _, _, t in paths.ret_assigns(h))
            a = [strip(c.arg_term(i)) for i in range(len(c.args))]
            okargs = len(a) == 2 and a[0][0] == 'arg' and a[1][0] == 'arg' and {a[0][1], a[1][1]} == {1, 2}
            ctx.check(okargs and is_e == (kind == 'euclid'), rule, '%s->%s' % (name.split('::')[-1], c.callee.split('::')[-1]), c.loc(),
                      'hands (u, v) to a %s kernel' % kind, '`%s` calls `%s` (a %s kernel) with %s' % (name, c.callee, 'squared-difference' if is_e else 'product', [show(x) for x in a]))
        ctx.floor(rule, 'kernel calls in ' + name.split('::')[-1], n, 3)
        # the fallback is reached whenever no vector path is taken: some return is the plain loop
        fb = [t for b, k, t in paths.ret_assigns(f) if k == 'call' and t[1].endswith('_non_optimized')]
        ctx.check(bool(fb), rule, name.split('::')[-1] + '/fallback', f.loc(), 'falls back to the plain loop', '`%s` has no plain-loop fallback' % name)


def r_forms(ctx, rule='R-FORM'):
    F = ctx.F

    def m(ty, meth):
        return F.fns.get('<%s as distance::Distance>::%s' % (ty, meth)) or F.fns.get('distance::Distance::' + meth)

    def one_ret(f):
        r = paths.ret_assigns(f)
        return [strip(t) for b, k, t in r]
    E, M, C, D = 'distance::euclidean::Euclidean', 'distance::manhattan::Manhattan', 'distance::cosine::Cosine', 'distance::dot_product::DotProduct'
    # Euclidean
    f = m(E, 'built_distance')
    t = one_ret(f)
    ctx.check(len(t) == 1 and t[0][0] == 'call' and t[0][1] == 'spaces::simple::euclidean_distance' and vec_args(t[0], f), rule, 'Euclidean/built', f.loc(),
              'squared distance = euclidean_distance(p.vector, q.vector)', 'Euclidean::built_distance is not euclidean_distance(p.vector, q.vector): %s' % [show(x)[:80] for x in t])
    f = m(E, 'normalized_distance')
    t = one_ret(f)
    ctx.check(len(t) == 1 and t[0][0] == 'call' and t[0][1].endswith('f32>::sqrt') and strip(t[0][2][0])[0] == 'arg', rule, 'Euclidean/normalized', f.loc(), 'sqrt(d)',
              'Euclidean::normalized_distance is not sqrt(d): %s' % [show(x)[:80] for x in t])
    # Manhattan
    f = m(M, 'built_distance')
    t = one_ret(f)
    good = len(t) == 1 and t[0][0] == 'call' and t[0][1].endswith('Iterator::sum')
    clo = [x for x in walk(t[0]) if x[0] == 'closure'] if t else []
    okc = False
    if clo:
        g = F.fn(clo[0][1])
        for b, k, tt in paths.ret_assigns(g) if g else []:
            s = strip(tt)
            okc = s[0] == 'call' and s[1].endswith('f32>::abs') and strip(s[2][0])[0] == 'binop' and strip(s[2][0])[1] == 'Sub' and _pair(strip(s[2][0]))
            if not okc and s[0] == 'call' and s[1].endswith('f32>::max') and len(s[2]) == 2:
                a, b = strip(s[2][0]), strip(s[2][1])
                okc = (a[0] == 'binop' and b[0] == 'binop' and a[1] == b[1] == 'Sub' and _pair(a) and _pair(b)
                       and strip_all(a[2]) == strip_all(b[3]) and strip_all(a[3]) == strip_all(b[2]))
    zipc = [x for x in walk(t[0]) if x[0] == 'call' and x[1].endswith('Iterator::zip')] if t else []
    okz = bool(zipc) and vec_args(('call', '', [root_arg_keep(zipc[0][2][0]), root_arg_keep(zipc[0][2][1])], 0), f)
    ctx.check(good and okc and okz, rule, 'Manhattan/built', f.loc(), 'sum |p_i - q_i| over zip(p.vector, q.vector)', 'Manhattan::built_distance is not the sum of |p_i - q_i|')
    f = m(M, 'normalized_distance')
    t = one_ret(f)
    ctx.check(len(t) == 1 and t[0][0] == 'call' and t[0][1].endswith('f32>::max') and strip(t[0][2][0])[0] == 'arg' and const_eval(t[0][2][1]) == 0, rule, 'Manhattan/normalized', f.loc(),
              'max(d, 0)', 'Manhattan::normalized_distance is not max(d, 0)')
    # DotProduct: built = -(p.q), reported = -built
    f = m(D, 'built_distance')
    t = one_ret(f)
    good = len(t) == 1 and t[0][0] == 'unop' and t[0][1] == 'Neg' and strip(t[0][2])[0] == 'call' and strip(t[0][2])[1] == 'spaces::simple::dot_product' and vec_args(strip(t[0][2]), f)
    ctx.check(good, rule, 'DotProduct/built', f.loc(), '-(p.vector . q.vector)', 'DotProduct::built_distance is not -(p.vector . q.vector): %s' % [show(x)[:80] for x in t])
    f = m(D, 'normalized_distance')
    t = one_ret(f)
    ctx.check(len(t) == 1 and t[0][0] == 'unop' and t[0][1] == 'Neg' and strip(t[0][2])[0] == 'arg', rule, 'DotProduct/normalized', f.loc(), '-d (the two negations compose to the inner product)',
              'DotProduct::normalized_distance is not -d')
    # Cosine
    f = m(C, 'built_distance')
    rets = paths.ret_assigns(f)
    good = False
    why = ''
    if len(rets) == 2:
        main = [strip(t) for b, k, t in rets if strip(t)[0] != 'const']
        zero = [strip(t) for b, k, t in rets if strip(t)[0] == 'const']
        if len(main) == 1 and len(zero) == 1 and const_eval(zero[0]) == 0:
            iv = interval(main[0])
            cl = [x for x in walk(main[0]) if x[0] == 'call' and x[1].endswith('f32>::clamp')]
            okshape = False
            if cl:
                q = strip(cl[0][2][0])
                if q[0] == 'binop' and q[1] == 'Div':
                    num, den = strip(q[2]), strip(q[3])
                    oknum = num[0] == 'call' and num[1] == 'spaces::simple::dot_product' and vec_args(num, f)
                    okden = den[0] == 'binop' and den[1] == 'Mul' and all(strip(x)[0] == 'field' and strip(x)[2] == 'norm' for x in (den[2], den[3])) and strip_all(den[2]) != strip_all(den[3])
                    # antitone in pq: the clamp is the subtrahend of `1 - ..`
                    outer = main[0]
                    okant = outer[0] == 'binop' and outer[1] == 'Div' and strip(outer[2])[0] == 'binop' and strip(outer[2])[1] == 'Sub' and strip(strip(outer[2])[3])[0] == 'call'
                    okshape = oknum and okden and okant
                    # guard: norm product > EPSILON selects the main branch
                    gd = False
                    for b, k, t in rets:
                        if strip(t)[0] != 'const':
                            for s, x, e in paths.controlling_conds(f, b):
                                if e[0] == 'bool' and e[2] and strip(e[1])[0] == 'binop' and strip(e[1])[1] == 'Gt' and strip_all(strip(e[1])[2]) == strip_all(den):
                                    eps = strip(strip(e[1])[3])
                                    gd = eps[0] == 'const' and 0 < f32_of_bits(eps[2]) < 1e-3 and paths.edge_dominates(f, s, x, b)
                    if not gd:
                        # early-return spelling: `if den.is_nan() || den <= EPSILON { return 0.0 }` -- the main branch lies on the
                        # false edges of both tests (NaN is excluded explicitly, as `den > EPSILON` excluded it implicitly)
                        for b, k, t in rets:
                            if strip(t)[0] == 'const':
                                continue
                            le_false = nan_false = False
                            for s, x, e in paths.controlling_conds(f, b):
                                if e[0] != 'bool' or e[2] or not paths.edge_dominates(f, s, x, b):
                                    continue
                                c0 = strip(e[1])
                                if c0[0] == 'binop' and c0[1] == 'Le' and strip_all(c0[2]) == strip_all(den):
                                    eps = strip(c0[3])
                                    le_false = eps[0] == 'const' and 0 < f32_of_bits(eps[2]) < 1e-3
                                if c0[0] == 'call' and c0[1].endswith('f32>::is_nan') and c0[2] and strip_all(c0[2][0]) == strip_all(den):
                                    nan_false = True
                            gd = le_false and nan_false
                    okshape = okshape and gd
            good = iv is not None and abs(iv[0]) < 1e-9 and abs(iv[1] - 1.0) < 1e-9 and okshape
            why = 'interval %s shape %s' % (iv, okshape)
    ctx.check(good, rule, 'Cosine/built', f.loc(), '(1 - clamp(p.q/(|p||q|), -1, 1))/2 in [0,1]; 0 when |p||q| <= EPSILON',
              'Cosine::built_distance is not (1 - clamp(p.q / (|p||q|), -1, 1)) / 2 guarded by |p||q| > EPSILON (%s)' % why)
    nh = m(C, 'new_header')
    t = one_ret(nh)
    okh = False
    if len(t) == 1 and t[0][0] == 'agg':
        nt = strip(dict(t[0][3]).get('norm', ('unknown',)))
        okh = nt[0] == 'call' and nt[1].endswith('norm_no_header') and strip(nt[2][0])[0] == 'arg'
    nn = m(C, 'norm_no_header')
    tn = one_ret(nn)
    okn = len(tn) == 1 and tn[0][0] == 'call' and tn[0][1].endswith('f32>::sqrt') and strip(tn[0][2][0])[0] == 'call' and strip(tn[0][2][0])[1] == 'spaces::simple::dot_product' \
        and strip_all(strip(tn[0][2][0])[2][0]) == strip_all(strip(tn[0][2][0])[2][1])
    ctx.check(okh and okn, rule, 'Cosine/norm', nh.loc(), 'header.norm = sqrt(v.v) of the stored vector', 'the Cosine header norm is not sqrt(v . v) of the vector itself')
    f = m(C, 'normalized_distance')
    t = one_ret(f)
    ctx.check(len(t) == 1 and t[0][0] == 'arg', rule, 'Cosine/normalized', f.loc(), 'identity', 'Cosine::normalized_distance is not the identity')


def root_arg_keep(t):
    """iter(&*deref(&p.vector)) -> p.vector term"""
    t0 = strip(t)
    while t0[0] == 'call' and t0[2] and t0[1].endswith(('::iter', 'Deref::deref')):
        t0 = strip(t0[2][0])
    return t0


def structural(ctx):
    """the structural clauses of C11, callable from the properties that assume it (C02, C03)"""
    F = ctx.F
    ks = [k for k in simd.kernels(F) if any('loadu_ps' in c.callee for c in k.calls())]
    ctx.floor('R-SIMD', 'vector kernels', len(ks), 4)
    for k in ks:
        simd.analyse_kernel(ctx, k)
    r_scalar(ctx)
    r_dispatch(ctx)
    r_forms(ctx)
    # the distances a caller sees are the kernels' values only if the stored operands are what the metric expects and the
    # results are not edited on the way out: metric-change re-encoding (C18 rules, incl. truncation to the declared dimension)
    # and the result-untouched rule of the query entry points
    from props import C18
    import reader_rules as rr
    C18.rules(ctx)
    rr.r_result_untouched(ctx)
    # ... and the header the kernels read (norm) is the one derived from the stored vector by both item entry points
    from props import C19
    C19.r_stored_leaf(ctx)


def run(ctx):
    ctx.explanation = EXPL
    ctx.trusted = ['rustc nightly MIR construction', 'core::arch intrinsics semantics (loadu/sub/mul/fmadd/add, hsum helper)', 'std_detect feature detection']
    ctx.assumptions = ['x86_64 host']
    ctx.not_analysed = ['src/spaces/simple_neon.rs (aarch64 only, not compiled on this host)']
    F = ctx.F
    ks = simd.kernels(F)
    ks = [k for k in ks if any('loadu_ps' in c.callee for c in k.calls())]
    ctx.floor('R-SIMD', 'vector kernels', len(ks), 4)
    for k in ks:
        simd.analyse_kernel(ctx, k)
    simd.r_feature(ctx)
    r_scalar(ctx)
    r_dispatch(ctx)
    r_forms(ctx)
    from props import C18
    import reader_rules as rr
    C18.rules(ctx)
    rr.r_result_untouched(ctx)
    from props import C19
    C19.r_stored_leaf(ctx)
