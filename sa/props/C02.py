"""C02 -- unlimited-budget search returns the exact nearest neighbours."""
import reader_rules as rr

EXPL = ("Given C01 (every tree covers every live item) and C11 (distance values), exactness with an unlimited budget "
        "reduces to the shape of the one traversal function, decided on its MIR: (S1) the loop's only exits are budget "
        "reached, queue empty and errors -- with the budget saturated at usize::MAX only queue exhaustion ends it, so every "
        "node reachable from every root is visited; (S6) all roots are seeded; (S2) the split arm pushes both children on "
        "every path (no pruning); (S3) a bucket contributes all its ids, a single-item child its own id; (S7) candidates are "
        "sorted and deduplicated (each once); (S8) every candidate is scored with D::built_distance against the leaf fetched "
        "under Key::item(self.index, id) in the caller's transaction (never a stale or deleted vector); (S9) results are popped "
        "nearest-first from a BinaryHeap<Reverse<(OrderedFloat<f32>, id)>>, exactly min(count, candidates) of them, each with "
        "D::normalized_distance of its own entry; (S12) an empty index answers empty; (S10) the budget arithmetic saturates. "
        "The premise C01 is not assumed silently: all of C01's structural clauses (kinds, pairing, relinking, fresh ids, bucket rewrites, batch selector, ...) are re-evaluated by this check as well. NOT decided: numerical truth of the distance (C11); the global forest invariant beyond C01's clauses.")


def run(ctx):
    ctx.explanation = EXPL
    ctx.trusted = ['rustc nightly MIR construction', 'std BinaryHeap / ordered_float total order']
    ctx.assumptions = ['C01 (forest covers the live items)', 'C11 (distance values)']
    F = ctx.F
    tvs = rr.traversal(F)
    if not ctx.need(len(tvs) >= 1, 'S1-LOOP', 'traversal function (Reader method calling D::pq_distance)'):
        return
    for f in tvs:
        tv = rr.Trav(ctx, f)
        if not ctx.need(tv.pop is not None and tv.dedup is not None, 'S1-LOOP', 'queue.pop() and candidates.dedup() in ' + f.path):
            continue
        budget = rr.r_loop(ctx, tv)
        rr.r_budget(ctx, tv, budget)
        rr.r_split_arm(ctx, tv)
        rr.r_seed_roots(ctx, tv)
        rr.r_scoring(ctx, tv)
    rr.r_entry_points(ctx)
    # premise C01 ("no stored item is ever unreachable"): its structural clauses are re-checked here
    from props import C01, C11
    import premises
    premises.forest(ctx)
    # "no stored item is ever unreachable by search" needs a forest with at least one tree: C15's tree-count clauses
    import forest_rules as fr
    fr.r_tree_count(ctx)
    # premise C11 ("each with its true distance"): its structural clauses are re-checked as well
    C11.structural(ctx)
    # a metric change is one of the histories: the re-encoded leaf (header of the new metric over the entry's own vector at
    # the declared dimension) is what distances are computed from afterwards
    from props import C18
    C18.rules(ctx)
    import rules as _rules
    ctx.floor('R-SETTER', 'option setters', _rules.r_setters(ctx, ('reader::QueryBuilder',)), 3)
