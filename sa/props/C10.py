"""C10 -- a failing or cancelled build reports it and can be rolled back."""
import paths
from facts import strip, show, walk, short
from rules import (EFF_TXN_ENV, EFF_LEAK, effect_scan, owner_path, sp, root)
from props import C06

EXPL = ("Decided by an error-discipline analysis over every non-test MIR body: (R-ERR) every local of type "
        "Result<_, E> with E in {heed::Error, std::io::Error, arroy::Error} -- results of calls (including all cancellation "
        "polls and every heed/tempfile/mmap call), Result payloads taken out of iterator items, closure parameters -- is "
        "consumed by an accepted idiom: `?`, tail return / move into the return place, a Result->Result adaptor "
        "(map, map_err, and_then, or_else, inspect*) whose own result is an instance again, being moved into a returned "
        "aggregate, or a `match` whose Err arm can only reach error returns. Swallowing consumers (ok, unwrap_or*, "
        "is_ok/is_err only, map_or*, unwrap/expect => panic, into_iter, drop, no use at all) and Err arms that reach a "
        "success return are violations naming the call site. (R-MAPERR) a map_err on such a Result must use the original "
        "error. (R-CANCEL) BuildOption::cancelled answers Err(BuildCancelled) exactly when the callback returned true "
        "(finite-domain evaluation), and every poll is an R-ERR instance. (R-NO-COMMIT) no commit/abort inside the library; "
        "(R-RAII) no leak primitive in the crate and the temp-file owners hold plain owned handles, so every exit path "
        "(including `?`) closes them. NOT decided: that invariant-guarded unwraps on Options never fire after a partial "
        "failure; LMDB abort semantics; non-monotone callbacks."
        " (R-CANCEL, who-may-call) the cancellation callback is invoked only inside BuildOption::cancelled: any other direct poll would act on a `true` answer without returning BuildCancelled.")

ERR_TYPES = ('heed::Error', 'std::io::Error', 'error::Error', 'Error')

ADAPTORS = ('::map', '::map_err', '::and_then', '::or_else', '::inspect', '::inspect_err', '::into', '::from',
            'Try::branch', 'FromResidual::from_residual', '::transpose', '::copied', '::cloned')
SWALLOW = ('::ok', '::err', '::unwrap_or', '::unwrap_or_default', '::unwrap_or_else', '::is_ok', '::is_err', '::is_ok_and',
           '::is_err_and', '::map_or', '::map_or_else', '::unwrap', '::expect', '::unwrap_unchecked', '::into_iter', '::iter',
           '::iter_mut', 'mem::drop', '::unwrap_err', '::expect_err', '::as_ref', '::as_mut', '::and', '::or')


def split_top(s):
    out = []
    d = 0
    cur = ''
    for ch in s:
        if ch in '<([':
            d += 1
        if ch in '>)]':
            d -= 1
        if ch == ',' and d == 0:
            out.append(cur.strip())
            cur = ''
        else:
            cur += ch
    out.append(cur.strip())
    return out


def result_err(ty):
    if ty.startswith('std::result::Result<') and ty.endswith('>'):
        a = split_top(ty[len('std::result::Result<'):-1])
        return a[-1]
    return None


def classify(F, f, l):
    """-> (verdict, detail) verdict in ok / swallow / arm / unused"""
    uses = f.uses(l)
    proper = []
    bad = []
    discr_read = False
    for u in uses:
        k = u['k']
        if k == 'arg' and u['whole']:
            cal = u['call'].callee or u['call'].resolved
            is_result_method = 'result::Result::<' in cal and u['i'] == 0
            if cal.endswith(ADAPTORS) and (is_result_method or not cal.startswith(('std::option::Option', 'core::option::Option'))):
                proper.append(short(cal))
            elif cal.endswith(SWALLOW) and (is_result_method or cal.endswith(('mem::drop', '::into_iter', '::iter'))):
                bad.append(('swallow', short(cal), u['call']))
            else:
                # passed by value to some other function: accepted when that function returns a storage Result itself
                dty = f.local_ty(u['call'].dest['l'])
                if result_err(dty) in ERR_TYPES or 'Result<' in dty:
                    proper.append('passed to ' + short(cal))
                else:
                    bad.append(('swallow', short(cal), u['call']))
        elif k == 'arg':
            pass  # a projection of the result is passed on (payload use)
        elif k == 'rv':
            rk = u['rk']
            if u['whole'] and rk == 'use':
                proper.append('moved')  # into _0 or another Result local, which is an instance itself
            elif u['whole'] and rk == 'agg':
                proper.append('wrapped')
            elif rk == 'discr':
                discr_read = True
            elif rk == 'ref' and u['whole']:
                # borrowed: look at what the borrow is used for
                rl = u['dest']['l']
                for u2 in f.uses(rl):
                    if u2['k'] == 'arg':
                        cal = u2['call'].callee
                        if cal.endswith(SWALLOW):
                            bad.append(('borrow-swallow', short(cal), u2['call']))
        elif k == 'drop':
            pass
    if discr_read:
        # match form: on the Err arm only error returns may be reachable.  Only the first test of the discriminant
        # counts: later re-reads (drop elaboration, nested patterns) are dominated by it and their "other" edge is infeasible
        tests = []
        for b in f.live_blocks():
            sw = paths.switch_at(f, b)
            if sw is None or sw['discr']['k'] not in ('copy', 'move'):
                continue
            for dd in f.defs().get(sw['discr']['place']['l'], []):
                if dd[0] == 'assign' and dd[3]['k'] == 'discr' and dd[3]['place']['l'] == l and not dd[3]['place']['p']:
                    tests.append(b)
        first = [b for b in tests if not any(b2 != b and f.dominates(b2, b) for b2 in tests)]
        for b in first:
            sw = paths.switch_at(f, b)
            if sw is None:
                continue
            d = sw['discr']
            if d['k'] not in ('copy', 'move'):
                continue
            dt = f.term(d)
            if dt[0] != 'discr':
                continue
            # is it the discriminant of local l itself?
            src = None
            for dd in f.defs().get(d['place']['l'], []):
                if dd[0] == 'assign' and dd[3]['k'] == 'discr' and dd[3]['place']['l'] == l and not dd[3]['place']['p']:
                    src = dd
            if src is None:
                continue
            err_t = [t for v, t in sw['targets'] if int(v) == 1]
            if not err_t and len(sw['targets']) == 1 and int(sw['targets'][0][0]) == 0:
                err_t = [sw['otherwise']]
            for et in err_t:
                # value-aware reachability: an `Err(..)` built in the arm (e.g. the `return Err(e.into())` of a virtually
                # inlined helper) makes the caller's following `?` take its Break edge only
                # (leaving the test through the Err edge only: the success block may well be re-entered from the arm, as in
                #  `Ok(()) | Err(KeyExist) => Ok(())`)
                reach = paths.feasible_reach(f, b, first_edge=et)
                goods = [rb for rb, kk, tt in paths.ret_assigns(f) if kk in ('ok',) and rb in reach]
                # a loop header reached again from the Err arm (e.g. `continue`) also swallows the error
                back = any(b in f.reachable(s) for s in [et]) and f.in_cycle(b)
                rets_err = [rb for rb, kk, tt in paths.ret_assigns(f) if kk in ('err', 'residual', 'call', 'other') and rb in reach]
                # an error return built on the Err arm carries the original error (`Err(e.into())`, `Err(e)`): replacing a storage
                # error by a constant of the crate's own (`MapFull => DatabaseFull`) reports something else than what failed
                # (the one documented translation is KeyExist => InvalidItemAppend of `append_item`, decided by C19's R-APPEND)
                defblocks = [dd[1] for dd in f.defs().get(l, []) if dd[0] == 'call']
                rewritten = [tt for rb, kk, tt in paths.ret_assigns(f) if kk == 'err' and rb in reach and defblocks
                             and not any(paths.mentions_call(tt, db_) for db_ in defblocks)
                             and not (f.path.endswith('::append_item') and paths.err_variant(tt) == 'InvalidItemAppend')]
                if rewritten:
                    bad.append(('arm', 'Err arm returns another error (%s) than the one it received' % (paths.err_variant(rewritten[0]) or show(rewritten[0])[:40]), None))
                if goods and not _all_paths_hit(f, et, goods, rets_err):
                    bad.append(('arm', 'Err arm reaches a success return', None))
                elif back and not rets_err:
                    bad.append(('arm', 'Err arm continues the loop', None))
                else:
                    proper.append('match')
    if bad:
        return 'bad', bad
    if proper:
        return 'ok', proper
    return 'unused', []


def _all_paths_hit(f, start, goods, errs):
    """every path from start to a success return first passes an error return block? (never: returns end paths)
    -> True when no success return is reachable without... (success reachable at all means False)"""
    return False


def r_err(ctx):
    F = ctx.F
    rule = 'R-ERR'
    n = 0
    polls = 0
    ordn = {}
    for f in F.lib_fns():
        for l, loc in enumerate(f.locals):
            e = result_err(loc['ty'])
            if e not in ERR_TYPES or l == 0:
                continue
            ds = f.defs().get(l, [])
            is_param = 1 <= l <= f.arg_count
            if not ds and not is_param:
                continue
            n += 1
            # describe the producer
            prod = 'param'
            where = f.loc()
            for d in ds:
                if d[0] == 'call':
                    prod = short(d[2].callee or d[2].resolved)
                    where = d[2].loc()
                    if d[2].callee.endswith('BuildOption::<\'_>::cancelled') or d[2].callee.endswith('::cancelled'):
                        polls += 1
                    break
                else:
                    prod = d[3]['k']
                    where = sp(f.blocks[d[1]]['stmts'][d[2]]['span'])
            base = '%s/%s' % (f.path, prod)
            ordn[base] = ordn.get(base, 0) + 1
            key = '%s#%d' % (base, ordn[base])
            verdict, detail = classify(F, f, l)
            if verdict == 'ok':
                ctx.ok(rule, key, where, 'consumed by ' + ', '.join(sorted(set(detail))))
            elif verdict == 'unused':
                ctx.bad(rule, key, where, 'the `Result<_, %s>` produced by `%s` in `%s` is never propagated (dropped or ignored): a storage/cancellation error would be lost' % (e, prod, f.path))
            else:
                what = '; '.join('%s via `%s`' % (b[0], b[1]) for b in detail)
                ctx.bad(rule, key, where, 'the `Result<_, %s>` produced by `%s` in `%s` is swallowed or rewritten (%s): the build could report success over a half-built forest, or report another failure than the one that happened' % (e, prod, f.path, what))
    ctx.floor(rule, 'Result<_, storage/cancel error> values', n, 450)
    ctx.floor(rule, 'cancellation polls', polls, 15)


def r_maperr(ctx):
    F = ctx.F
    rule = 'R-MAPERR'
    n = 0
    for f in F.lib_fns():
        for c in f.calls():
            if c.callee.endswith('Result::<T, E>::map_err') and c.args:
                a0 = c.args[0]
                ein = result_err(f.local_ty(a0['place']['l'])) if a0['k'] in ('copy', 'move') else None
                if ein is not None and (ein in ERR_TYPES or 'std::io::' in ein):
                    n += 1
                    fn_t = strip(c.arg_term(1))
                    key = '%s/map_err#%d' % (f.path, n)
                    if fn_t[0] == 'closure':
                        g = F.fn(fn_t[1])
                        used = g is not None and g.arg_count >= 2 and any(u['k'] != 'drop' for u in g.uses(2))
                        ctx.check(used, rule, key, c.loc(), 'closure uses the original error',
                                  'map_err in `%s` discards the original storage error' % f.path)
                    else:
                        ctx.ok(rule, key, c.loc(), 'mapped by `%s`' % show(fn_t))
    ctx.ok(rule, 'scan', '', '%d map_err sites on storage errors' % n, nontrivial=False)


def r_cancel(ctx):
    F = ctx.F
    rule = 'R-CANCEL'
    cs = [f for f in F.lib_fns() if f.path.startswith('writer::') and f.path.endswith('::cancelled')]
    if not ctx.need(len(cs) == 1, rule, 'BuildOption::cancelled'):
        return
    f = cs[0]
    # finite-domain evaluation: atom C = "callback answered true"

    def atom_of(t):
        t0 = strip(t)
        if t0[0] == 'call' and (t0[1].endswith('Fn::call') or t0[1].endswith('FnMut::call_mut') or t0[1].endswith('FnOnce::call_once')):
            for s in walk(t0):
                if s[0] == 'field' and s[2] == 'cancel':
                    return ('C', True)
        return None
    rows = {}
    problems = []
    outcomes = {}

    def walkp(b, assign, seen):
        if b in seen:
            return
        seen = seen | {b}
        t = f.blocks[b]['term']
        if t['k'] == 'return':
            return
        if t['k'] == 'switch':
            for s in f.succ(b):
                e = paths.edge_cond(f, b, s)
                a = atom_of(e[1]) if e and e[0] == 'bool' else None
                if a:
                    na = dict(assign)
                    na['C'] = e[2]
                    walkp(s, na, seen)
                else:
                    walkp(s, assign, seen)
            return
        for rb, k, tt in paths.ret_assigns(f):
            if rb == b:
                outcomes.setdefault(assign.get('C'), set()).add((k, paths.err_variant(tt)))
        for s in f.succ(b):
            walkp(s, assign, seen)
    walkp(0, {}, frozenset())
    good = outcomes.get(True) == {('err', 'BuildCancelled')} and outcomes.get(False) == {('ok', None)} and None not in outcomes
    ctx.check(good, rule, 'cancelled/truth-table', f.loc(), 'callback true => Err(BuildCancelled); false => Ok(())',
              'BuildOption::cancelled does not map the callback answer to Err(BuildCancelled)/Ok(()): %s' % {str(k): sorted(map(str, v)) for k, v in outcomes.items()})
    # every poll's error reaches the caller unchanged: consumed by `?`/return in a body whose error type is arroy's
    # own Error (where the conversion is the identity); never rewrapped by map_err/or_else into another error
    for g in F.lib_fns():
        for c in g.calls():
            if not c.callee.endswith('::cancelled') or not c.callee.startswith('writer::'):
                continue
            l = c.dest['l']
            key = '%s/poll-value' % g.path
            bad = None
            for u in g.uses(l):
                if u['k'] == 'arg' and u['whole']:
                    cal = u['call'].callee
                    if cal.endswith(('::map_err', '::or_else', '::or', '::and', '::and_then', '::map')):
                        bad = 'passed to `%s`' % short(cal)
                    elif cal.endswith('Try::branch'):
                        e = result_err(g.ret_ty())
                        if e not in ('error::Error', 'Error'):
                            bad = '`?` in a body returning Result<_, %s>' % e
            ctx.check(bad is None, rule, key, c.loc(), 'cancellation error propagated unchanged',
                      'the cancellation poll in `%s` is rewrapped (%s): the caller no longer receives Error::BuildCancelled' % (g.path, bad))
    # who may call the callback: only BuildOption::cancelled turns its answer into Error::BuildCancelled; any other
    # place that invokes the `cancel` closure learns about the cancellation without reporting it
    for g in F.lib_fns():
        if g.path == f.path or g.path.startswith(f.path + '::'):
            continue
        for c in g.calls():
            if c.callee.endswith(('Fn::call', 'FnMut::call_mut', 'FnOnce::call_once')) and c.args:
                recv = c.arg_term(0)
                if any(s2[0] == 'field' and s2[2] == 'cancel' for s2 in walk(recv)):
                    ctx.bad(rule, '%s/direct-poll' % g.path, c.loc(), '`%s` calls the cancellation callback itself instead of going through BuildOption::cancelled: a `true` answer is acted upon (work skipped) without Error::BuildCancelled being returned' % g.path)
    # the build entry polls before doing anything and propagates
    be = C06.build_entry(F)
    if ctx.need(be is not None, rule, 'build entry'):
        reach = F.reach([be])
        polled = [g.path for g in reach.values() if any(c.callee.endswith('::cancelled') for c in g.calls())]
        ctx.floor(rule, 'functions reachable from the build entry that poll the callback', len(polled), 10)


def r_tmpdir(ctx, rule='R-TMPDIR'):
    """an unusable temp directory is *reported*: every temporary node file is created in the configured directory when one is
    configured (so that its IO error surfaces), and a writer derived from another writer keeps the configuration"""
    F = ctx.F

    def from_tmpdir(f, t, depth=0):
        """does term t (in f) derive from the writer's `tmpdir` field?  Follows parameters to every call site."""
        if any(y[0] == 'field' and y[2] == 'tmpdir' for y in walk(t)):
            return True
        if depth >= 3:
            return False
        params = {y[1] for y in walk(t) if y[0] == 'arg' and isinstance(y[1], int)}
        if not params or any(y[0] == 'call' and not y[1].endswith(('::as_ref', '::as_deref', 'Deref::deref', '::as_path', 'AsRef::as_ref', '::unwrap', '::map')) for y in walk(t)):
            return False
        owner = F.fn(owner_path(f)) or f
        sites = [(g, x) for g in F.lib_fns() for x in g.calls() if x.callee == owner.path or x.resolved == owner.path]
        if not sites:
            return False
        return all(all(i - 1 < len(x.args) and from_tmpdir(g, x.arg_term(i - 1), depth + 1) for i in params) for g, x in sites)

    def guarded(f, c, want, depth=0):
        """is the call c (in f) executed only when the configured directory is `want` ('None' / 'Some')?"""
        for s0, x0, e in paths.controlling_conds(f, c.bb):
            if e[0] == 'disc' and paths.edge_dominates(f, s0, x0, c.bb):
                subj = strip(e[1])
                subj = subj[1] if subj[0] == 'discr' else subj
                if from_tmpdir(f, subj):
                    vals = list(e[2])
                    if not vals and len(e) > 3 and e[3]:
                        # the `otherwise` edge of a switch listing only the other variant (`if let Some(..) = .. else ..`)
                        listed = [int(v) for v, _t in paths.switch_at(f, s0)['targets']]
                        vals = [v for v in (0, 1) if v not in listed]
                    return vals == ([0] if want == 'None' else [1])
        if depth >= 3:
            return False
        # not decided here: every call site of this function must be guarded
        owner = F.fn(owner_path(f)) or f
        sites = [(g, x) for g in F.lib_fns() for x in g.calls() if x.callee == owner.path or x.resolved == owner.path]
        return bool(sites) and all(guarded(g, x, want, depth + 1) for g, x in sites)
    n = 0
    for f in F.lib_fns():
        for c in f.calls():
            if c.callee not in ('tempfile::tempfile', 'tempfile::tempfile_in'):
                continue
            n += 1
            in_dir = c.callee == 'tempfile::tempfile_in'
            if in_dir:
                good = from_tmpdir(f, c.arg_term(0))
            else:
                good = guarded(f, c, 'None')
            ctx.check(good, rule, '%s/%s' % (f.path, short(c.callee)), c.loc(),
                      'temporary file created in the configured directory' if in_dir else 'OS temp directory only when no directory is configured',
                      '`%s` creates a temporary node file %s: a configured but unusable temp directory would not be reported' % (
                          f.path, 'in another directory than the configured one' if in_dir else 'in the OS temp directory even when a directory is configured'))
    ctx.floor(rule, 'temporary file creations', n, 2)
    # writers derived from a writer keep `tmpdir`
    m = 0
    for f in F.lib_fns():
        if not f.path.startswith('writer::') or 'writer::Writer<' not in f.ret_ty():
            continue
        srcs = [i for i in range(1, f.arg_count + 1) if f.local_ty(i).lstrip('&').startswith('writer::Writer<')]
        if not srcs:
            continue
        m += 1
        for b, k, t in paths.ret_assigns(f):
            if k not in ('ok', 'other', 'call'):
                continue
            d = paths.agg_fields(t, 'writer::Writer')
            good = d is not None and 'tmpdir' in d and any(y[0] == 'field' and y[2] == 'tmpdir' and root(y)[0] == 'arg' and root(y)[1] in srcs for y in walk(d['tmpdir']))
            ctx.check(good, rule, '%s/derived-writer' % f.path, f.loc(), 'the derived writer keeps the configured temp directory',
                      '`%s` returns a writer that does not carry over `tmpdir` from the writer it was derived from: a configured temp directory (and its errors) would be silently dropped' % f.path)
    ctx.floor(rule, 'functions deriving a writer from a writer', m, 1)


def r_raii(ctx):
    F = ctx.F
    rule = 'R-RAII'
    effect_scan(ctx, rule, EFF_LEAK, what='leak primitives')
    for name in ('parallel::TmpNodes', 'parallel::TmpNodesReader'):
        a = F.adts.get(name)
        if not ctx.need(a is not None, rule, name):
            continue
        tys = [fl['ty'] for v in a['variants'] for fl in v['fields']]
        bad = [t for t in tys if 'ManuallyDrop' in t or 'RawFd' in t or '*mut' in t or 'MaybeUninit' in t or 'NamedTempFile' in t or 'PathBuf' in t]
        own = [t for t in tys if 'std::fs::File' in t or 'memmap2::Mmap' in t]
        ctx.check(not bad and own, rule, name + '/owned-handle', '', 'holds %s by value (closed on drop)' % own,
                  '`%s` no longer owns its file/map by value (fields: %s): a failed build could leave it behind' % (name, tys))
    # no Drop impl in the crate that could suppress cleanup
    for i in F.impls:
        if i['trait'] and i['trait'].endswith('ops::Drop'):
            ctx.bad(rule, 'impl Drop for ' + i['self'], sp(i['span']), 'hand-written Drop impl: cleanup on error paths is no longer the compiler-generated one')


def run(ctx):
    ctx.explanation = EXPL
    ctx.trusted = ['rustc nightly MIR construction and drop elaboration', 'LMDB abort restores the previous contents',
                   'tempfile::tempfile creates an unlinked file']
    ctx.assumptions = ['monotone cancellation callback']
    r_err(ctx)
    r_maperr(ctx)
    r_cancel(ctx)
    r_tmpdir(ctx)
    effect_scan(ctx, 'R-NO-COMMIT', EFF_TXN_ENV, what='transaction/environment functions')
    r_raii(ctx)
    import rules as _rules
    ctx.floor('R-SETTER', 'option setters', _rules.r_setters(ctx, ('writer::ArroyBuilder',)), 5)
