"""C18 -- changing the metric keeps the items and forces a rebuild."""
import paths
import vec_rules
from facts import strip, show, walk
from rules import db_ops, cursor_ops, key_info, same, root, heed_db_call, loop_every_iteration, cursor_root_call, sp
from props import C06, C07

EXPL = ("Decided on the MIR of Writer::prepare_changing_distance and its helpers: (R-NOOP) every database write is "
        "edge-dominated by the `TypeId::of::<ND>() != TypeId::of::<D>()` edge (same metric => no effect); on that edge, on "
        "every path to a success return: (R-META-DEL) Key::metadata(index) is deleted unconditionally, (R-FOREST-DEL) a "
        "cursor over Prefix::tree(index) deletes every entry, (R-REENCODE) a cursor over Prefix::item(self.index) rewrites "
        "every entry in place, on every iteration, with Leaf{header: ND::new_header(&v), vector: v}, v re-encoded from that "
        "entry's own vector truncated to the declared dimension (R-TRUNC); no item is deleted; the returned writer keeps "
        "index/dimensions; (R-INDEX) all keys carry the writer's own index (C07 rules); (R-OPEN) Reader::open refuses a "
        "metric name different from the stored one and the seven names are distinct (C06 rules). NOT decided: validity and "
        "searchability after the rebuild beyond C01/C02's clauses.")


def r_reencode_value(ctx, fam=None):
    """value written by the metric change: Leaf{header: ND::new_header(&v), vector: v} with v from the entry's own truncated to_vec"""
    F = ctx.F
    if fam is None:
        f = F.one('writer::Writer::<D>::prepare_changing_distance')
        if not ctx.need(f is not None, 'R-REENCODE', 'Writer::prepare_changing_distance'):
            return
        fam = F.reach([f])
    for g in fam.values():
        for (_g, c, op) in cursor_ops(F, [g]):
            if op in ('put_current', 'put_current_with_options') and g.path.startswith('writer::'):
                val = c.arg_term(len(c.args) - 1)
                leaf = paths.agg_fields(val, 'node::Leaf')
                good = False
                why = show(val)[:120]
                if leaf:
                    h = strip(leaf['header'])
                    v = strip(leaf['vector'])
                    hc = g.call_at(h[3]) if h[0] == 'call' else None
                    good = (h[0] == 'call' and h[1].endswith('Distance::new_header') and hc is not None and hc.gnames[:1] == ['ND']
                            and same(h[2][0], leaf['vector'])
                            and v[0] == 'call' and v[1].endswith('::from_vec')
                            and any(s[0] == 'call' and s[1].endswith('UnalignedVector::<Codec>::to_vec') for s in walk(v))
                            and any(s[0] == 'call' and s[1].endswith('Iterator::next') for s in walk(v)))
                    kt = c.arg_term(len(c.args) - 2)
                    good = good and any(s[0] == 'call' and s[1].endswith('Iterator::next') for s in walk(kt))
                    enc = g.call_at(c.bb)
                    good = good and 'NodeCodec<ND>' in (' '.join(enc.gnames) + enc.resolved)
                ctx.check(good, 'R-REENCODE', g.path + '/leaf-value', c.loc(), 'Leaf{header: ND::new_header(&v), vector: v} of the entry itself, encoded with NodeCodec<ND>',
                          'the re-encoded leaf is not built from the entry\'s own vector with the new metric\'s header/codec (%s)' % why)


def run(ctx):
    ctx.explanation = EXPL
    ctx.trusted = ['rustc nightly MIR construction', 'heed cursor put_current/del_current semantics', 'TypeId equality is type equality']
    rules(ctx)


def rules(ctx):
    """the structural clauses of C18 (re-evaluated by properties whose histories include a metric change)"""
    if getattr(ctx, '_c18_done', None) is ctx.F:
        return
    ctx._c18_done = ctx.F
    F = ctx.F
    f = F.one('writer::Writer::<D>::prepare_changing_distance')
    if not ctx.need(f is not None, 'R-NOOP', 'Writer::prepare_changing_distance'):
        return
    # the metric comparison
    gate = None
    for b in f.live_blocks():
        if paths.switch_at(f, b) is None:
            continue
        for x in f.succ(b):
            e = paths.edge_cond(f, b, x)
            if e and e[0] == 'bool':
                c = strip(e[1])
                if c[0] == 'call' and c[1].endswith(('PartialEq::ne', 'PartialEq::eq')) and all(
                        any(s[0] == 'call' and s[1].endswith('TypeId::of') for s in walk(a)) for a in c[2]):
                    tys = []
                    for a in c[2]:
                        for s in walk(a):
                            if s[0] == 'call' and s[1].endswith('TypeId::of'):
                                tys.append(','.join(f.call_at(s[3]).gnames))
                    differ = e[2] if c[1].endswith('::ne') else (not e[2])
                    if differ and sorted(tys) == ['D', 'ND']:
                        gate = (b, x)
    if not ctx.need(gate is not None, 'R-NOOP', 'TypeId::of::<ND>() != TypeId::of::<D>() test', f.loc()):
        return
    sw, changed = gate
    fam = F.reach([f])
    # R-NOOP: all writes in f (direct or via callees) are edge-dominated by the changed edge
    n = 0
    from props.C19 import effect_blocks
    for b, c, what in effect_blocks(F, f, True):
        n += 1
        ctx.check(paths.edge_dominates(f, sw, changed, b), 'R-NOOP', 'same-metric-no-effect/%s#%d' % (what.split('::<')[0].split('::')[-1], n), c.loc(),
                  'write only when the metric really changes', 'prepare_changing_distance writes (`%s`) even when asked for the same metric' % what)
    ctx.floor('R-NOOP', 'write sites of the metric change', n, 3)
    goals = [b for b, k, t in paths.ret_assigns(f) if k in ('ok', 'call', 'other')]

    # helper predicates on any function of the family
    def meta_delete_pred(g, b):
        c = g.call_at(b)
        if c is None:
            return False
        h = heed_db_call(c)
        if h and h[0] == 'delete' and h[2] is not None:
            ki = key_info(c.arg_term(h[2]))
            return bool(ki and ki[0] == 'metadata')
        return False

    def loop_pred(kind, op_names):
        def pred(g, b):
            for rc, ki, nx, dels in C06.scan_loops(F, g, kind):
                if nx.bb != b:
                    continue
                ops = [d for (_g, d, op) in cursor_ops(F, [g]) if op in op_names and cursor_root_call(g, d.arg_term(0)) == rc]
                if ops and any(loop_every_iteration(g, nx, d.bb) for d in ops):
                    return True
            return False
        return pred

    def from_changed(pred, what, rule, msg):
        # every path from the changed edge to a success return passes a block satisfying pred (directly or in a callee that always does)
        memo = {}
        through = set()
        for b in f.live_blocks():
            if pred(f, b):
                through.add(b)
            c = f.call_at(b)
            if c is not None:
                for g in F.resolve_call(c):
                    if g.path != f.path and C06.always_passes(F, g, pred, memo, 1):
                        through.add(b)
        good = paths.must_pass(f, changed, goals, through) and bool(through)
        ctx.check(good, rule, what, f.loc(), what, msg)
    from_changed(meta_delete_pred, 'metadata deleted on every path of a real metric change', 'R-META-DEL',
                 'after changing the metric the old metadata can survive (e.g. for an index without tree nodes): the index would still open under the old metric and not demand a build')
    from_changed(loop_pred('p-tree', ('del_current',)), 'every tree node of the index deleted', 'R-FOREST-DEL',
                 'changing the metric does not delete every tree node of the old forest')
    from_changed(loop_pred('p-item', ('put_current', 'put_current_with_options')), 'every item re-encoded in place', 'R-REENCODE',
                 'changing the metric skips re-encoding (some) items: their headers/vectors keep the old metric\'s representation')
    r_reencode_value(ctx, fam)
    # no item deleted, nothing else written
    for g in fam.values():
        if not g.path.startswith('writer::'):
            continue
        for (_g, c, op, w, k) in db_ops(F, [g]):
            if w and op not in ('prefix_iter_mut',) and k is not None:
                ki = key_info(c.arg_term(k))
                ctx.check(ki is not None and ki[0] == 'metadata' and op == 'delete', 'R-KEEP-ITEMS', '%s/%s' % (g.path, op), c.loc(),
                          'the only keyed write is the metadata delete', 'the metric change performs `%s` on %s' % (op, show(c.arg_term(k))))
    # returned writer keeps index/dimensions
    for b, k, t in paths.ret_assigns(f):
        if k == 'ok':
            d = paths.agg_fields(t, 'writer::Writer')
            good = d is not None and all(strip(d[x])[0] == 'field' and strip(d[x])[2] == x and root(d[x])[0] == 'arg' for x in ('index', 'dimensions'))
            ctx.check(good, 'R-HANDLE', 'returned-writer', f.loc(), 'same index and dimensions', 'the writer returned by prepare_changing_distance has another index/dimension')
    n = vec_rules.trunc_rule(ctx, 'R-TRUNC', only=['prepare_changing_distance'])
    ctx.floor('R-TRUNC', 'to_vec sites in the metric change', n, 1)
    # "keeps the vectors as representable under the new metric": the re-encoding goes through the new codec's `from_vec`,
    # which must quantise exactly like the entry point used for insertions and queries (C12's packer / entry-point rules)
    from props import C12
    C12.r_pack_bits(ctx)
    C07.r_index_key(ctx)
    C07.r_index_arg(ctx)
    C06.r_open(ctx)
    C06.r_names(ctx)
    # the statement refers to C01 ("a forest satisfying C01"): C01's structural clauses are re-checked by this check too
    from props import C01
    import premises
    premises.forest(ctx)
