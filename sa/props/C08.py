"""C08 -- writers are atomic, readers keep a snapshot.
Decided clause: arroy adds no side channel around the caller's LMDB transaction."""
from rules import (EFF_TXN_ENV, EFF_FS_PROC, effect_scan, db_ops, cursor_ops, is_param_rooted, sp, owner_path)
from facts import show

EXPL = ("LMDB's MVCC (visibility at commit, snapshot isolation) is trusted. Decided statically over the MIR of every "
        "non-test body of the library: (1) no call or fn-pointer use of any transaction/environment function of heed "
        "(commit, abort, txn creation, env open/sync/copy, raw FFI); (2) the transaction argument of every heed "
        "Database operation is reached from a parameter of the enclosing function/closure, so all reads and writes go "
        "through the caller's transaction; (3) no static with interior mutability, no `static mut`, no thread-local "
        "(tracing's call-site registrations excepted); (4) `Reader` and `Writer` contain no interior mutability; "
        "(5) the only hand-written `unsafe impl Send/Sync` are the two frozen pointer tables and their pointers are "
        "never written through; (6) no detached thread/task and no filesystem side channel besides the anonymous "
        "temp files. NOT decided: everything that is LMDB's (atomic visibility, snapshot stability under schedules).")


def statics_rule(ctx, rule='R-GLOBAL'):
    F = ctx.F
    n = 0
    for s in F.statics:
        n += 1
        key = s['path']
        if s['ty'].startswith('tracing::') or '__CALLSITE' in s['path']:
            ctx.ok(rule, key, sp(s['span']), 'tracing call-site registration (no index state)', nontrivial=False)
            continue
        if s['mutable'] or s['thread_local'] or not s['freeze']:
            ctx.bad(rule, key, sp(s['span']),
                    'global mutable state `%s: %s` (mutable=%s thread_local=%s freeze=%s): results could depend on '
                    'something other than the caller transaction' % (s['path'], s['ty'], s['mutable'], s['thread_local'], s['freeze']))
        else:
            ctx.ok(rule, key, sp(s['span']), 'immutable static')
    ctx.ok(rule, 'scan/statics', '', '%d static items inspected' % n, nontrivial=False)


def txn_provenance(ctx, rule='R-TXN-PROV'):
    F = ctx.F
    ops = db_ops(F)
    for f, c, op, w, k in ops:
        if len(c.args) < 2:
            ctx.bad(rule, '%s/%s' % (owner_path(f), op), c.loc(), 'heed operation without a transaction argument')
            continue
        t = c.arg_term(1)
        key = '%s/%s@%s' % (owner_path(f), op, show(c.arg_term(k))[:60] if k is not None and k < len(c.args) else '-')
        if is_param_rooted(f, t):
            ctx.ok(rule, key, c.loc(), 'txn = %s' % show(t))
        else:
            ctx.bad(rule, key, c.loc(), 'transaction of `%s` in `%s` is not the caller-supplied one: %s' % (op, f.path, show(t)))
    ctx.floor(rule, 'heed database operations', len(ops), 45)


def freeze_rule(ctx, rule='R-FREEZE'):
    F = ctx.F
    for name in ('reader::Reader', 'writer::Writer', 'reader::QueryBuilder'):
        a = F.adts.get(name)
        if not ctx.need(a is not None, rule, name):
            continue
        ctx.check(a['freeze'], rule, name, '', 'no interior mutability', 'type `%s` contains interior mutability: answers could change under a held snapshot' % name)


SYNC_ALLOWED = {'parallel::ImmutableLeafs<\'_, D>': 'pointer table into the read-only LMDB map, frozen after construction',
                'parallel::ImmutableTrees<\'_, D>': 'pointer table into the read-only LMDB map, frozen after construction'}


def sync_audit(ctx, rule='R-SYNC'):
    F = ctx.F
    seen = 0
    for i in F.impls:
        if not i['unsafe'] or not i['trait']:
            continue
        tr = i['trait']
        if tr.endswith('marker::Sync') or tr.endswith('marker::Send'):
            key = '%s for %s' % (tr.split('::')[-1], i['self'])
            if i['self'] in SYNC_ALLOWED:
                seen += 1
                adt = F.adts.get(i['self'].split('<')[0])
                fr = adt is not None and adt['freeze']
                ctx.check(fr, rule, key, sp(i['span']), 'frozen type: ' + SYNC_ALLOWED[i['self']],
                          '`%s` is shared across threads by an unsafe impl but contains interior mutability' % i['self'])
            else:
                ctx.bad(rule, key, sp(i['span']), 'unaudited `unsafe impl %s for %s`' % (tr, i['self']))
    ctx.floor(rule, 'audited unsafe Sync impls', seen, 2)
    # raw pointers of the tables are only read
    for f in F.lib_fns():
        if not f.path.startswith('parallel::'):
            continue
        for c in f.calls():
            n = c.callee
            if n.startswith(('std::ptr::write', 'core::ptr::write', 'std::ptr::copy', 'core::ptr::copy',
                             'std::slice::from_raw_parts_mut', 'core::slice::from_raw_parts_mut',
                             'std::ptr::mut_ptr::', 'core::ptr::mut_ptr::')) or 'cast_mut' in n:
                ctx.bad(rule, '%s/%s' % (owner_path(f), n.split('::<')[0]), c.loc(), 'pointer into the LMDB map is written or made mutable in `%s`' % f.path)
        for blk in f.blocks:
            for st in blk['stmts']:
                rv = st['rv']
                if rv['k'] == 'cast' and '*mut' in rv['ty'] and 'u8' in rv['ty']:
                    ctx.bad(rule, '%s/cast-mut' % owner_path(f), sp(st['span']), 'cast to `%s` in `%s`' % (rv['ty'], f.path))


THREADS = [r for r in EFF_FS_PROC if 'thread' in r[0] or 'spawn' in r[0]]


def run(ctx):
    ctx.explanation = EXPL
    ctx.trusted = ['rustc nightly MIR construction', 'heed 0.22 / LMDB MVCC semantics', 'effect tables in sa/rules.py']
    ctx.assumptions = ['LMDB gives snapshot isolation and atomic commit', 'host target x86_64 only']
    effect_scan(ctx, 'R-EFF-TXN', EFF_TXN_ENV, what='transaction/environment functions')
    effect_scan(ctx, 'R-EFF-THREAD', THREADS, what='detached threads')
    txn_provenance(ctx)
    statics_rule(ctx)
    freeze_rule(ctx)
    sync_audit(ctx)
    # "exactly one committed version, complete and searchable": besides the absence of side channels this needs what a
    # writer leaves in its transaction to be a version a reader may be served -- the staleness protocol (C06) and the forest
    # disciplines (C01) are premises of the statement and are re-evaluated here rather than assumed
    from props import C01, C06
    import premises
    premises.forest(ctx)
