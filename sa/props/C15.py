"""C15 -- build options are honoured: tree count and bucket capacity."""
import forest_rules as fr

EXPL = ("Decided: (R-CAPACITY) fit_in_descendant is `n <= split_after.unwrap_or(dimensions)`, and every write of a bucket node "
        "is on the true edge of that test applied to its own bitmap, or has its id queued on the over-full worklist when the test "
        "fails (or always), or is a shrunk copy of an existing bucket, or happens in a function only called when its bitmap fits; "
        "(R-KIND/R-RETAG) the id queued is the bucket's tree id; (R-DRAIN, Q-WORKLIST) the worklist is drained before the metadata "
        "is written, each entry is re-split and re-queued under the same gate; (R-NTREES) an explicit Some(n) is used unchanged, "
        "surplus roots are removed and their trees deleted, exactly target - roots.len() new roots are created, each listed; "
        "(R-STALE) shrinking never looks up deleted items; the automatic count has a lower bound of 1 in an interval evaluation "
        "of the automatic arm (constants, max, casts, joins, `x` on the true edge of `x > y`). NOT decided: the rest of the "
        "automatic count's arithmetic; the equality roots.len() == n as a number.")


def run(ctx):
    ctx.explanation = EXPL
    ctx.trusted = ['rustc nightly MIR construction']
    ctx.assumptions = ['split_after constant across builds']
    fr.r_capacity(ctx)
    fr.r_drain(ctx)
    fr.r_worklist(ctx)
    fr.r_tree_count(ctx)
    fr.r_stale(ctx)
    fr.r_kind(ctx)
    # the bucket capacity and tree count are statements about the forest the build leaves: C01 / C06 premises re-evaluated
    import premises
    premises.forest(ctx)
    import rules as _rules
    ctx.floor('R-SETTER', 'option setters', _rules.r_setters(ctx, ('writer::ArroyBuilder',)), 5)
