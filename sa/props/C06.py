"""C06 -- a stale or never-built index is never silently served."""
import paths
from facts import strip, show, walk
from rules import (db_ops, cursor_ops, key_info, same, full_kind_range, strip_all, is_public, owner_path, cursor_root_call, heed_db_call,
                   loop_every_iteration, sp)

EXPL = ("Decided on the MIR control-flow graphs: (R-MARK) in every public Writer method, from the success continuation "
        "of each write to an item key (put/put_with_flags: the Ok arm; delete: the `true` arm) every path to a success "
        "return passes a put of the updated-mark key with the same index and item; and every updated-mark put is "
        "dominated by such a continuation (absent-id deletes and rejected calls stay fresh). (R-OPEN) every path of "
        "Reader::open to Ok(Reader) passes three gates with the right polarity: metadata absent => MissingMetadata, "
        "metric name differs => UnmatchingDistance, updated-mark scan non-empty => NeedBuild; the three errors are distinct "
        "variants. (R-NEEDBUILD) need_build is true exactly on {updated scan non-empty} OR {metadata absent}. "
        "(R-CONSUME) the build entry consumes every updated mark (del_current on every loop iteration over the whole "
        "updated prefix of its own index) and (R-PUBLISH) every success path of the build writes "
        "Metadata{distance: D::name()} under the metadata key; clear() wipes the whole index prefix; the metric-change "
        "helper deletes the metadata key; the metric names are pairwise distinct. NOT decided: LMDB semantics of the calls."
        " R-OPEN is decided as a truth table: Reader::open is evaluated by the finite-domain evaluator (sa/enumeval.py) under the 8 combinations of {metadata present, stored name equals D::name(), updated scan non-empty}; it must end in Ok exactly for (present, equal, empty) and in MissingMetadata / UnmatchingDistance / NeedBuild otherwise, whatever the spelling (match, let-else, ok_or, helpers).")


def item_mutators(F):
    out = []
    for f in F.lib_fns():
        if f.path.startswith('writer::Writer::<D>::') and is_public(f) and f.kind == 'AssocFn':
            ws = [(c, op, k) for (_f, c, op, w, k) in db_ops(F, [f])
                  if w and k is not None and (key_info(c.arg_term(k)) or (None,))[0] == 'item'
                  and op in ('put', 'put_with_flags', 'delete', 'get_or_put', 'put_reserved')]
            if ws:
                out.append((f, ws))
    return out


def effective_block(fn, c, op):
    """block at which the write `c` is known to have taken effect"""
    arms = paths.result_arms(fn, c)
    if 'ok' not in arms:
        return None, arms
    ok = arms['ok']
    if op != 'delete':
        return ok, arms
    # delete -> Result<bool>: effective on the `true` edge of the switch on the payload
    seen = set()
    st = [ok]
    while st:
        b = st.pop()
        if b in seen or len(seen) > 12:
            continue
        seen.add(b)
        sw = paths.switch_at(fn, b)
        if sw is not None:
            for s in fn.succ(b):
                e = paths.edge_cond(fn, b, s)
                if e and e[0] == 'bool' and paths.mentions_call(e[1], c.bb):
                    # the payload itself or its negation(s): `if existed {..}` / `if !existed { return .. }`
                    t0 = strip(e[1])
                    truth = e[2]
                    while t0[0] == 'unop' and t0[1] == 'Not':
                        t0 = strip(t0[2])
                        truth = not truth
                    plain = t0[0] == 'call' or (t0[0] == 'field' and t0[2] == '0') or t0[0] in ('try', 'var', 'phi')
                    if plain and truth and not any(y[0] == 'binop' for y in walk(t0)):
                        return s, arms
            continue
        st.extend(fn.succ(b))
    return None, arms


def success_goals(fn):
    return [b for b, k, t in paths.ret_assigns(fn) if k in ('ok', 'call', 'other')]


def mark_helper(F, g, memo={}):
    """when every success path of g puts Key::updated(self.index, <param p>): p (1-based local), else None"""
    if g.path in memo:
        return memo[g.path]
    memo[g.path] = None
    puts = []
    for (_f, c, op, w, k) in db_ops(F, [g]):
        if op in ('put', 'put_with_flags') and k is not None:
            ki = key_info(c.arg_term(k))
            if ki and ki[0] == 'updated' and strip(ki[2])[0] == 'arg' and strip(ki[1])[0] == 'field' and strip(ki[1])[2] == 'index':
                puts.append((c, strip(ki[2])[1]))
    writes_items = any(w and k is not None and (key_info(c.arg_term(k)) or (None,))[0] == 'item' for (_f, c, op, w, k) in db_ops(F, [g]))
    if len(puts) == 1 and not writes_items:
        goals = [b for b, k, t in paths.ret_assigns(g) if k in ('ok', 'call', 'other')]
        if goals and paths.must_pass(g, 0, goals, [puts[0][0].bb]):
            memo[g.path] = puts[0][1]
    return memo[g.path]


def r_mark(ctx):
    F = ctx.F
    rule = 'R-MARK'
    muts = item_mutators(F)
    ctx.floor(rule, 'public Writer methods writing item keys', len(muts), 3)
    for f, ws in muts:
        marks = []
        for (_f, c, op, w, k) in db_ops(F, [f]):
            if op in ('put', 'put_with_flags') and k is not None:
                ki = key_info(c.arg_term(k))
                if ki and ki[0] == 'updated':
                    marks.append((c, ki))
        # a private helper that always writes the mark of its item parameter counts as the mark
        for c in f.calls():
            for g in F.resolve_call(c):
                if g.path == f.path or g.in_test or not g.path.startswith('writer::'):
                    continue
                p = mark_helper(F, g, {})
                if p is not None and p - 1 < len(c.args) and strip(c.arg_term(0))[0] == 'arg' and strip(c.arg_term(0))[1] == 1:
                    idx = ('field', ('deref', ('arg', 1, 'self')), 'index')
                    marks.append((c, ('updated', idx, c.arg_term(p - 1))))
        goals = success_goals(f)
        effs = []
        for c, op, k in ws:
            ki = key_info(c.arg_term(k))
            eff, arms = effective_block(f, c, op)
            key = '%s/%s' % (f.path, op)
            if arms.get('tail') or eff is None:
                # result returned/forwarded without the method seeing its success: no mark can follow
                ctx.bad(rule, key + '/unmarked', c.loc(), 'item write `%s` in `%s`: cannot find the success continuation where the updated mark must be written' % (op, f.path))
                continue
            effs.append((eff, ki))
            mblocks = [m.bb for m, mk in marks if same(mk[1], ki[1]) and same(mk[2], ki[2])]
            if paths.must_pass(f, eff, goals, mblocks):
                ctx.ok(rule, key, c.loc(), 'every success path after the effective write of item(%s, %s) writes updated(%s, %s)' % (show(ki[1]), show(ki[2]), show(ki[1]), show(ki[2])))
            else:
                w = paths.witness_path(f, eff, goals, avoid=mblocks)
                ctx.bad(rule, key, c.loc(), '`%s` can return success after writing item(%s, %s) without writing the matching updated mark: a later Reader::open would serve the stale forest' % (f.path, show(ki[1]), show(ki[2])),
                        path=[paths.path_str(f, w)] if w else None)
        for m, mk in marks:
            key = '%s/mark-only-after-write' % f.path
            good = any(f.dominates(eff, m.bb) and same(mk[1], ki[1]) and same(mk[2], ki[2]) for eff, ki in effs)
            ctx.check(good, rule, key, m.loc(), 'updated mark is dominated by an effective write of the same item',
                      'updated mark in `%s` can be written without an effective item write (no-op calls would make the index stale)' % f.path)
    # no other function writes item keys without a mark, except the build-time preprocess cursor (C05 covers it)
    return muts


ERRS = ('MissingMetadata', 'UnmatchingDistance', 'NeedBuild')


def r_open(ctx):
    F = ctx.F
    rule = 'R-OPEN'
    f = F.one("reader::Reader::<'t, D>::open")
    if not ctx.need(f is not None, rule, 'Reader::open'):
        return
    rets = paths.ret_assigns(f)
    okb = [b for b, k, t in rets if k == 'ok']
    if not ctx.need(len(okb) >= 1, rule, 'Ok(Reader{..}) return'):
        return
    errs = {}
    for b, k, t in rets:
        if k in ('err', 'residual'):
            v = paths.err_variant(t)
            if v and (k == 'err' or v in ERRS):
                errs.setdefault(v, []).append(b)
    ctx.check(len(set(ERRS) & set(errs)) == 3, rule, 'open/distinct-errors', f.loc(),
              'three distinct error variants ' + ', '.join(ERRS), 'Reader::open no longer returns the three distinct errors %s (found %s)' % (ERRS, sorted(errs)))
    # truth table of the three gates, by finite-domain evaluation (sa/enumeval.py) of the function under every combination
    # of the three observations: M = metadata of the index present, N = stored metric name equals D::name(),
    # U = the updated-mark scan yields an entry.  Independent of how the gates are spelled (match / let-else / ok_or / helpers).
    import enumeval
    err_adt = F.adts.get('error::Error')
    err_name = {int(v['discr']): v['name'] for v in err_adt['variants']} if err_adt else {}

    def hook_for(M, N, U):
        def hook(ev, fn, t, b):
            callee = t.get('callee') or ''
            c = fn.call_at(b)
            if c is None:
                return None
            h = heed_db_call(c)
            if h and h[0] == 'get' and h[2] is not None:
                ki = key_info(c.arg_term(h[2]))
                if ki and ki[0] == 'metadata':
                    return {(): frozenset([0]), ('@Ok', '0'): frozenset([1 if M else 0])}
            if callee.endswith('Iterator::next') and c.args and updated_scan(('call', callee, [c.arg_term(0)], b)):
                return {(): frozenset([1 if U else 0])}
            if callee.startswith('heed::Database') and not callee.endswith(('::remap_types', '::remap_data_type', '::remap_key_type')):
                # database reads are assumed not to fail here (I/O errors are propagated: C10)
                return {(): frozenset([0])}
            if callee.endswith(('PartialEq::eq', 'PartialEq::ne')) and len(c.args) == 2:
                both = list(walk(c.arg_term(0))) + list(walk(c.arg_term(1)))
                if any(x[0] == 'call' and x[1].endswith('Distance::name') for x in both) and any(x[0] == 'field' and x[2] == 'distance' for x in both):
                    eq = callee.endswith('::eq')
                    return {(): frozenset([int(N == eq)])}
            return None
        return hook

    def outcomes(M, N, U):
        enumeval.reset()
        ev = enumeval.Eval(F, f, call_hook=hook_for(M, N, U)).run()
        out = set()
        for rb, tree in ev.ret_trees.items():
            v = tree.get(())
            if v is None:
                out.add('?')
                continue
            for x in v:
                if x == 0:
                    out.add('Ok')
                else:
                    ev_ = tree.get(('@Err', '0'))
                    out |= {'Err:' + str(err_name.get(y, y)) for y in ev_} if ev_ else {'Err:?'}
        return out
    table = {}
    for M in (False, True):
        for N in (False, True):
            for U in (False, True):
                table[(M, N, U)] = outcomes(M, N, U)

    def expected(M, N, U):
        if not M:
            return {'Err:MissingMetadata'}
        if not N:
            return {'Err:UnmatchingDistance'}
        if U:
            return {'Err:NeedBuild'}
        return {'Ok'}
    for (M, N, U), got in sorted(table.items()):
        want = expected(M, N, U)
        ctx.check(got == want, rule, 'open/table/M%d-N%d-U%d' % (M, N, U), f.loc(), '%s' % sorted(want),
                  'Reader::open with metadata %s, metric name %s, pending updates %s ends in %s; it must end in %s (a stale, foreign-metric or never-built index would be served, or a good one refused)' % (
                      'present' if M else 'absent', 'equal' if N else 'different', 'present' if U else 'absent', sorted(got), sorted(want)))


def _calls_in(t, needle):
    return [s for s in walk(t) if s[0] == 'call' and needle in s[1]]


def r_need_build(ctx):
    """need_build answers (updated scan non-empty) OR (metadata absent): finite-domain evaluation (sa/enumeval.py) of the
    function under the four combinations of the two observations, independent of how the answer is spelled"""
    F = ctx.F
    rule = 'R-NEEDBUILD'
    f = F.one('writer::Writer::<D>::need_build')
    if not ctx.need(f is not None, rule, 'Writer::need_build'):
        return
    import enumeval
    seen_obs = set()

    def hook_for(M, U):
        def hook(ev, fn, t, b):
            callee = t.get('callee') or ''
            c = fn.call_at(b)
            if c is None:
                return None
            h = heed_db_call(c)
            if h and h[0] == 'get' and h[2] is not None:
                ki = key_info(c.arg_term(h[2]))
                if ki and ki[0] == 'metadata':
                    seen_obs.add('M')
                    return {(): frozenset([0]), ('@Ok', '0'): frozenset([1 if M else 0])}
            if callee.endswith('Iterator::next') and c.args and updated_scan(('call', callee, [c.arg_term(0)], b)):
                seen_obs.add('U')
                return {(): frozenset([1 if U else 0])}
            if callee.startswith('heed::Database') and not callee.endswith(('::remap_types', '::remap_data_type', '::remap_key_type')):
                return {(): frozenset([0])}
            return None
        return hook
    bad = []
    n = 0
    for M in (False, True):
        for U in (False, True):
            enumeval.reset()
            ev = enumeval.Eval(F, f, call_hook=hook_for(M, U)).run()
            got = set()
            for rb, tree in ev.ret_trees.items():
                v = tree.get(())
                if v is None:
                    got.add('?')
                    continue
                if 0 in v:
                    pv = tree.get(('@Ok', '0'))
                    got |= {bool(x) for x in pv} if pv else {'?'}
            n += 1
            want = U or not M
            if got != {want}:
                bad.append('updated-nonempty=%s metadata-absent=%s => %s' % (U, not M, sorted(map(str, got))))
    if seen_obs != {'M', 'U'}:
        bad.append('observations made: %s (expected the metadata lookup and the updated-mark scan of the index)' % sorted(seen_obs))
    ctx.check(not bad, rule, 'need_build/truth-table', f.loc(),
              'answers (updated scan non-empty) OR (metadata absent) under all %d valuations' % n,
              'Writer::need_build is not {updated scan non-empty} OR {metadata absent}: %s' % sorted(set(bad))[:4])


def updated_scan(t):
    """`t` observes the first entry of a scan over exactly the updated marks of one index:
    next(prefix_iter(Prefix::updated(idx))) or next(range(Key::updated(idx,0)..=Key::updated(idx,u32::MAX)))"""
    if not _calls_in(t, 'Iterator::next'):
        return False
    it = _calls_in(t, 'prefix_iter')
    if it and len(it[0][2]) > 2 and (key_info(it[0][2][2]) or (None,))[0] == 'p-updated':
        return True
    for r in _calls_in(t, '::range'):
        if r[1].startswith('heed::Database') and len(r[2]) > 2:
            fr = full_kind_range(r[2][2])
            if fr and fr[0] == 'updated':
                return True
    return False


def _observation(t, truth):
    c0 = strip(t)
    if c0[0] != 'call':
        return None
    pol = None
    if c0[1].endswith('::is_some'):
        pol = truth
    elif c0[1].endswith('::is_none'):
        pol = not truth
    else:
        return None
    if updated_scan(t):
        return 'updated-nonempty' if pol else 'updated-empty'
    g = _calls_in(t, 'heed::Database::<KC, DC, C, CDUP>::get')
    if g and (key_info(g[0][2][2]) or (None,))[0] == 'metadata':
        return 'metadata-present' if pol else 'metadata-absent'
    return None


def build_entry(F):
    b = F.one("writer::ArroyBuilder::<'a, D, R>::build")
    if b is None:
        return None
    for c in b.calls():
        for g in F.resolve_call(c):
            if g.path.startswith('writer::Writer::<D>::'):
                return g
    return None


def scan_loops(F, f, prefix_kind):
    """[(prefix_iter call term, next Call, del_current Call|None)] for cursor loops over a prefix kind"""
    out = []
    for c in f.calls():
        if c.callee.endswith('Iterator::next'):
            rc = cursor_root_call(f, c.arg_term(0))
            if rc and 'prefix_iter_mut' in rc[1]:
                ki = key_info(rc[2][2])
                if ki and ki[0] == prefix_kind:
                    dels = [d for (_f, d, op) in cursor_ops(F, [f]) if op == 'del_current'
                            and cursor_root_call(f, d.arg_term(0)) == rc]
                    out.append((rc, ki, c, dels))
    return out


def always_passes(F, f, site_pred, memo=None, depth=0):
    """every path of f from entry to a success return passes a block satisfying site_pred(f, block)
    or a call to an in-crate function for which this holds (recursively)"""
    memo = memo if memo is not None else {}
    if f.path in memo:
        return memo[f.path]
    memo[f.path] = False  # recursion guard
    through = set()
    for b in f.live_blocks():
        if site_pred(f, b):
            through.add(b)
        c = f.call_at(b)
        if c is not None and depth < 6:
            for g in F.resolve_call(c):
                if g.path != f.path and always_passes(F, g, site_pred, memo, depth + 1):
                    through.add(b)
    goals = success_goals(f)
    r = bool(goals) and paths.must_pass(f, 0, goals, through)
    memo[f.path] = r
    return r


def is_metadata_put(F):
    def pred(f, b):
        c = f.call_at(b)
        if c is None:
            return False
        from rules import heed_db_call
        h = heed_db_call(c)
        if not h or h[0] != 'put':
            return False
        ki = key_info(c.arg_term(2))
        if not ki or ki[0] != 'metadata':
            return False
        v = c.arg_term(3)
        for s in walk(v):
            if s[0] == 'agg' and s[1].endswith('metadata::Metadata'):
                d = dict(s[3]).get('distance')
                return d is not None and strip(d)[0] == 'call' and strip(d)[1].endswith('Distance::name')
        return False
    return pred


def r_build(ctx):
    F = ctx.F
    be = build_entry(F)
    if not ctx.need(be is not None, 'R-PUBLISH', 'build entry (Writer method called by ArroyBuilder::build)'):
        return
    reach = F.reach([be])
    # consumption loop(s)
    loops = []
    for g in reach.values():
        for rc, ki, nx, dels in scan_loops(F, g, 'p-updated'):
            loops.append((g, rc, ki, nx, dels))
    ctx.floor('R-CONSUME', 'updated-mark scan loops reachable from the build entry', len(loops), 1)
    for g, rc, ki, nx, dels in loops:
        key = '%s/consume' % g.path
        if not dels:
            ctx.bad('R-CONSUME', key, nx.loc(), 'the updated-mark scan in `%s` never deletes the marks it reads: the index stays stale after a successful build' % g.path)
            continue
        okk = any(loop_every_iteration(g, nx, d.bb) for d in dels)
        ctx.check(okk, 'R-CONSUME', key, dels[0].loc(), 'del_current on every iteration of the updated-mark scan',
                  'some iteration of the updated-mark scan in `%s` continues without del_current: marks survive a successful build' % g.path)

    def consume_pred(f, b):
        return any(f is g and b == nx.bb for g, rc, ki, nx, dels in loops)
    ctx.check(always_passes(F, be, consume_pred), 'R-CONSUME', '%s/always' % be.path, be.loc(),
              'every success path of the build runs the updated-mark scan',
              'a success path of `%s` skips the updated-mark scan' % be.path)
    ctx.check(always_passes(F, be, is_metadata_put(F)), 'R-PUBLISH', '%s/metadata' % be.path, be.loc(),
              'every success path writes Metadata{distance: D::name(),..} under Key::metadata(self.index)',
              'a success path of `%s` returns Ok without writing the metadata (or writes it with a metric name other than D::name())' % be.path)


def clear_rule(ctx, rule):
    """clear removes every key of the index (cursor over Prefix::all, or one inclusive whole-index range)"""
    F = ctx.F
    f = F.one('writer::Writer::<D>::clear')
    if not ctx.need(f is not None, rule, 'Writer::clear'):
        return
    loops = scan_loops(F, f, 'p-all')
    from rules import KEY_CTORS
    good = False
    why = ''
    for rc, ki, nx, dels in loops:
        if dels and any(loop_every_iteration(f, nx, d.bb) for d in dels):
            good = True
            why = 'cursor over Prefix::all(self.index) deleting every entry'
    for (_g, c, op, w, k) in db_ops(F, [f]):
        if op == 'delete_range':
            t = c.arg_term(k)
            ctors = [s for s in walk(t) if s[0] == 'call' and s[1] in KEY_CTORS]
            incl = any((s[0] in ('call', 'agg')) and 'RangeInclusive' in s[1] for s in walk(t))
            if len(ctors) == 2 and KEY_CTORS[ctors[0][1]] == 'metadata' and KEY_CTORS[ctors[1][1]] == 'item' and incl \
                    and same(ctors[0][2][0], ctors[1][2][0]) and strip(ctors[1][2][1])[0] == 'const' and strip(ctors[1][2][1])[2] == 0xFFFFFFFF \
                    and paths.must_pass(f, 0, [b for b, kk, tt in paths.ret_assigns(f) if kk in ('ok', 'call')], [c.bb]):
                good = True
                why = 'delete_range(Key::metadata(idx) ..= Key::item(idx, u32::MAX))'
    ctx.check(good, rule, 'clear/removes-everything', f.loc(), why,
              'Writer::clear does not remove every key of its index (an item, e.g. id u32::MAX, or the metadata can survive a clear)')


def r_clear(ctx):
    F = ctx.F
    clear_rule(ctx, 'R-CLEAR')
    # the metric-change path removes the metadata of its index
    g = F.one('writer::Writer::<D>::prepare_changing_distance')
    if ctx.need(g is not None, 'R-CHANGE', 'Writer::prepare_changing_distance'):
        reach = F.reach([g])
        found = False
        for h in reach.values():
            for (_f, c, op, w, k) in db_ops(F, [h]):
                if op == 'delete' and k is not None:
                    ki = key_info(c.arg_term(k))
                    if ki and ki[0] == 'metadata':
                        found = True
        ctx.check(found, 'R-CHANGE', 'prepare_changing_distance/metadata-delete', g.loc(),
                  'metadata key deleted on metric change', 'changing the metric no longer deletes the metadata: the index would open without a rebuild')


def r_names(ctx):
    """the metric names are pairwise distinct constants"""
    F = ctx.F
    names = {}
    for p, f in F.fns.items():
        if p.endswith(' as distance::Distance>::name'):
            for b, k, t in paths.ret_assigns(f):
                names[p] = show(t)
    vals = list(names.values())
    ctx.floor('R-NAMES', 'Distance::name impls', len(vals), 7)
    ctx.check(len(set(vals)) == len(vals), 'R-NAMES', 'distinct', '', '%d distinct metric names' % len(vals),
              'two metrics share a name: opening under the wrong metric would not be refused: %s' % vals)


def run(ctx):
    ctx.explanation = EXPL
    ctx.trusted = ['rustc nightly MIR construction', 'heed put/delete/prefix_iter semantics']
    ctx.assumptions = ['heed::Database::delete returns true iff a key was removed']
    rules(ctx)


def rules(ctx):
    """the structural clauses of C06 (also re-evaluated by properties that rely on "a committed version is complete")"""
    r_mark(ctx)
    r_open(ctx)
    r_need_build(ctx)
    r_build(ctx)
    r_clear(ctx)
    r_names(ctx)
    # "overwritten": add/append always write the item (and then the mark) -- a write skipped because "nothing would change"
    # also skips the mark, and the overwrite is not seen (C05's write-always clause)
    from props import C05
    C05.r_write_always(ctx)
