"""C20 -- degenerate data never breaks a build or a search (structural clauses)."""
import paths
import side_rules as sr
import reader_rules as rr
from facts import strip, show, walk, short, const_eval
from rules import sp, owner_path, root
from props.C10 import result_err

EXPL = ("Decided: (R-NAN-ORDER) every float that orders a heap or a sort is wrapped in OrderedFloat (no BinaryHeap/sort keyed on "
        "a bare f32/f64) and there is no `partial_cmp(..).unwrap()/expect()` on floats anywhere in the library; (R-SIGN) "
        "Distance::side is total: NaN and 0 margins take a side without panicking (finite sign-domain evaluation incl. NaN); "
        "(R-FALLBACK) in the tree constructor (the recursive function calling D::create_split) the split retry loop is bounded by "
        "a counter that starts at a constant, strictly decreases every iteration and ends the loop at 0, and an over-threshold "
        "imbalance assigns children randomly with a zeroed normal (R-RANDOM-ZERO); split_imbalance cannot divide 0 by 0 (a "
        "positive constant is added to the denominator); (R-CENTROID) both two-means loops run a constant number of iterations "
        "and skip the update when the norm is NaN or <= 0; normalisation divides only under `norm > 0`; (R-FORM) Cosine answers 0 "
        "when the norm product vanishes; (S*) the search path is structurally value-independent: results are well-formed whatever "
        "the stored floats are (C03's traversal rules). NOT decided: termination of the recursion on all-duplicate sets "
        "(probabilistic), bounded time, absence of panics from invariant-guarded unwraps."
        " The centroid guards are evaluated on the sign domain (only a positive norm may reach an update); the split retry loop must be bounded by a counter moving towards a constant; every deduplicated candidate must be scored (S8-SCORE every-candidate); the worklist progress rules of C14 and the C01 / C06 premise rule sets are re-evaluated.")


def r_nan_order(ctx, rule='R-NAN-ORDER'):
    F = ctx.F
    n = 0
    for f in F.lib_fns():
        for l, loc in enumerate(f.locals):
            ty = loc['ty']
            if ty.startswith(('std::collections::BinaryHeap<', 'std::collections::BTreeMap<', 'std::collections::BTreeSet<')):
                n += 1
                bare = ('f32' in ty.replace('OrderedFloat<f32>', '').replace('OrderedFloat<f64>', '')) or ('f64' in ty.replace('OrderedFloat<f64>', '').replace('OrderedFloat<f32>', ''))
                ctx.check(not bare, rule, '%s/%s' % (f.path, ty[:60]), f.loc(), 'ordered container keyed on OrderedFloat', 'ordered container `%s` in `%s` is keyed on a bare float: NaN breaks its ordering' % (ty, f.path))
        for c in f.calls():
            if c.callee.endswith(('PartialOrd::partial_cmp',)) and c.args:
                aty = ''
                a0 = c.args[0]
                if a0.get('k') in ('copy', 'move'):
                    aty = f.local_ty(a0['place']['l'])
                if 'f32' in aty or 'f64' in aty:
                    n += 1
                    unwrapped = any(x.callee.endswith(('Option::<T>::unwrap', 'Option::<T>::expect')) and paths.mentions_call(x.arg_term(0), c.bb) for x in f.calls())
                    ctx.check(not unwrapped, rule, '%s/partial_cmp' % f.path, c.loc(), 'partial_cmp result handled', '`%s` unwraps a float partial_cmp: a NaN distance/margin panics' % f.path)
            if c.callee.endswith(('::sort_by', '::sort_unstable_by', '::max_by', '::min_by', '::sort_by_key', '::sort_unstable_by_key', '::sort_by_cached_key', 'Iterator::max_by', 'Iterator::min_by')):
                n += 1
                clo = [x for x in walk(c.arg_term(len(c.args) - 1)) if x[0] == 'closure']
                bad = False
                for cl in clo:
                    g = F.fn(cl[1])
                    if g is not None:
                        for x in g.calls():
                            if x.callee.endswith('PartialOrd::partial_cmp'):
                                bad = bad or any(y.callee.endswith(('Option::<T>::unwrap', 'Option::<T>::expect')) for y in g.calls())
                ctx.check(not bad, rule, '%s/%s' % (f.path, short(c.callee)), c.loc(), 'comparator does not unwrap partial_cmp', 'comparator in `%s` unwraps partial_cmp' % f.path)
    ctx.floor(rule, 'ordered containers / float comparisons inspected', n, 2)


def r_fallback(ctx, rule='R-FALLBACK'):
    F = ctx.F
    tcs = [f for f in F.lib_fns() if any(c.callee.endswith('Distance::create_split') for c in f.calls()) and f.path.startswith('writer::')]
    if not ctx.need(len(tcs) >= 1, rule, 'tree constructor (function calling D::create_split)'):
        return
    for f in tcs:
        cs = [c for c in f.calls() if c.callee.endswith('Distance::create_split')][0]
        hdrs = [h for h in f.dominators().get(cs.bb, ()) if cs.bb in paths.natural_loop(f, h)]
        if not ctx.need(bool(hdrs), rule, 'retry loop around create_split in ' + f.path):
            continue
        loop = paths.natural_loop(f, max(hdrs, key=lambda h: -len(paths.natural_loop(f, h))) if False else min(hdrs, key=lambda h: len(paths.natural_loop(f, h))))
        # counter: a local initialised with a constant outside the loop, moved by exactly 1 in one direction on every retry,
        # and compared with a constant it is moving towards on a loop exit (`n == 0` counting down, `n == MAX` counting up, ...)
        good = False
        why = ''
        hdr = min(hdrs, key=lambda h: len(paths.natural_loop(f, h)))
        for b in loop:
            for s in f.succ(b):
                if s in loop:
                    continue
                e = paths.edge_cond(f, b, s)
                if not (e and e[0] == 'bool'):
                    continue
                c = strip(e[1])
                if not (c[0] == 'binop' and c[1] in ('Eq', 'Le', 'Ge', 'Lt', 'Gt', 'Ne') and const_eval(c[3]) is not None):
                    continue
                op = c[1] if e[2] else {'Eq': 'Ne', 'Ne': 'Eq', 'Le': 'Gt', 'Gt': 'Le', 'Ge': 'Lt', 'Lt': 'Ge'}[c[1]]
                bound = const_eval(c[3])
                cnt = strip(c[2])
                if cnt[0] != 'phi':
                    continue
                l = cnt[1]
                ds = [d for d in f.defs().get(l, []) if not d[-1]]
                init = [d for d in ds if d[1] not in loop]
                steps = [d for d in ds if d[1] in loop]
                c0 = const_eval(f._def_term(init[0], 0, frozenset([l]))) if len(init) == 1 else None
                direction = None
                every = False
                if len(steps) == 1:
                    t = strip(f._def_term(steps[0], 0, frozenset([l])))
                    t = t[1] if t[0] == 'field' else t
                    if t[0] == 'binop' and const_eval(t[3]) == 1 and strip(t[2])[0] in ('phi', 'var') and strip(t[2])[1] == l:
                        direction = -1 if t[1].startswith('Sub') else (1 if t[1].startswith('Add') else None)
                    # the step is executed on every path that loops back to a new attempt
                    outside = set(range(f.n)) - loop
                    back = f.reachable(cs.target, avoid=outside | {steps[0][1]})
                    every = hdr not in back or (hdr == cs.bb and cs.bb not in back)
                towards = False
                if c0 is not None and direction is not None:
                    if direction < 0:
                        towards = bound <= c0 and op in ('Eq', 'Le', 'Lt')
                    else:
                        towards = bound >= c0 and op in ('Eq', 'Ge', 'Gt')
                if towards and every:
                    good = True
                why = 'start %s, step %s on every retry: %s, exit when counter %s %s' % (c0, direction, every, op, bound)
        ctx.check(good, rule, f.path + '/bounded-retries', cs.loc(), 'retry counter starts at a constant, moves by 1 on every retry towards the constant that ends the loop (%s)' % why,
                  'the split retry loop of `%s` is not bounded by a counter moving towards its limit on every retry (%s): degenerate data could retry forever' % (f.path, why))
        # imbalance fallback: in the constructor that recurses on the two halves (a helper that only searches the plane
        # has nothing to fall back to; after virtual inlining its loop is part of the constructor anyway)
        if not any(c.callee == f.path for c in f.calls()):
            continue
        rnd = [c for c in f.calls() if c.callee.endswith('randomly_split_children')]
        if not rnd:
            # the random assignment written out (or inlined) in the constructor itself
            rnd = [c for c in f.calls() if c.callee.endswith('Side::random')]
        okf = False
        for c in rnd:
            for s, x, e in paths.controlling_conds(f, c.bb, transitive=True):
                if not paths.edge_dominates(f, s, x, c.bb):
                    continue
                if e[0] == 'bool' and e[2]:
                    cc = strip(e[1])
                    if cc[0] == 'binop' and cc[1] in ('Gt', 'Ge') and strip(cc[3])[0] == 'const' and \
                            any(y[0] == 'call' and y[1].endswith('split_imbalance') for y in walk(cc[2])):
                        okf = True
        ctx.check(okf, rule, f.path + '/imbalance-fallback', rnd[0].loc() if rnd else f.loc(), 'an over-threshold imbalance falls back to a random split',
                  '`%s` has no random fallback when every hyperplane puts (almost) all items on one side: duplicates would recurse forever' % f.path)
    si = F.one('writer::split_imbalance')
    if ctx.need(si is not None, rule, 'split_imbalance'):
        rets = [strip(t) for b, k, t in paths.ret_assigns(si)]
        good = False
        for t in rets:
            for x in walk(t):
                if x[0] == 'binop' and x[1] == 'Div':
                    den = strip(x[3])
                    if den[0] == 'binop' and den[1] == 'Add':
                        for y in (den[2], den[3]):
                            yy = strip(y)
                            if yy[0] == 'const' and yy[1] == 'f64' and isinstance(yy[2], int) and 0 < yy[2] < (1 << 63):
                                good = True
        ctx.check(good, rule, 'split_imbalance/no-0-by-0', si.loc(), 'a positive constant keeps the denominator non-zero', 'split_imbalance can compute 0/0 for an empty split (NaN imbalance disables the fallback)')


def r_centroid(ctx, rule='R-CENTROID'):
    F = ctx.F
    # the two-means functions themselves; a closure nested in them counts only when it carries a centroid update
    # (a `choose` callback handed to a shared refinement helper is not an iteration body)
    tms = [f for f in F.lib_fns() if f.path.startswith('distance::two_means')
           and ('{closure' not in f.path or any(c.callee.endswith('Distance::update_mean') for c in f.calls()))]
    ctx.floor(rule, 'two-means functions', len(tms), 2)
    for f in tms:
        rng = [s for c in f.calls() if c.callee.endswith('Iterator::next') for s in walk(c.arg_term(0)) if s[0] == 'agg' and s[1].endswith('ops::Range')]
        okr = bool(rng) and const_eval(dict(rng[0][3])['start']) == 0 and (const_eval(dict(rng[0][3])['end']) or 0) > 0
        ctx.check(okr, rule, f.path + '/bounded', f.loc(), 'constant number of iterations (%s)' % (const_eval(dict(rng[0][3])['end']) if rng else '?'), '`%s` does not iterate a constant number of times' % f.path)
        upd = [c for c in f.calls() if c.callee.endswith('Distance::update_mean')]
        # which signs of the norm can reach an update?  every guard that edge-dominates the update and only talks about the
        # norm is evaluated on the sign domain {neg, zero, pos, nan}; the survivors must be {pos}
        from rules import strip_all
        import absint

        def truth(cond, nt, sgn):
            c0 = strip(cond)
            if c0[0] == 'unop' and c0[1] == 'Not':
                v = truth(c0[2], nt, sgn)
                return None if v is None else (not v)
            if c0[0] == 'call' and c0[1].endswith('f32>::is_nan') and c0[2] and strip_all(c0[2][0]) == nt:
                return sgn == 'nan'
            if c0[0] == 'binop' and c0[1] in ('Lt', 'Le', 'Gt', 'Ge', 'Eq', 'Ne'):
                a, b = strip_all(c0[2]), strip_all(c0[3])
                if a == nt and absint.f32_const_sign(c0[3]):
                    return absint.cmp_signs(c0[1], sgn, absint.f32_const_sign(c0[3]))
                if b == nt and absint.f32_const_sign(c0[2]):
                    return absint.cmp_signs(c0[1], absint.f32_const_sign(c0[2]), sgn)
            return None
        all_pos = bool(upd)
        survivors_seen = []
        for c in upd:
            nt = strip_all(c.arg_term(2))
            survivors = set(absint.SIGNS)
            for s0, x0, e in paths.controlling_conds(f, c.bb):
                if e[0] == 'bool' and paths.edge_dominates(f, s0, x0, c.bb):
                    for sgn in list(survivors):
                        v = truth(e[1], nt, sgn)
                        if v is not None and v != e[2]:
                            survivors.discard(sgn)
            survivors_seen.append(sorted(survivors))
            if survivors != {'pos'}:
                all_pos = False
        nan_g = le_g = all_pos
        ctx.check(bool(upd) and nan_g and le_g, rule, f.path + '/norm-guard', f.loc(), 'centroid update skipped when the norm is NaN or <= 0',
                  '`%s` updates a centroid with a NaN or non-positive norm (division by zero / NaN centroids; norm signs reaching the update: %s)' % (f.path, survivors_seen))
    # normalisation divides only under norm > 0
    for p, f in F.fns.items():
        if p.endswith('Distance::normalize') or p.endswith(' as distance::Distance>::normalize'):
            divs = []
            for g in F.family(f):
                for bi, blk in enumerate(g.blocks):
                    for st in blk['stmts']:
                        if st['rv']['k'] == 'binop' and st['rv']['op'] == 'Div':
                            divs.append((g, bi))
            okd = True
            mapc = [c for c in f.calls() if c.callee.endswith(('Iterator::map', 'Iterator::collect'))]
            guard = False
            for c in mapc or f.calls():
                for s, x, e in paths.controlling_conds(f, c.bb):
                    cc = strip(e[1]) if e[0] == 'bool' else None
                    if cc and cc[0] == 'binop' and cc[1] == 'Gt' and const_eval(cc[3]) == 0 and e[2] and paths.edge_dominates(f, s, x, c.bb):
                        guard = True
            ctx.check(guard, rule, p.split('::')[-2][-30:] + '/normalize-guard', f.loc(), 'divides by the norm only when norm > 0', '`%s` can divide by a zero/NaN norm' % p)


LOSSY_OPTION = ('Option::<T>::filter', 'Option::<T>::take_if', 'Option::<T>::xor', 'Iterator::filter', 'Iterator::filter_map',
                'Iterator::skip_while', 'Iterator::take_while', 'Iterator::find', 'Iterator::find_map')


def r_choose(ctx, rule='R-FALLBACK'):
    """the two-means seeds: `choose_two` / `choose` of a subset answer None only when the sampled ids cannot be fetched -- they
    do not look at the *values* (identical, zero, NaN vectors are data like any other; the callers unwrap the answer)"""
    F = ctx.F
    fs = [f for f in F.lib_fns() if f.path.startswith('parallel::ImmutableSubsetLeafs') and f.path.endswith(('::choose_two', '::choose'))]
    if not ctx.need(len(fs) >= 2, rule, 'ImmutableSubsetLeafs::choose_two / choose'):
        return
    for f in fs:
        lossy = [short(c.callee) for g in F.family(f) for c in g.calls() if c.callee.endswith(LOSSY_OPTION)]
        cmpv = [short(c.callee) for g in F.family(f) for c in g.calls() if c.callee.endswith(('PartialEq::eq', 'PartialEq::ne', '::is_zero', 'f32>::is_nan'))
                or (c.callee.endswith('::as_bytes') and 'UnalignedVector' in c.callee)]
        ctx.check(not lossy and not cmpv, rule, 'sampling/' + f.path.rsplit('::', 1)[1], f.loc(), 'samples by rank only; None only when a sampled id cannot be fetched',
                  '`%s` can drop a sampled pair depending on the vectors themselves (%s): the split code unwraps the answer, so degenerate data (duplicates, zero vectors) would panic the build' % (f.path, sorted(set(lossy + cmpv))))


def run(ctx):
    ctx.explanation = EXPL
    ctx.trusted = ['rustc nightly MIR construction', 'ordered_float::OrderedFloat is a total order incl. NaN']
    r_nan_order(ctx)
    sr.r_sign_agreement(ctx)
    sr.r_random_zero(ctx)
    r_fallback(ctx)
    r_choose(ctx)
    r_centroid(ctx)
    from props import C11
    C11.r_forms(ctx)
    F = ctx.F
    for f in rr.traversal(F):
        tv = rr.Trav(ctx, f)
        if ctx.need(tv.pop is not None and tv.dedup is not None, 'S1-LOOP', 'queue.pop() and candidates.dedup() in ' + f.path):
            rr.r_loop(ctx, tv)
            rr.r_scoring(ctx, tv)
    from props import C01
    import premises
    premises.forest(ctx)
    # "still build in bounded time": the worklist of over-full buckets drains (C14's progress rules) -- duplicates are exactly
    # the data on which a bucket cannot be split by a plane, so a bucket handed back unsplit must not be re-queued forever
    import forest_rules as fr
    fr.r_worklist(ctx)
    fr.r_progress(ctx)
