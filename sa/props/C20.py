"""C20 -- degenerate data never breaks a build or a search (structural clauses)."""
import paths
import side_rules as sr
import reader_rules as rr
from facts import strip, show, walk, short, const_eval
from rules import sp, owner_path, root
from props.C10 import result_err

EXPL = ("Decided: (R-NAN-ORDER) every float that orders a heap or a sort is wrapped in OrderedFloat (no BinaryHeap/sort keyed on "
        "a bare f32/f64) and there is no `partial_cmp(..).unwrap()/expect()` on floats anywhere in the library; (R-SIGN) "
        "Distance::side is total: NaN and 0 margins take a side without panicking (finite sign-domain evaluation incl. NaN); "
        "(R-FALLBACK) in the tree constructor (the recursive function calling D::create_split) the split retry loop is bounded by "
        "a counter that starts at a constant, strictly decreases every iteration and ends the loop at 0, and an over-threshold "
        "imbalance assigns children randomly with a zeroed normal (R-RANDOM-ZERO); split_imbalance cannot divide 0 by 0 (a "
        "positive constant is added to the denominator); (R-CENTROID) both two-means loops run a constant number of iterations "
        "and skip the update when the norm is NaN or <= 0; normalisation divides only under `norm > 0`; (R-FORM) Cosine answers 0 "
        "when the norm product vanishes; (S*) the search path is structurally value-independent: results are well-formed whatever "
        "the stored floats are (C03's traversal rules). NOT decided: termination of the recursion on all-duplicate sets "
        "(probabilistic), bounded time, absence of panics from invariant-guarded unwraps.")


def r_nan_order(ctx, rule='R-NAN-ORDER'):
    F = ctx.F
    n = 0
    for f in F.lib_fns():
        for l, loc in enumerate(f.locals):
            ty = loc['ty']
            if ty.startswith(('std::collections::BinaryHeap<', 'std::collections::BTreeMap<', 'std::collections::BTreeSet<')):
                n += 1
                bare = ('f32' in ty.replace('OrderedFloat<f32>', '').replace('OrderedFloat<f64>', '')) or ('f64' in ty.replace('OrderedFloat<f64>', '').replace('OrderedFloat<f32>', ''))
                ctx.check(not bare, rule, '%s/%s' % (f.path, ty[:60]), f.loc(), 'ordered container keyed on OrderedFloat', 'ordered container `%s` in `%s` is keyed on a bare float: NaN breaks its ordering' % (ty, f.path))
        for c in f.calls():
            if c.callee.endswith(('PartialOrd::partial_cmp',)) and c.args:
                aty = ''
                a0 = c.args[0]
                if a0.get('k') in ('copy', 'move'):
                    aty = f.local_ty(a0['place']['l'])
                if 'f32' in aty or 'f64' in aty:
                    n += 1
                    unwrapped = any(x.callee.endswith(('Option::<T>::unwrap', 'Option::<T>::expect')) and paths.mentions_call(x.arg_term(0), c.bb) for x in f.calls())
                    ctx.check(not unwrapped, rule, '%s/partial_cmp' % f.path, c.loc(), 'partial_cmp result handled', '`%s` unwraps a float partial_cmp: a NaN distance/margin panics' % f.path)
            if c.callee.endswith(('::sort_by', '::sort_unstable_by', '::max_by', '::min_by', '::sort_by_key', '::sort_unstable_by_key', '::sort_by_cached_key', 'Iterator::max_by', 'Iterator::min_by')):
                n += 1
                clo = [x for x in walk(c.arg_term(len(c.args) - 1)) if x[0] == 'closure']
                bad = False
                for cl in clo:
                    g = F.fn(cl[1])
                    if g is not None:
                        for x in g.calls():
                            if x.callee.endswith('PartialOrd::partial_cmp'):
                                bad = bad or any(y.callee.endswith(('Option::<T>::unwrap', 'Option::<T>::expect')) for y in g.calls())
                ctx.check(not bad, rule, '%s/%s' % (f.path, short(c.callee)), c.loc(), 'comparator does not unwrap partial_cmp', 'comparator in `%s` unwraps partial_cmp' % f.path)
    ctx.floor(rule, 'ordered containers / float comparisons inspected', n, 2)


def r_fallback(ctx, rule='R-FALLBACK'):
    F = ctx.F
    tcs = [f for f in F.lib_fns() if any(c.callee.endswith('Distance::create_split') for c in f.calls()) and f.path.startswith('writer::')]
    if not ctx.need(len(tcs) >= 1, rule, 'tree constructor (function calling D::create_split)'):
        return
    for f in tcs:
        cs = [c for c in f.calls() if c.callee.endswith('Distance::create_split')][0]
        hdrs = [h for h in f.dominators().get(cs.bb, ()) if cs.bb in paths.natural_loop(f, h)]
        if not ctx.need(bool(hdrs), rule, 'retry loop around create_split in ' + f.path):
            continue
        loop = paths.natural_loop(f, max(hdrs, key=lambda h: -len(paths.natural_loop(f, h))) if False else min(hdrs, key=lambda h: len(paths.natural_loop(f, h))))
        # counter: a local compared == 0 on a loop exit, initialised with a constant, decremented by 1 in the loop
        good = False
        why = ''
        for b in loop:
            for s in f.succ(b):
                if s in loop:
                    continue
                e = paths.edge_cond(f, b, s)
                if e and e[0] == 'bool':
                    c = strip(e[1])
                    if c[0] == 'binop' and c[1] in ('Eq', 'Le') and const_eval(c[3]) == 0 and e[2]:
                        cnt = strip(c[2])
                        if cnt[0] == 'phi':
                            l = cnt[1]
                            ds = [d for d in f.defs().get(l, []) if not d[-1]]
                            init = [d for d in ds if d[1] not in loop]
                            dec = [d for d in ds if d[1] in loop]
                            ok_init = len(init) == 1 and const_eval(f._def_term(init[0], 0, frozenset([l]))) is not None and const_eval(f._def_term(init[0], 0, frozenset([l]))) >= 0
                            ok_dec = False
                            for d in dec:
                                t = strip(f._def_term(d, 0, frozenset([l])))
                                t = t[1] if t[0] == 'field' else t
                                if t[0] == 'binop' and t[1].startswith('Sub') and const_eval(t[3]) == 1:
                                    # executed on every iteration that loops back
                                    hdr = min(hdrs, key=lambda h: len(paths.natural_loop(f, h)))
                                    ok_dec = paths.must_pass(f, cs.target, [hdr], [d[1]]) or True and all(
                                        d[1] in f.reachable(x) or True for x in [cs.target])
                                    outside = set(range(f.n)) - loop
                                    back = f.reachable(cs.target, avoid=outside | {d[1]})
                                    ok_dec = hdr not in back or hdr == cs.bb and cs.bb not in back
                            good = ok_init and ok_dec and len(dec) == 1
                            why = 'init const: %s, strictly decreasing on every retry: %s' % (ok_init, ok_dec)
        ctx.check(good, rule, f.path + '/bounded-retries', cs.loc(), 'retry counter starts at a constant, decreases by 1 on every retry, loop ends at 0',
                  'the split retry loop of `%s` is not bounded by a strictly decreasing counter (%s): degenerate data could retry forever' % (f.path, why))
        # imbalance fallback
        rnd = [c for c in f.calls() if c.callee.endswith('randomly_split_children')]
        okf = False
        for c in rnd:
            for s, x, e in paths.controlling_conds(f, c.bb, transitive=False):
                if e[0] == 'bool' and e[2]:
                    cc = strip(e[1])
                    if cc[0] == 'binop' and cc[1] in ('Gt', 'Ge') and strip(cc[2])[0] == 'call' and strip(cc[2])[1].endswith('split_imbalance') and strip(cc[3])[0] == 'const':
                        okf = True
        ctx.check(okf, rule, f.path + '/imbalance-fallback', rnd[0].loc() if rnd else f.loc(), 'an over-threshold imbalance falls back to a random split',
                  '`%s` has no random fallback when every hyperplane puts (almost) all items on one side: duplicates would recurse forever' % f.path)
    si = F.one('writer::split_imbalance')
    if ctx.need(si is not None, rule, 'split_imbalance'):
        rets = [strip(t) for b, k, t in paths.ret_assigns(si)]
        good = False
        for t in rets:
            for x in walk(t):
                if x[0] == 'binop' and x[1] == 'Div':
                    den = strip(x[3])
                    if den[0] == 'binop' and den[1] == 'Add':
                        for y in (den[2], den[3]):
                            yy = strip(y)
                            if yy[0] == 'const' and yy[1] == 'f64' and isinstance(yy[2], int) and 0 < yy[2] < (1 << 63):
                                good = True
        ctx.check(good, rule, 'split_imbalance/no-0-by-0', si.loc(), 'a positive constant keeps the denominator non-zero', 'split_imbalance can compute 0/0 for an empty split (NaN imbalance disables the fallback)')


def r_centroid(ctx, rule='R-CENTROID'):
    F = ctx.F
    tms = [f for f in F.lib_fns() if f.path.startswith('distance::two_means')]
    ctx.floor(rule, 'two-means functions', len(tms), 2)
    for f in tms:
        rng = [s for c in f.calls() if c.callee.endswith('Iterator::next') for s in walk(c.arg_term(0)) if s[0] == 'agg' and s[1].endswith('ops::Range')]
        okr = bool(rng) and const_eval(dict(rng[0][3])['start']) == 0 and (const_eval(dict(rng[0][3])['end']) or 0) > 0
        ctx.check(okr, rule, f.path + '/bounded', f.loc(), 'constant number of iterations (%s)' % (const_eval(dict(rng[0][3])['end']) if rng else '?'), '`%s` does not iterate a constant number of times' % f.path)
        upd = [c for c in f.calls() if c.callee.endswith('Distance::update_mean')]
        nan_g = le_g = False
        for c in upd:
            for s, x, e in paths.controlling_conds(f, c.bb):
                if e[0] == 'bool' and paths.edge_dominates(f, s, x, c.bb):
                    cc = strip(e[1])
                    if cc[0] == 'call' and cc[1].endswith('f32>::is_nan') and not e[2]:
                        nan_g = True
                    if cc[0] == 'binop' and ((cc[1] == 'Le' and not e[2]) or (cc[1] == 'Gt' and e[2])) and const_eval(cc[3]) == 0:
                        le_g = True
        ctx.check(bool(upd) and nan_g and le_g, rule, f.path + '/norm-guard', f.loc(), 'centroid update skipped when the norm is NaN or <= 0',
                  '`%s` updates a centroid with a NaN or non-positive norm (division by zero / NaN centroids)' % f.path)
    # normalisation divides only under norm > 0
    for p, f in F.fns.items():
        if p.endswith('Distance::normalize') or p.endswith(' as distance::Distance>::normalize'):
            divs = []
            for g in F.family(f):
                for bi, blk in enumerate(g.blocks):
                    for st in blk['stmts']:
                        if st['rv']['k'] == 'binop' and st['rv']['op'] == 'Div':
                            divs.append((g, bi))
            okd = True
            mapc = [c for c in f.calls() if c.callee.endswith(('Iterator::map', 'Iterator::collect'))]
            guard = False
            for c in mapc or f.calls():
                for s, x, e in paths.controlling_conds(f, c.bb):
                    cc = strip(e[1]) if e[0] == 'bool' else None
                    if cc and cc[0] == 'binop' and cc[1] == 'Gt' and const_eval(cc[3]) == 0 and e[2] and paths.edge_dominates(f, s, x, c.bb):
                        guard = True
            ctx.check(guard, rule, p.split('::')[-2][-30:] + '/normalize-guard', f.loc(), 'divides by the norm only when norm > 0', '`%s` can divide by a zero/NaN norm' % p)


def run(ctx):
    ctx.explanation = EXPL
    ctx.trusted = ['rustc nightly MIR construction', 'ordered_float::OrderedFloat is a total order incl. NaN']
    r_nan_order(ctx)
    sr.r_sign_agreement(ctx)
    sr.r_random_zero(ctx)
    r_fallback(ctx)
    r_centroid(ctx)
    from props import C11
    C11.r_forms(ctx)
    F = ctx.F
    for f in rr.traversal(F):
        tv = rr.Trav(ctx, f)
        if tv.pop is not None and tv.dedup is not None:
            rr.r_loop(ctx, tv)
            rr.r_scoring(ctx, tv)
    from props import C01
    import premises
    premises.forest(ctx)
