"""C12 -- binary quantisation keeps exactly the sign pattern and its Hamming geometry (structural clauses)."""
import paths
import simd
import vec_rules
from facts import strip, show, walk, short, const_eval
from rules import strip_all, root
from props.C11 import f32_of_bits, vec_args, _pair

EXPL = ("Decided: (R-BQ-LINEAR) with h = popcount(u xor v) summed over all stored bytes, BQ-Euclidean's raw distance is "
        "4*h and BQ-Manhattan's 2*h (coefficient derived through the constant multiplication/shift and the int->float cast), "
        "both reported divided by the declared dimension: 4h/d and 2h/d, hence 0 for equal patterns, symmetric, ordered by h; "
        "(R-BQ-DOT) the quantised dot product is sum over bytes of popcount(!(u^v)) - zerocount(!(u^v)) as a signed integer; "
        "BQ-Cosine is (1 - dot/(|p||q|))/2 with norms sqrt(dot(v,v)), i.e. h over the padded dimension; "
        "(R-BQ-ITER, finite domain) the decoder maps bit 1 -> +1.0 and bit 0 -> -1.0, consumes bits least-significant first "
        "(>>= 1) and reloads a native-endian u64 every 64 elements; (R-BQ-PACK) the packer's bit is `is_sign_positive` "
        "un-negated, shifted towards the MSB while the chunk is traversed in reverse (first component ends at bit 0), one "
        "native-endian word per chunk of 64; (R-BQ-LEN) len = bytes/8*64, is_zero = all bytes 0; (R-MASK) the SSE decoder's two "
        "mask arrays are 1<<0..1<<3 and 1<<4..1<<7 loaded in lane order, +1/-1 selected on (byte & mask) == 0, stored at "
        "byte*8 + i*4; (R-FEATURE) target-feature calls are guarded; (R-TRUNC) decoded vectors returned to callers are truncated "
        "to the declared dimension. NOT decided: bit-exact round trip for all patterns and dimensions; the blend intrinsic's "
        "semantics beyond the table; NEON paths (not compiled)."
        " Added: every D::normalized_distance call passes the declared dimension; the quantised cosine quotient is guarded by a test of its own denominator; the SSE decoder's two mask groups are enumerated low nibble first; C18's metric-change rules are re-evaluated (the stored norm header).")


def coeff_of(t):
    """(coefficient, inner sum term) of `sum * c as f32`"""
    t0 = strip(t)
    if t0[0] == 'cast':
        t0 = strip(t0[2])
    if t0[0] == 'field' and t0[1][0] == 'binop':
        t0 = t0[1]
    if t0[0] == 'binop' and t0[1].startswith('Mul'):
        c = const_eval(t0[3])
        if c is None:
            c = const_eval(t0[2])
            return c, strip(t0[3])
        return c, strip(t0[2])
    if t0[0] == 'binop' and t0[1].startswith('Shl'):
        c = const_eval(t0[3])
        return (1 << c) if c is not None else None, strip(t0[2])
    return None, t0


def is_hamming_sum(F, t):
    """sum over zip(u.as_bytes(), v.as_bytes()) of count_ones(u ^ v)"""
    if t[0] == 'phi':
        return is_hamming_loop(t)
    if not (t[0] == 'call' and t[1].endswith('Iterator::sum')):
        return False
    z = [x for x in walk(t) if x[0] == 'call' and x[1].endswith('Iterator::zip')]
    clo = [x for x in walk(t) if x[0] == 'closure']
    if not z or not clo:
        return False
    srcs = set()
    for a in z[0][2]:
        for x in walk(a):
            if x[0] == 'arg':
                srcs.add(x[1])
    ab = [x for x in walk(z[0]) if x[0] == 'call' and x[1].endswith('as_bytes')]
    g = F.fn(clo[0][1])
    okc = False
    for b, k, tt in paths.ret_assigns(g) if g else []:
        s = strip(tt)
        if s[0] == 'call' and s[1].endswith('>::count_ones'):
            x = strip(s[2][0])
            okc = x[0] == 'call' and x[1].endswith('BitXor::bitxor') and _pair(('b', 'x', x[2][0], x[2][1]))
    return okc and srcs == {1, 2} and len(ab) == 2


def is_hamming_loop(t):
    """`let mut c = 0; for (a, b) in u.as_bytes().iter().zip(v.as_bytes()) { c += (a ^ b).count_ones() }`"""
    zero = [a for a in t[2] if const_eval(a) == 0]
    steps = [a for a in t[2] if const_eval(a) is None]
    if len(zero) != 1 or len(steps) != 1:
        return False
    st = strip(steps[0])
    if st[0] == 'field' and st[2] == '0' and strip(st[1])[0] == 'binop':
        st = strip(st[1])
    if st[0] != 'binop' or not st[1].startswith('Add'):
        return False
    x, y = strip(st[2]), strip(st[3])
    if y[0] in ('phi', 'var') and y[1] == t[1]:
        x, y = y, x
    if not (x[0] in ('phi', 'var') and x[1] == t[1]):
        return False
    if not (y[0] == 'call' and y[1].endswith('>::count_ones')):
        return False
    xo = strip(y[2][0])
    if not (xo[0] == 'call' and xo[1].endswith('BitXor::bitxor')) and not (xo[0] == 'binop' and xo[1] == 'BitXor'):
        return False
    a, b = (xo[2][0], xo[2][1]) if xo[0] == 'call' else (xo[2], xo[3])

    def comp(e):
        # which component of the zipped pair, and the zip call it comes from
        for q in walk(e):
            if q[0] == 'field' and q[2] in ('0', '1') and strip(q[1])[0] == 'field' and strip(strip(q[1])[1])[0] == 'downcast':
                z = [w for w in walk(q) if w[0] == 'call' and w[1].endswith('Iterator::zip')]
                if z:
                    return q[2], z[0]
        return None, None
    ca, za = comp(a)
    cb, zb = comp(b)
    if ca is None or cb is None or {ca, cb} != {'0', '1'} or za[3] != zb[3]:
        return False
    srcs = set()
    for side in za[2]:
        for q in walk(side):
            if q[0] == 'arg':
                srcs.add(q[1])
    ab = [q for q in walk(za) if q[0] == 'call' and q[1].endswith('as_bytes')]
    return srcs == {1, 2} and len(ab) == 2


def is_signed_dot_loop(f, t):
    """`let mut sum: i32 = 0; for i in 0..min(len) { sum += ones(!(u[i] ^ v[i])) - zeros(!(u[i] ^ v[i])) }` (the helper computing
    ones - zeros is inlined by the fact base)"""
    zero = [a for a in t[2] if const_eval(a) == 0]
    steps = [a for a in t[2] if const_eval(a) is None]
    if len(zero) != 1 or len(steps) != 1 or 'i32' not in f.local_ty(t[1]):
        return False

    def unov(x):
        x = strip(x)
        if x[0] == 'field' and x[2] == '0' and strip(x[1])[0] == 'binop' and strip(x[1])[1].endswith('WithOverflow'):
            x = strip(x[1])
        return x
    st = unov(steps[0])
    if st[0] != 'binop' or not st[1].startswith('Add'):
        return False
    x, y = strip(st[2]), unov(st[3])
    if y[0] in ('phi', 'var') and y[1] == t[1]:
        x, y = y, unov(st[2])
    if not (x[0] in ('phi', 'var') and x[1] == t[1]):
        return False
    if y[0] != 'binop' or not y[1].startswith('Sub'):
        return False
    a, b = strip(y[2]), strip(y[3])
    a, b = (strip(a[2]) if a[0] == 'cast' else a), (strip(b[2]) if b[0] == 'cast' else b)
    if not (a[0] == 'call' and a[1].endswith('count_ones') and b[0] == 'call' and b[1].endswith('count_zeros')):
        return False
    xa, xb = strip(a[2][0]), strip(b[2][0])

    def canon(e):
        # Not(u_byte ^ v_byte) -> (param of the first operand, index origin, param of the second, index origin)
        e = strip(e)
        if not (e[0] == 'unop' and e[1] == 'Not'):
            return None
        xo = strip(e[2])
        if xo[0] == 'binop' and xo[1] == 'BitXor':
            ops = (xo[2], xo[3])
        elif xo[0] == 'call' and xo[1].endswith('BitXor::bitxor'):
            ops = (xo[2][0], xo[2][1])
        else:
            return None
        out = []
        for o in ops:
            o = strip(o)
            while o[0] in ('deref', 'ref'):
                o = strip(o[1])
            if o[0] != 'index':
                return None
            base = [q for q in walk(o[1]) if q[0] == 'call' and q[1].endswith('as_bytes')]
            args = {q[1] for q in walk(o[1]) if q[0] == 'arg'}
            if len(base) != 1 or len(args) != 1:
                return None
            idx = strip_all(f.local_term(o[2])) if isinstance(o[2], int) else strip_all(o[2])
            out.append((args.pop(), idx))
        return out
    ca, cb = canon(xa), canon(xb)
    if ca is None or ca != cb:
        return False
    return {ca[0][0], ca[1][0]} == {1, 2} and ca[0][1] == ca[1][1]


def r_linear(ctx, rule='R-BQ-LINEAR'):
    F = ctx.F
    for mod, want, norm_max in (('binary_quantized_euclidean', 4, False), ('binary_quantized_manhattan', 2, True)):
        ty = [i['self'] for i in F.trait_impls('distance::Distance') if i['self'].startswith('distance::%s::' % mod)]
        if not ctx.need(len(ty) == 1, rule, 'Distance impl in ' + mod):
            continue
        ty = ty[0]
        bd = F.fns.get('<%s as distance::Distance>::built_distance' % ty)
        rets = [strip(t) for b, k, t in paths.ret_assigns(bd)]
        good = False
        c = None
        if len(rets) == 1 and rets[0][0] == 'call' and vec_args(rets[0], bd):
            h = F.fn(rets[0][1])
            if h is not None:
                hr = [t for b, k, t in paths.ret_assigns(h)]
                if len(hr) == 1:
                    c, inner = coeff_of(hr[0])
                    good = c == want and is_hamming_sum(F, inner) and strip(hr[0])[0] == 'cast' and 'IntToFloat' in strip(hr[0])[1]
        ctx.check(good, rule, ty.split('::')[-1] + '/raw', bd.loc(), 'raw distance = %d * popcount(u xor v)' % want,
                  '%s::built_distance is not %d x the number of differing bits (coefficient found: %s)' % (ty.split('::')[-1], want, c))
        nd = F.fns.get('<%s as distance::Distance>::normalized_distance' % ty)
        rets = [strip(t) for b, k, t in paths.ret_assigns(nd)] if nd else []
        okn = False
        if len(rets) == 1 and rets[0][0] == 'binop' and rets[0][1] == 'Div':
            num, den = strip(rets[0][2]), strip(rets[0][3])
            okden = den[0] == 'cast' and strip(den[2])[0] == 'arg' and nd.local_name(strip(den[2])[1]) in ('dimensions', '_dimensions', 'dimension')
            if norm_max:
                oknum = num[0] == 'call' and num[1].endswith('f32>::max') and strip(num[2][0])[0] == 'arg' and const_eval(num[2][1]) == 0
            else:
                oknum = num[0] == 'arg'
            okn = okden and oknum
        ctx.check(okn, rule, ty.split('::')[-1] + '/normalized', nd.loc() if nd else '', 'reported = raw / declared dimension', '%s::normalized_distance is not raw / dimensions' % ty.split('::')[-1])


def r_declared_dimension(ctx, rule='R-BQ-LINEAR'):
    """4h/d and 2h/d are taken over the *declared* dimension: every call of D::normalized_distance in the library passes the
    index's `dimensions` (never the length of a decoded -- padded -- vector)"""
    F = ctx.F
    n = 0
    for f in F.lib_fns():
        for c in f.calls():
            if not c.callee.endswith('Distance::normalized_distance') or len(c.args) != 2:
                continue
            n += 1
            d = strip(c.arg_term(1))
            good = (d[0] == 'field' and d[2] == 'dimensions' and root(d)[0] == 'arg') or \
                   (d[0] == 'call' and d[1].endswith(('Reader::<\'t, D>::dimensions', '::dimensions')) and root(d[2][0])[0] == 'arg' if d[0] == 'call' and d[2] else False)
            ctx.check(bool(good), rule, '%s/declared-dimension#%d' % (f.path, n), c.loc(), 'normalised by the declared dimension',
                      '`%s` normalises a distance by %s instead of the index\'s declared dimension: quantised vectors are padded to a multiple of 64, so 4h/d and 2h/d would be off for every other dimension' % (f.path, show(d)[:60]))
    ctx.floor(rule, 'calls of D::normalized_distance', n, 1)


def r_dot(ctx, rule='R-BQ-DOT'):
    F = ctx.F
    f = F.fn('spaces::simple::dot_product_binary_quantized')
    if not ctx.need(f is not None, rule, 'dot_product_binary_quantized'):
        return
    rets = [t for b, k, t in paths.ret_assigns(f)]
    good = False
    if len(rets) == 1:
        t = strip(rets[0])
        if t[0] == 'cast' and 'IntToFloat' in t[1]:
            s = strip(t[2])
            clo = [x for x in walk(s) if x[0] == 'closure']
            ab = [x for x in walk(s) if x[0] == 'call' and x[1].endswith('as_bytes')]
            c = f.call_at(s[3]) if s[0] == 'call' else None
            signed_sum = c is not None and s[1].endswith('Iterator::sum') and 'i32' in (c.resolved + c.gargs)
            okc = False
            if clo:
                g = F.fn(clo[0][1])
                for b, k, tt in paths.ret_assigns(g) if g else []:
                    r = strip(tt)
                    r = r[1] if r[0] == 'field' else r
                    if r[0] == 'binop' and r[1].startswith('Sub'):
                        a, bb = strip(r[2]), strip(r[3])
                        a, bb = (strip(a[2]) if a[0] == 'cast' else a), (strip(bb[2]) if bb[0] == 'cast' else bb)
                        if a[0] == 'call' and a[1].endswith('count_ones') and bb[0] == 'call' and bb[1].endswith('count_zeros') and strip_all(a[2][0]) == strip_all(bb[2][0]):
                            x = strip(a[2][0])
                            okc = x[0] == 'unop' and x[1] == 'Not' and strip(x[2])[0] == 'call' and strip(x[2])[1].endswith('BitXor::bitxor')
            good = signed_sum and okc and len(ab) == 2
            if not good and s[0] == 'phi':
                good = is_signed_dot_loop(f, s)
    ctx.check(good, rule, 'dot_product_binary_quantized', f.loc(), 'sum over bytes of ones(!(u^v)) - zeros(!(u^v)) as i32, then f32',
              'dot_product_binary_quantized is not the signed sum of popcount(!(u^v)) - zerocount(!(u^v))')
    # cosine form
    ty = 'distance::binary_quantized_cosine::BinaryQuantizedCosine'
    nn = F.fns.get('<%s as distance::Distance>::norm_no_header' % ty)
    if ctx.need(nn is not None, rule, 'BinaryQuantizedCosine::norm_no_header'):
        rs = [strip(t) for b, k, t in paths.ret_assigns(nn)]
        okn = False
        if len(rs) == 1 and rs[0][0] == 'call' and rs[0][1].endswith('f32>::sqrt') and rs[0][2]:
            d0 = strip(rs[0][2][0])
            okn = d0[0] == 'call' and d0[1] == 'spaces::simple::dot_product_binary_quantized' and len(d0[2]) == 2 and \
                strip_all(d0[2][0]) == strip_all(d0[2][1]) and strip(d0[2][0])[0] == 'arg'
        ctx.check(okn, rule, 'BinaryQuantizedCosine/norm', nn.loc(), 'norm = sqrt(v . v) over the stored words',
                  'BinaryQuantizedCosine::norm_no_header is not sqrt(dot(v, v)): the header norm (and every cosine distance) is off for dimensions whose padded length is not what the shortcut assumes')
    bd = F.fns.get('<%s as distance::Distance>::built_distance' % ty)
    if ctx.need(bd is not None, rule, 'BinaryQuantizedCosine::built_distance'):
        rets = paths.ret_assigns(bd)
        main = [strip(t) for b, k, t in rets if strip(t)[0] != 'const']
        zero = [strip(t) for b, k, t in rets if strip(t)[0] == 'const']
        good = False
        if len(main) == 1 and len(zero) == 1 and const_eval(zero[0]) == 0:
            m = main[0]
            if m[0] == 'binop' and m[1] == 'Div' and const_eval(m[3]) is not None and abs(f32_of_bits(strip(m[3])[2]) - 2.0) < 1e-9:
                s = strip(m[2])
                if s[0] == 'binop' and s[1] == 'Sub' and abs(f32_of_bits(strip(s[2])[2]) - 1.0) < 1e-9:
                    q = strip(s[3])
                    while q[0] == 'call' and q[1].endswith('f32>::clamp'):
                        q = strip(q[2][0])
                    if q[0] == 'binop' and q[1] == 'Div':
                        num, den = strip(q[2]), strip(q[3])
                        good = num[0] == 'call' and num[1] == 'spaces::simple::dot_product_binary_quantized' and vec_args(num, bd) and den[0] == 'binop' and den[1] == 'Mul' \
                            and all(strip(x)[0] == 'field' and strip(x)[2] == 'norm' for x in (den[2], den[3]))
        ctx.check(good, rule, 'BinaryQuantizedCosine/built', bd.loc(), '(1 - dot/(|p||q|))/2, 0 when the norm product vanishes', 'BinaryQuantizedCosine::built_distance is not (1 - dot/(|p||q|))/2')
        # the guard: the quotient is computed exactly when the *denominator* (norm product) is non-zero
        okguard = False
        seen = []
        if good:
            den_c = strip_all(den)
            for b, k, t in rets:
                if strip(t)[0] == 'const':
                    continue
                for s0, x0, e in paths.controlling_conds(bd, b):
                    if e[0] != 'bool':
                        continue
                    c0 = strip(e[1])
                    if c0[0] == 'binop' and c0[1] in ('Ne', 'Gt', 'Eq', 'Le', 'Lt', 'Ge'):
                        lhs, rhs = strip_all(c0[2]), strip(c0[3])
                        seen.append(show(c0)[:60])
                        zero_or_eps = rhs[0] == 'const' and isinstance(rhs[2], int) and (f32_of_bits(rhs[2]) == 0.0 or 0.0 < f32_of_bits(rhs[2]) < 1e-5)
                        if lhs == den_c and zero_or_eps and (c0[1], e[2]) in (('Ne', True), ('Gt', True), ('Eq', False), ('Le', False)):
                            okguard = True
        ctx.check(okguard, rule, 'BinaryQuantizedCosine/guard', bd.loc(), 'the quotient is taken iff the norm product is non-zero',
                  'BinaryQuantizedCosine::built_distance does not guard the division by testing the norm product itself (tests seen: %s): orthogonal patterns (dot = 0) or vanishing norms get the wrong value' % seen)


def r_iter(ctx, rule='R-BQ-ITER'):
    F = ctx.F
    p = [x for x in F.fns if 'BinaryQuantizedIterator' in x and x.endswith('::next')]
    if not ctx.need(len(p) == 1, rule, 'BinaryQuantizedIterator::next'):
        return
    f = F.fn(p[0])
    # the iterator's state, by type (field names are free): the u64 word being consumed and the usize bit counter
    it_adt = [a for pth, a in F.adts.items() if pth.endswith('BinaryQuantizedIterator')]
    WORD = COUNT = None
    if it_adt:
        flds = [fl for v in it_adt[0]['variants'] for fl in v['fields']]
        words = [fl['name'] for fl in flds if fl['ty'] == 'u64']
        counts = [fl['name'] for fl in flds if fl['ty'] == 'usize']
        WORD = words[0] if len(words) == 1 else None
        COUNT = counts[0] if len(counts) == 1 else None
    if not ctx.need(WORD is not None and COUNT is not None, rule, 'iterator state: one u64 word field and one usize counter field'):
        return
    somes = [strip(t) for b, k, t in paths.ret_assigns(f) if strip(t)[0] == 'agg' and strip(t)[2] == 'Some']
    good = False
    if len(somes) == 1:
        v = strip(somes[0][3][0][1])
        # finite domain: evaluate the expression for bit = 0 and bit = 1
        def ev(t, bit):
            t0 = strip(t)
            if t0[0] == 'const':
                return f32_of_bits(t0[2]) if t0[1] == 'f32' else t0[2]
            if t0[0] == 'cast':
                x = ev(t0[2], bit)
                return float(x) if x is not None else None
            if t0[0] == 'binop':
                a, b = ev(t0[2], bit), ev(t0[3], bit)
                if t0[1] == 'BitAnd' and const_eval(t0[3]) == 1 and strip(t0[2])[0] == 'field' and strip(t0[2])[2] == WORD:
                    return bit
                if a is None or b is None:
                    return None
                return {'Mul': a * b, 'Sub': a - b, 'Add': a + b}.get(t0[1])
            return None
        good = ev(v, 1) == 1.0 and ev(v, 0) == -1.0
    ctx.check(good, rule, 'bit-to-value', f.loc(), 'bit 1 -> +1.0, bit 0 -> -1.0 (evaluated for both bit values)', 'the quantised decoder does not map bit 1 to +1.0 and bit 0 to -1.0')
    # state updates
    upd = {}
    for bi, blk in enumerate(f.blocks):
        for si, st in enumerate(blk['stmts']):
            pl = st['place']
            if pl['p'] and pl['p'][-1]['k'] == 'field' and pl['p'][-1]['n'] in (WORD, COUNT):
                rv = st['rv']
                t = f.term(rv['o']) if rv['k'] == 'use' else f._def_term(('assign', bi, si, rv, []), 0, frozenset())
                upd.setdefault(pl['p'][-1]['n'], []).append((bi, strip(t)))
    ce = upd.get(WORD, [])
    ci = upd.get(COUNT, [])
    shr = [t for b, t in ce if t[0] == 'binop' and t[1] == 'Shr' and const_eval(t[3]) == 1]
    load = [t for b, t in ce if t[0] == 'call' and t[1].endswith('<impl u64>::from_ne_bytes')]
    inc = [t for b, t in ci if (t[0] == 'field' and t[1][0] == 'binop' and t[1][1].startswith('Add') and const_eval(t[1][3]) == 1) or (t[0] == 'binop' and t[1].startswith('Add') and const_eval(t[3]) == 1)]
    rst = [t for b, t in ci if t[0] == 'const' and t[2] == 0]
    reload_cond = False
    for b in f.live_blocks():
        for s in f.succ(b):
            e = paths.edge_cond(f, b, s)
            if e and e[0] == 'bool' and e[2]:
                c = strip(e[1])
                if c[0] == 'binop' and c[1] == 'Ge' and const_eval(c[3]) == 64 and strip(c[2])[0] == 'field' and strip(c[2])[2] == COUNT:
                    reload_cond = True
    ctx.check(len(shr) == 1 and len(load) == 1 and len(inc) == 1 and len(rst) == 1 and reload_cond and len(ce) == 2 and len(ci) == 2, rule, 'state-machine', f.loc(),
              'LSB first (>>= 1), counter +1, reload a native-endian u64 when 64 bits are consumed',
              'the quantised decoder does not consume bits least-significant first with a reload every 64 elements (shr %d, load %d, inc %d, reset %d, reload test %s)' % (len(shr), len(load), len(inc), len(rst), reload_cond))


def r_pack_bits(ctx, rule='R-BQ-PACK'):
    F = ctx.F
    vec_rules.bq_packer(ctx, rule)
    vec_rules.bq_entry_points(ctx, rule)
    f = F.fn('unaligned_vector::binary_quantized::from_slice_non_optimized')
    if f is None:
        return
    # word = (word << 1) + is_sign_positive(x) over rev(chunk); the per-component step may live in a closure (fold)
    bodies = [f]
    seen = {f.path}
    work = [f]
    while work:
        g = work.pop()
        for blk in g.blocks:
            for st in blk['stmts']:
                rv = st['rv']
                if rv['k'] == 'agg' and rv.get('agg') == 'closure' and rv['closure'] not in seen and F.fn(rv['closure']) is not None:
                    seen.add(rv['closure'])
                    bodies.append(F.fn(rv['closure']))
                    work.append(F.fn(rv['closure']))
    rev = [c for g in bodies for c in g.calls() if c.callee.endswith('Iterator::rev')]
    sp_ = [c for g in bodies for c in g.calls() if c.callee.endswith('f32>::is_sign_positive')]
    neg = [c for g in bodies for c in g.calls() if c.callee.endswith(('f32>::is_sign_negative', 'Not::not'))]
    word_updates = []
    for g in bodies:
        for blk in g.blocks:
            if blk['cleanup']:
                continue
            for st in blk['stmts']:
                rv = st['rv']
                if rv['k'] == 'binop' and rv['op'] in ('Shl', 'ShlUnchecked', 'Shr', 'Add', 'AddWithOverflow', 'BitOr', 'AddUnchecked') and (
                        'u64' in g.local_ty(st['place']['l']) or '(u64, bool)' in g.local_ty(st['place']['l'])):
                    word_updates.append((rv['op'], g.term(rv['b']), g.term(rv['a']), g))

    def has_sp(t):
        return any(x[0] == 'call' and x[1].endswith('is_sign_positive') for x in walk(t))
    negated = bool(neg) or any(x[0] == 'unop' and x[1] == 'Not' for o, b, a, g in word_updates for x in list(walk(b)) + list(walk(a)) if has_sp(b) or has_sp(a))
    shr = [o for o, b, a, g in word_updates if o.startswith('Shr')]
    enum = [c for g in bodies for c in g.calls() if c.callee.endswith('Iterator::enumerate')]
    # form A (Horner over the reversed chunk): word = (word << 1) + bit
    shl1 = [o for o, b, a, g in word_updates if o.startswith('Shl') and const_eval(b) == 1]
    acc = [(o, b, a) for o, b, a, g in word_updates if (o.startswith('Add') or o == 'BitOr') and (has_sp(b) or has_sp(a))]
    other_shl = [o for o, b, a, g in word_updates if o.startswith('Shl') and const_eval(b) != 1]
    form_a = len(rev) == 1 and len(shl1) == 1 and len(acc) == 1 and not enum and not other_shl
    # form B (indexed, forward): word |= bit << i with i the position in the chunk (enumerate from 0, no rev/skip)
    form_b = False
    if len(enum) == 1 and not rev:
        src = enum[0].arg_term(0)
        plain = not any(x[0] == 'call' and x[1].endswith(('Iterator::rev', 'Iterator::skip', 'Iterator::step_by', 'Iterator::skip_while', 'Iterator::filter', 'Iterator::chain')) for x in walk(src))
        shl_idx = []
        for o, b, a, g in word_updates:
            if o.startswith('Shl') and has_sp(a) and const_eval(b) is None:
                # the amount is the first component of the enumerated pair, unmodified
                amt = strip(b)
                while amt[0] == 'cast':
                    amt = strip(amt[2])
                is_index = amt[0] == 'field' and amt[2] == '0' and (
                    (root(amt)[0] == 'arg' and g.local_ty(root(amt)[1]).startswith('(usize,')) or
                    any(x[0] == 'call' and x[1].endswith('Iterator::next') for x in walk(amt)))
                shl_idx.append(is_index)
        form_b = plain and shl_idx == [True] and len(acc) == 1 and not shl1
    ctx.check((form_a or form_b) and len(sp_) == 1 and not negated and not shr, rule, 'bit-order', f.loc(),
              ('word = (word << 1) + is_sign_positive(x) over the chunk in reverse' if form_a else 'word |= is_sign_positive(x) << i over the enumerated chunk') + ': component i lands at bit i',
              'the quantised packer does not place component i of a chunk at bit i with 1 = positive sign (rev %d, enumerate %d, is_sign_positive %d, shl-by-1 %d, accumulate %d, un-negated %s)' % (
                  len(rev), len(enum), len(sp_), len(shl1), len(acc), not negated))


def r_len(ctx, rule='R-BQ-LEN'):
    F = ctx.F
    f = F.impl_method('UnalignedVectorCodec', 'unaligned_vector::binary_quantized::BinaryQuantized', 'len')
    if ctx.need(f is not None, rule, 'BinaryQuantized::len'):
        rets = [strip(t) for b, k, t in paths.ret_assigns(f)]
        good = False
        if len(rets) == 1:
            t = rets[0]
            t = t[1] if t[0] == 'field' else t
            if t[0] == 'binop' and t[1].startswith('Mul') and const_eval(t[3]) == 64:
                d = strip(t[2])
                good = d[0] == 'binop' and d[1] == 'Div' and const_eval(d[3]) == 8
        ctx.check(good, rule, 'len', f.loc(), 'len = bytes / 8 * 64', 'BinaryQuantized::len is not bytes/8*64')
    z = F.impl_method('UnalignedVectorCodec', 'unaligned_vector::binary_quantized::BinaryQuantized', 'is_zero')
    if ctx.need(z is not None, rule, 'BinaryQuantized::is_zero'):
        good = all_zero_predicate(F, z)
        ctx.check(good, rule, 'is_zero', z.loc(), 'all bytes == 0', 'BinaryQuantized::is_zero is not "all bytes are 0"')


def all_zero_predicate(F, z):
    """the function returns `iter.all(|x| x == 0)` or `!iter.any(|x| x != 0)` (the two spellings of "every element is zero")"""
    rets = [strip(t) for b, k, t in paths.ret_assigns(z)]
    if len(rets) != 1:
        return False
    t = rets[0]
    neg = False
    while t[0] == 'unop' and t[1] == 'Not':
        t = strip(t[2])
        neg = not neg
    if t[0] != 'call' or len(t[2]) != 2:
        return False
    want = None
    if t[1].endswith('Iterator::all') and not neg:
        want = 'Eq'
    elif t[1].endswith('Iterator::any') and neg:
        want = 'Ne'
    clo = strip(t[2][1])
    if want is None or clo[0] != 'closure' or F.fn(clo[1]) is None:
        return False
    g = F.fn(clo[1])
    rs = [strip(x) for b, k, x in paths.ret_assigns(g)]
    return bool(rs) and all(r[0] == 'binop' and r[1] == want and root_is_param(r[2]) and const_eval(r[3]) == 0 for r in rs)


def root_is_param(t):
    from rules import root
    r = root(t)
    return r[0] == 'arg' and r[1] == 2


def linear_form(t, atoms=None, depth=0):
    """{atom key: integer coefficient, None: constant} of an index expression built from +, * const, << const;
    `atoms` (optional dict) receives key -> atom term"""
    t0 = strip(t)
    if depth > 20:
        return None
    if t0[0] == 'field' and t0[2] == '0' and strip(t0[1])[0] == 'binop' and strip(t0[1])[1].endswith('WithOverflow'):
        t0 = strip(t0[1])
    c = const_eval(t0)
    if c is not None:
        return {None: c}
    if t0[0] == 'cast':
        return linear_form(t0[2], atoms, depth + 1)
    if t0[0] == 'binop':
        op = t0[1]
        if op.startswith('Add'):
            x, y = linear_form(t0[2], atoms, depth + 1), linear_form(t0[3], atoms, depth + 1)
            if x is None or y is None:
                return None
            out = dict(x)
            for k, v in y.items():
                out[k] = out.get(k, 0) + v
            return out
        if op.startswith('Mul') or op.startswith('Shl'):
            k = const_eval(t0[3])
            other = t0[2]
            if k is None and op.startswith('Mul'):
                k = const_eval(t0[2])
                other = t0[3]
            if k is None:
                return None
            if op.startswith('Shl'):
                k = 1 << k
            x = linear_form(other, atoms, depth + 1)
            return {a: v * k for a, v in x.items()} if x is not None else None
    key = repr(strip_all(t0))
    if atoms is not None:
        atoms[key] = t0
    return {key: 1}


def r_mask(ctx, rule='R-MASK'):
    F = ctx.F
    f = F.fn('unaligned_vector::binary_quantized::to_vec_sse')
    if f is None:
        ctx.note('to_vec_sse not compiled in this configuration')
        return
    arrays = []
    for blk in f.blocks:
        for st in blk['stmts']:
            rv = st['rv']
            if rv['k'] == 'agg' and rv.get('agg') == 'array' and len(rv['ops']) == 4:
                vals = [const_eval(f.term(o)) for o in rv['ops']]
                if all(v is not None for v in vals):
                    arrays.append(vals)
    ctx.check([1, 2, 4, 8] in arrays and [16, 32, 64, 128] in arrays, rule, 'mask-arrays', f.loc(), 'masks 1<<0..1<<3 and 1<<4..1<<7',
              'the SSE decoder mask arrays are %s instead of [1,2,4,8] and [16,32,64,128]' % arrays)
    se = [c for c in f.calls() if short(c.callee) == '_mm_set_epi32']
    good = bool(se)
    for c in se:
        idx = []
        for i in range(4):
            t = strip(c.arg_term(i))
            if t[0] == 'index':
                idx.append(const_eval(f.local_term(t[2])))
            elif t[0] == 'cindex':
                idx.append(t[2])
            else:
                idx.append(None)
        good = good and idx == [3, 2, 1, 0]
    ctx.check(good, rule, 'lane-order', se[0].loc() if se else f.loc(), '_mm_set_epi32(mask[3], mask[2], mask[1], mask[0]): lane i tests bit i', 'the mask lanes are not loaded in lane order')

    # the pair of masks enumerated per byte: group 0 = low nibble, group 1 = high nibble
    def mask_values(e):
        e0 = strip(e)
        if e0[0] == 'array' and len(e0[1]) == 4:
            vals = [const_eval(x) for x in e0[1]]
            return vals if all(v is not None for v in vals) else None
        if e0[0] == 'call' and short(e0[1]) == '_mm_set_epi32' and len(e0[2]) == 4:
            lanes = []
            for a in reversed(e0[2]):
                a0 = strip(a)
                while a0[0] == 'cast':
                    a0 = strip(a0[2])
                if a0[0] == 'cindex':
                    base = mask_values(a0[1])
                    lanes.append(base[a0[2]] if base and a0[2] < 4 else None)
                elif a0[0] == 'index':
                    base = mask_values(a0[1])
                    k = const_eval(f.local_term(a0[2]))
                    lanes.append(base[k] if base and k is not None and k < 4 else None)
                else:
                    lanes.append(const_eval(a0))
            return lanes if all(v is not None for v in lanes) else None
        return None
    groups = []
    for bi, blk in enumerate(f.blocks):
        for si, st in enumerate(blk['stmts']):
            rv = st['rv']
            if rv['k'] == 'agg' and rv.get('agg') == 'array' and len(rv['ops']) == 2 and not blk['cleanup']:
                t = f._def_term(('assign', bi, si, rv, []), 0, frozenset())
                vals = [mask_values(e) for e in strip(t)[1]] if strip(t)[0] == 'array' else [None]
                if all(v is not None for v in vals):
                    groups.append(vals)
    ctx.check(groups == [[[1, 2, 4, 8], [16, 32, 64, 128]]], rule, 'group-order', f.loc(), 'group 0 tests bits 0..3, group 1 bits 4..7',
              'the SSE decoder does not enumerate the low-nibble masks first and the high-nibble masks second: %s' % groups)
    bl = [c for c in f.calls() if short(c.callee) == '_mm_blendv_ps']
    okb = False
    for c in bl:
        a, b, m = strip(c.arg_term(0)), strip(c.arg_term(1)), c.arg_term(2)
        va = const_eval(a[2][0]) if a[0] == 'call' and a[1].endswith('_mm_set1_ps') else None
        vb = const_eval(b[2][0]) if b[0] == 'call' and b[1].endswith('_mm_set1_ps') else None
        cmpz = any(x[0] == 'call' and x[1].endswith('_mm_cmpeq_epi32') and any(y[0] == 'call' and y[1].endswith('_mm_setzero_si128') for y in walk(x)) for x in walk(m))
        andm = any(x[0] == 'call' and x[1].endswith('_mm_and_si128') for x in walk(m))
        okb = va is not None and vb is not None and f32_of_bits(va) == 1.0 and f32_of_bits(vb) == -1.0 and cmpz and andm
    ctx.check(okb, rule, 'select', bl[0].loc() if bl else f.loc(), 'blend(+1, -1, (byte & mask) == 0): cleared bit -> -1.0, set bit -> +1.0', 'the SSE decoder does not select -1.0 for cleared bits and +1.0 for set bits')
    stc = [c for c in f.calls() if short(c.callee) in ('_mm_store_ps', '_mm_storeu_ps')]
    oks = False
    for c in stc:
        p = strip(c.arg_term(0))
        if p[0] == 'call' and p[1].endswith('::add'):
            terms = {}
            lin = linear_form(p[2][1], terms)
            if lin is not None and lin.get(None, 0) == 0:
                atoms = {k: v for k, v in lin.items() if k is not None}
                by_coef = {v: terms[k] for k, v in atoms.items()}
                if len(atoms) == 2 and set(by_coef) == {8, 4}:
                    def enum_index(t, over_bytes):
                        t0 = strip(t)
                        is_idx = t0[0] == 'field' and t0[2] == '0' and any(x[0] == 'call' and x[1].endswith('Iterator::next') for x in walk(t0)) \
                            and any(x[0] == 'call' and x[1].endswith('Iterator::enumerate') for x in walk(t0))
                        from_bytes = any(x[0] == 'call' and x[1].endswith('::as_bytes') for x in walk(t0))
                        return is_idx and from_bytes == over_bytes
                    oks = enum_index(by_coef[8], True) and enum_index(by_coef[4], False)
    ctx.check(oks, rule, 'store-offset', stc[0].loc() if stc else f.loc(), 'stored at byte*8 + i*4', 'the SSE decoder does not store each group of 4 lanes at byte*8 + i*4')


def run(ctx):
    ctx.explanation = EXPL
    ctx.trusted = ['rustc nightly MIR construction', 'count_ones/count_zeros, shifts and f32::is_sign_positive semantics', 'core::arch SSE intrinsics']
    ctx.assumptions = ['x86_64 little-endian host']
    ctx.not_analysed = ['from_slice_neon / to_vec_neon (aarch64 only, not compiled on this host)']
    r_linear(ctx)
    r_declared_dimension(ctx)
    r_dot(ctx)
    r_iter(ctx)
    r_pack_bits(ctx)
    r_len(ctx)
    r_mask(ctx)
    simd.r_feature(ctx)
    n = vec_rules.trunc_rule(ctx, 'R-TRUNC')
    ctx.floor('R-TRUNC', 'to_vec sites on stored leaves', n, 4)
    # the quantised cosine distance is computed from the stored header (norm): a metric change between quantised metrics is
    # one of the histories, so C18's re-encoding clauses are re-evaluated here
    from props import C18
    C18.rules(ctx)
    # what is read back is what the item API stored: the caller's vector, encoded as is, with the header derived from it
    from props import C19
    C19.r_stored_leaf(ctx)
