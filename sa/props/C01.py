"""C01 -- every tree of a built index covers exactly the live items, each once."""
import forest_rules as fr
import pairing
from props import C05

EXPL = ("The global invariant (a recursive structure over unbounded histories with random splits) is not decidable by a static "
        "argument in reach; decided are local disciplines each of whose breach corrupts the forest: (R-KIND) bounded interprocedural "
        "kind inference: no tree-node id reaches an item-id sink (Key::item, NodeId::item, leaf lookups) or vice versa "
        "(TmpNodes::put/remove/remap, Key::tree, NodeId::tree, tree lookups), with `n.item` refined by the mode tests that "
        "edge-dominate the use; (R-LINK) at every split construction the left/right child derives from the Left/Right side only; "
        "(R-ARM-PURITY) the arm handling one child reads only that child's link; (R-SYMMETRY) operations applied to left-derived "
        "values are applied to right-derived ones; (R-FRESH) every fresh id is stored under and linked (returned / pushed to roots); "
        "(R-BITMAP) rewritten buckets derive from the old bucket by `|= to_insert` / `-= to_delete` under their own id; (R-STALE) no "
        "lookup of a possibly deleted item turns absence into an error during a build; (R-FOREST-WIPE) the single-bucket shortcut "
        "wipes the whole tree range first; (R-META-ROOTS/ITEMS) the metadata publishes the updated roots vector and the live item "
        "scan; (R-TMP-APPLY) every TmpNodesReader has its deletes and inserts applied, skipping removed ids and applying remaps; "
        "(P-SELECT) the batch selector partitions its input (nothing dropped or duplicated). NOT decided: that these compose into the "
        "global invariant for all histories; remap semantics across batches; changing split_after between builds."
        " Added during the build round: (R-BATCH-SETS) the removal pass receives every updated id, the insertion pass live & updated, a tree created from scratch every live id; (R-FULL-SCAN) no truncating or filtering adaptor between an LMDB cursor and its consumer in the writer / parallel / upgrade code; (R-TMP-APPLY, applied-before-next-round) pending nodes are written back before the trees are snapshotted again; (R-SYMMETRY, walkers) the recursive tree deletion visits both children unless a child's own link was seen not to be a tree; (R-KIND, unguarded) a link's id reaches a tree-id sink only under a test of that link's own mode. The C06 staleness rules are re-evaluated as a premise.")


def run(ctx):
    ctx.explanation = EXPL
    ctx.trusted = ['rustc nightly MIR construction', 'roaring set algebra', 'heed/LMDB']
    ctx.assumptions = ['split_after >= 1']
    rules(ctx)
    # the forest describes the *live* items only if every change to the item store is seen by the next build: the
    # staleness protocol (C06 rule set) is a premise of "after every successful build" and is re-evaluated here
    from props import C06
    C06.rules(ctx)


def rules(ctx):
    fr.r_kind(ctx)
    n, _ = pairing.check_pairing(ctx, 'R-LINK')
    ctx.floor('R-LINK', 'split-node constructions in the writer', n, 3)
    fr.r_arm_purity(ctx)
    fr.r_symmetry(ctx)
    fr.r_relink(ctx)
    fr.r_push_sorted(ctx)
    fr.r_batch_sets(ctx)
    fr.r_full_scan(ctx)
    fr.r_merge(ctx)
    fr.r_partition(ctx)
    fr.r_fresh(ctx)
    fr.r_bitmap(ctx)
    fr.r_stale(ctx)
    fr.r_forest_wipe(ctx)
    fr.r_meta_roots(ctx)
    C05.r_meta_items(ctx)
    fr.r_tmp_apply(ctx)
    fr.r_selector(ctx)
    # every pending item is routed: the batches cover the whole candidate set (remainder looped over or passed on)
    fr.r_worklist(ctx)
    # "followed by a successful build": Ok must mean that no storage error and no cancellation was swallowed on the way --
    # a poll answered `true` that merely stops a loop leaves a half-updated forest behind an Ok (C10's error discipline)
    from props import C10
    C10.r_err(ctx)
    C10.r_cancel(ctx)
