"""C03 -- any-budget, filtered search results are well-formed and budget-monotone."""
import reader_rules as rr
from props import C19

EXPL = ("Decided on the MIR of the single traversal function (found by role: the Reader method calling D::pq_distance) "
        "and of the two query entry points: (S4-FILTER) every id entering the candidate list is an intersection with the "
        "caller's filter, sits under the no-filter branch, or is guarded by candidates.contains(id); (S1-LOOP) the loop's only "
        "exits are budget reached, queue empty, error; (S5-BUDGET) the budget value is read only by the loop condition and the "
        "pop order is the total order of (OrderedFloat<f32>, NodeId) -- so a larger budget only extends the visited prefix; "
        "(S5-PROVENANCE) budget = (search_k or count x n_trees) x (oversampling or D::DEFAULT_OVERSAMPLING); (S10-OVERFLOW) "
        "computed with saturating arithmetic only; (S7/S8/S9) candidates are sorted+deduplicated, each scored with "
        "D::built_distance against its live leaf fetched in the caller's transaction, popped from a min-first "
        "BinaryHeap<Reverse<(OrderedFloat<f32>, id)>>, at most min(count, candidates) of them, each (id, normalized distance) "
        "from one heap entry; (S11-ENTRY) by_item and by_vector delegate to the same traversal, unknown id => Ok(None); "
        "(R-HEADER) per metric the query path reads only header fields that new_header derives from the vector and that the "
        "build-time preprocess does not rewrite (by_item == by_vector); (R-GATE) wrong-length vectors are rejected before any "
        "work. C11's structural clauses (SIMD lane pairing/tiling, dispatch, formula shapes) are re-evaluated by this check too. NOT decided: numerical truth of distances within rounding (C11); forest completeness (C01).")


def run(ctx):
    ctx.explanation = EXPL
    ctx.trusted = ['rustc nightly MIR construction', 'std BinaryHeap / ordered_float total order', 'roaring bitmap & and contains']
    F = ctx.F
    tvs = rr.traversal(F)
    if not ctx.need(len(tvs) >= 1, 'S1-LOOP', 'traversal function (Reader method calling D::pq_distance)'):
        return
    for f in tvs:
        tv = rr.Trav(ctx, f)
        if not ctx.need(tv.pop is not None and tv.dedup is not None, 'S1-LOOP', 'queue.pop() and candidates.dedup() in ' + f.path):
            continue
        rr.r_filter(ctx, tv)
        budget = rr.r_loop(ctx, tv)
        rr.r_budget(ctx, tv, budget)
        rr.r_split_arm(ctx, tv)
        rr.r_seed_roots(ctx, tv)
        rr.r_scoring(ctx, tv)
    rr.r_entry_points(ctx)
    rr.r_header_discipline(ctx)
    C19.r_gate(ctx)
    # "each carrying its true distance": C11's structural clauses (kernel shape, dispatch, formula shapes) are re-checked here
    from props import C11
    C11.structural(ctx)
    # "no deleted item is returned", "results come from the index as built": the forest and staleness premises
    import premises
    premises.forest(ctx)
    import rules as _rules
    ctx.floor('R-SETTER', 'option setters', _rules.r_setters(ctx, ('reader::QueryBuilder',)), 3)
