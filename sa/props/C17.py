"""C17 -- upgrading an old database preserves its whole content."""
import paths
import schema
from facts import strip, show, walk, const_eval, place_str
from rules import db_ops, key_info, same, root, heed_db_call, loop_every_iteration, sp

EXPL = ("Decided on the MIR of the two public upgrade entry points: (U1) the old kind enum has discriminants "
        "{Item=0, Tree=1, Metadata=2} and its TryFrom<u8> table agrees; (U2) the three old->new kind tables (key, left child, "
        "right child) extracted from the assignments to the `.mode` fields and their controlling discriminant edges are "
        "Item->Item, Tree->Tree, Metadata->Metadata (key: id 0 -> Metadata, id 1 -> Updated), identical for both children; "
        "(U3) every write goes to the destination database with the caller's write transaction under the rewritten key, "
        "every read comes from the source database: items as raw bytes, tree nodes re-encoded after child re-tagging, "
        "metadata with distance = Cosine::name(), one unit `Updated` key per element of the old pending set (put on every "
        "iteration, key id = the element); the destination is cleared first; no delete; (U4) the 0.5->0.6 step loops over "
        "0..=65535, its only write is put(Key::version(i)) dominated by get(Key::metadata(i)).is_some() for the same i, "
        "and the version written is built from the crate's own version constants. NOT decided: that real 0.4 data decodes.")


def controlling_conds(f, b):
    return [(s, e) for s, x, e in paths.controlling_conds(f, b)]


def old_mode_of(e):
    """(place text of the old mode, old discriminant values) when the edge tests try_from(discr(P.mode) as u8)"""
    if e[0] != 'disc':
        return None
    for s in walk(e[1]):
        if s[0] == 'call' and s[1].endswith('TryFrom::try_from') and s[2]:
            a = strip(s[2][0])
            for d in walk(a):
                if d[0] == 'discr':
                    return (show(d[1]).replace('*', ''), tuple(e[2]))
    return None


def mode_tables(ctx, f):
    """{target place: {(old value, item value|None): new variant}}"""
    tables = {}
    for bi, blk in enumerate(f.blocks):
        if blk['cleanup']:
            continue
        for si, st in enumerate(blk['stmts']):
            p = st['place']
            if not (p['p'] and p['p'][-1]['k'] == 'field' and p['p'][-1]['n'] == 'mode'):
                continue
            tgt = show(f.place_term({'l': p['l'], 'p': p['p'][:-1]})).replace('*', '')
            rv = st['rv']
            t = f.term(rv['o']) if rv['k'] == 'use' else f._def_term(('assign', bi, si, rv, []), 0, frozenset())
            alts = []
            # `x?` on a helper's Result (virtually inlined): look at the Ok(..) definitions of the phi
            unwrapped = False
            while t[0] in ('try', 'ref', 'deref') or (t[0] == 'field' and t[2] == '0' and t[1][0] == 'downcast'):
                t = t[1] if t[0] != 'field' else t[1][1]
                unwrapped = True
                if t[0] == 'call' and t[1].endswith('Try::branch') and t[2]:
                    t = t[2][0]
            if t[0] == 'agg' and t[1].endswith('NodeMode'):
                alts.append((t[2], bi))
            elif t[0] == 'phi':
                for d in f.defs().get(t[1], []):
                    if d[-1]:
                        continue
                    dt = f._def_term(d, 0, frozenset([t[1]]))
                    if dt[0] == 'agg' and dt[1].endswith('result::Result'):
                        if dt[2] != 'Ok':
                            continue
                        dt = strip(dt[3][0][1])
                    elif dt[0] == 'call' and dt[1].endswith('FromResidual::from_residual'):
                        continue
                    if dt[0] == 'agg' and dt[1].endswith('NodeMode'):
                        alts.append((dt[2], d[1]))
                    else:
                        alts.append(('?' + show(dt), d[1]))
            else:
                alts.append(('?' + show(t), bi))
            for new, blk_i in alts:
                old = None
                item = None
                for s, e in controlling_conds(f, blk_i):
                    om = old_mode_of(e)
                    if om:
                        if old is None and om[0].replace('(', '').replace(')', '').startswith(tgt.replace('(', '').replace(')', '')):
                            old = om
                            break
                    elif e[0] == 'disc' and show(e[1]).endswith('node.item') and e[2] and item is None:
                        item = tuple(e[2])
                tables.setdefault(tgt, {})[(old, item)] = new
    return tables


def child_loop_variable(f):
    """text of the loop variable of `for child in [&mut <split>.left, &mut <split>.right]` (as the evaluator prints the place
    `(*child)`), or None"""
    for c in f.calls():
        if not c.callee.endswith('Iterator::next'):
            continue
        for x in walk(c.arg_term(0)):
            if x[0] != 'array' or len(x[1]) != 2:
                continue
            ends = []
            for e in x[1]:
                e0 = strip(e)
                while e0[0] in ('ref', 'deref'):
                    e0 = strip(e0[1])
                ends.append(e0[2] if e0[0] == 'field' else None)
            bases = []
            for e in x[1]:
                e0 = strip(e)
                while e0[0] in ('ref', 'deref'):
                    e0 = strip(e0[1])
                bases.append(show(e0[1]) if e0[0] == 'field' else None)
            if sorted(map(str, ends)) != ['left', 'right'] or bases[0] != bases[1]:
                continue
            d = c.dest['l']
            for blk in f.blocks:
                for st in blk['stmts']:
                    rv = st['rv']
                    if rv['k'] == 'use' and rv['o'].get('k') in ('copy', 'move') and rv['o']['place']['l'] == d and \
                            [q.get('n') for q in rv['o']['place']['p']] == ['Some', '0'] and not st['place']['p']:
                        t = show(f.place_term({'l': st['place']['l'], 'p': [{'k': 'deref'}]}))
                        return t.replace('*', '').replace('(', '').replace(')', '')
    return None


def r_tables(ctx):
    F = ctx.F
    rule = 'U2'
    ref = schema.reference()
    f = F.fn('upgrade::cosine_from_0_4_to_0_5')
    if not ctx.need(f is not None, rule, 'upgrade::cosine_from_0_4_to_0_5'):
        return None
    # U1
    cands = [k for k in F.adts if k.startswith('upgrade::') and k.endswith('::OldNodeMode')]
    a = F.adts.get(cands[0]) if len(cands) == 1 else None
    if ctx.need(a is not None, 'U1', 'OldNodeMode'):
        got = {v['name']: int(v['discr']) for v in a['variants']}
        ctx.check(got == ref['old_node_mode'], 'U1', 'OldNodeMode/discriminants', '', '%s' % got,
                  'the v0.4 kind enum has discriminants %s; the v0.4 layout is %s' % (got, ref['old_node_mode']))
        tf = None
        for p, g in F.fns.items():
            if 'OldNodeMode' in p and p.endswith('::try_from'):
                tf = g
        if tf is None:
            # any byte -> old kind conversion of the upgrade module (`from_raw(u8) -> Option<OldNodeMode>`, ...)
            cands = [g for p, g in F.fns.items() if p.startswith('upgrade::') and g.kind in ('Fn', 'AssocFn') and g.arg_count == 1
                     and g.local_ty(1) == 'u8' and 'OldNodeMode' in g.ret_ty()]
            tf = cands[0] if len(cands) == 1 else None
        if ctx.need(tf is not None, 'U1', 'TryFrom<u8> for OldNodeMode'):
            from props.C16 import enum_table
            table = enum_table(tf)
            want = {v: k for k, v in ref['old_node_mode'].items()}
            ctx.check(table == {i: want.get(i, 'Err') for i in range(0, 8)} | {255: 'Err'}, 'U1', 'OldNodeMode/try_from', tf.loc(), '%s' % {k: v for k, v in table.items() if v != 'Err'},
                      'TryFrom<u8> for OldNodeMode maps %s; v0.4 layout %s' % (table, ref['old_node_mode']))
    old = ref['old_node_mode']
    inv = {v: k for k, v in old.items()}
    # finite-domain evaluation (sa/enumeval.py): for every old kind byte (and, for metadata-kind keys, every id class) which
    # NodeMode is assigned to the key / the left link / the right link.  Independent of how the mapping is spelled
    # (nested matches, helper functions, try_from + map_err, ...).
    import enumeval
    nm = F.adts.get('node_id::NodeMode')
    if not ctx.need(nm is not None, rule, 'NodeMode'):
        return f
    new_name = {int(v['discr']): v['name'] for v in nm['variants']}

    def table(P, with_item):
        """P is a path suffix ('.node', '.left', '.right'): the key's / the link's NodeId wherever it is held"""
        out = {}
        for v in sorted(inv) + [max(inv) + 1]:
            for w in ((0, 1, 2) if with_item and inv.get(v) == 'Metadata' else (None,)):
                enumeval.reset()
                assume = {P + '.mode': v}
                if w is not None:
                    assume['.node.item'] = w
                ev = enumeval.Eval(F, f, assume=assume, watch=lambda t, P=P: t.endswith(P + '.mode') or ('.' + t) == P + '.mode').run()
                got = set()
                for k2, vals in ev.assigned.items():
                    if vals is None:
                        got.add('?')
                    else:
                        got |= {new_name.get(x, x) for x in vals}
                if with_item:
                    # keys rebuilt with a constructor instead of being re-tagged in place: the kind of the key of every put
                    # that can execute under this assumption
                    for g0, c0, op0, w0, k0 in db_ops(F, [f]):
                        if op0 == 'put' and k0 is not None and c0.bb in ev.reached:
                            ki = key_info(c0.arg_term(k0))
                            if ki and ki[0] in ('item', 'tree', 'metadata', 'updated', 'version'):
                                got.add(ki[0].capitalize())
                if got:
                    out[(inv.get(v, v), w)] = '/'.join(sorted(map(str, got)))
        return out
    kt = table('.node', True)
    want_key = {('Item', None): 'Item', ('Tree', None): 'Tree', ('Metadata', 0): 'Metadata', ('Metadata', 1): 'Updated'}
    ctx.check(kt == want_key, rule, 'key-kind-table', f.loc(), 'key: %s' % kt,
              'the key kind table of the 0.4->0.5 upgrade is %s; it must be %s' % (kt, want_key))
    want_child = {('Item', None): 'Item', ('Tree', None): 'Tree', ('Metadata', None): 'Metadata'}
    lt = table('.left', False)
    rt = table('.right', False)
    if not lt and not rt:
        # both links converted by one loop `for child in [&mut split.left, &mut split.right] { child.mode = .. }`: the body is
        # evaluated once for the loop variable; the array must name the left and the right link, each once
        lv = child_loop_variable(f)
        if lv is not None:
            lt = rt = table(lv, False)
    ctx.check(lt == want_child, rule, 'left-child-table', f.loc(), 'left: %s' % lt, 'left child kinds are re-tagged by %s (from the left child\'s own old kind); expected %s' % (lt, want_child))
    ctx.check(rt == want_child, rule, 'right-child-table', f.loc(), 'right: %s' % rt, 'right child kinds are re-tagged by %s (from the right child\'s own old kind); expected %s' % (rt, want_child))
    return f


def db_params(f):
    """(read database, write database, write txn) parameters by type and position: the database following the RoTxn
    parameter is the source, the one following the RwTxn parameter the destination"""
    rdb = wdb = wtx = None
    prev = None
    for l in f.arg_locals():
        ty = f.local_ty(l)
        if 'heed::Database<' in ty:
            if prev == 'ro' and rdb is None:
                rdb = l
            elif prev == 'rw' and wdb is None:
                wdb = l
        if 'RoTxn' in ty:
            prev = 'ro'
        elif 'RwTxn' in ty:
            prev = 'rw'
            wtx = l
        elif 'heed::Database<' not in ty:
            prev = None
    return rdb, wdb, wtx


def r_writes(ctx, f):
    F = ctx.F
    rule = 'U3'
    rdb, wdb, wtx = db_params(f)
    if not ctx.need(wdb and rdb and wtx, rule, 'parameters (rtxn, read database, wtxn, write database)'):
        return
    ops = db_ops(F, F.family(f))
    puts = [(g, c, op) for g, c, op, w, k in ops if op == 'put']
    ctx.floor(rule, 'puts of the 0.4->0.5 upgrade', len(puts), 4)
    kinds = {}
    for g, c, op, w, k in ops:
        dbr = root(c.arg_term(0))
        key = 'cosine_from_0_4_to_0_5/%s@L?' % op
        if w:
            good = dbr[0] == 'arg' and dbr[1] == wdb and root(c.arg_term(1))[0] == 'arg' and root(c.arg_term(1))[1] == wtx
            ctx.check(good, rule, 'write-target/%s#%d' % (op, len(kinds)), c.loc(), 'writes the destination database with the caller wtxn',
                      '`%s` in the upgrade writes to %s instead of the destination database' % (op, show(c.arg_term(0))))
            kinds[len(kinds)] = op
            if op not in ('put', 'clear'):
                ctx.bad(rule, 'unexpected-write/' + op, c.loc(), 'the upgrade performs `%s`: it must only clear the destination first and then put' % op)
        else:
            good = dbr[0] == 'arg' and dbr[1] == rdb
            ctx.check(good, rule, 'read-source/%s' % op, c.loc(), 'reads the source database', '`%s` in the upgrade reads %s instead of the source database' % (op, show(c.arg_term(0))))
    # clear first
    clears = [c for g, c, op, w, k in ops if op == 'clear']
    ctx.check(len(clears) == 1 and all(f.dominates(clears[0].bb, c.bb) for g, c, op in puts if g is f), rule, 'clear-first', clears[0].loc() if clears else f.loc(),
              'destination cleared before any put', 'the destination database is not cleared before the puts')
    # classify puts by their value
    seen = set()
    for g, c, op in puts:
        kt = strip(c.arg_term(2))
        good_key = root(kt)[0] == 'var' and root(kt)[2] == 'key'
        ki0 = key_info(kt)
        if not good_key and ki0 is not None and ki0[0] in ('item', 'tree', 'metadata', 'updated'):
            # the key rebuilt with a constructor from the parts of the source key (instead of re-tagged in place)
            def from_source(t, fld):
                t0 = strip(t)
                return t0[0] == 'field' and t0[2] == fld and any(x[0] == 'call' and x[1].endswith('Iterator::next') and any(
                    y[0] == 'arg' and y[1] == rdb for y in walk(x)) for x in walk(t0))
            okidx = from_source(ki0[1], 'index')
            if ki0[0] in ('item', 'tree'):
                good_key = okidx and from_source(ki0[2], 'item')
            elif ki0[0] == 'metadata':
                good_key = okidx
            else:
                good_key = okidx   # the id of an Updated key is checked below (updated-key-id)
        ctx.check(good_key, rule, 'put-key#%d' % len(seen), c.loc(), 'written under the re-tagged source key', 'a put of the upgrade uses another key than the re-tagged source key: %s' % show(kt))
        v = c.arg_term(3)
        vs = show(v)
        if 'promoted' in vs or strip(v) == ('tuple', []):
            cls = 'updated-unit'
        elif any(s[0] == 'call' and s[1].endswith("Lazy::<'a, C>::decode") for s in walk(v)) and any(s[0] == 'call' and s[1].endswith('::remap') for s in walk(v)) and 'metadata' not in vs:
            cls = 'item-raw'
        elif 'metadata' in vs:
            cls = 'metadata'
        else:
            cls = 'tree-node'
        seen.add(cls)
        if cls == 'updated-unit':
            # executed on every iteration of the loop over the decoded bitmap, with key.node.item = the element
            nxt = [x for x in f.calls() if x.callee.endswith('Iterator::next') and any(s[0] == 'call' and 'RoaringBitmap' in (f.call_at(s[3]).resolved if f.call_at(s[3]) else '') for s in walk(x.arg_term(0)))]
            nxt = [x for x in f.calls() if x.callee.endswith('Iterator::next') and c.bb in f.reachable(x.target) and x.bb in f.reachable(c.target) and x.bb != c.bb]
            def recv_ty(x):
                a0 = x.args[0] if x.args else None
                return f.local_ty(a0['place']['l']) if a0 and a0.get('k') in ('copy', 'move') else ''
            # the loop over the decoded bitmap (by the type of the iterator: not any loop over parts of a decoded node)
            inner = [x for x in nxt if any(s[0] == 'call' and s[1].endswith('::decode') for s in walk(x.arg_term(0))) and 'roaring' in recv_ty(x).lower()]
            okl = bool(inner) and all(loop_every_iteration(f, x, c.bb) for x in inner)
            ctx.check(okl, rule, 'updated-one-per-element', c.loc(), 'one Updated key is put for every element of the old pending set',
                      'the loop over the old pending-updates set does not put one key per element')
            # ... for every pending-updates entry: the loop is entered whenever the entry is of that kind -- no further condition
            # (state carried from other entries, counters, the content of other keys) may skip the conversion of a pending set
            extra = []
            # the loop over the source entries, and the locals it carries from one entry to the next
            outer = [x for x in nxt if x not in inner and 'heed' in recv_ty(x)]
            body = set()
            for x in outer:
                body |= set(paths.natural_loop(f, x.bb))
            carried = set()
            for l, ds in f.defs().items():
                blocks = {d[1] for d in ds}
                if body and (blocks & body) and (blocks - body) and l > f.arg_count:
                    carried.add(l)
            for x in inner:
                for s0, x0, e in paths.controlling_conds(f, x.bb):
                    if not paths.edge_dominates(f, s0, x0, x.bb):
                        continue
                    # a condition on the entry itself (its kind, its id, the results of decoding it) is what selects the arm;
                    # anything read from a local that survives from one entry to the next is foreign state
                    used = {y[1] for y in walk(e[1]) if y[0] in ('var', 'phi') and isinstance(y[1], int)}
                    if used & carried:
                        extra.append(show(e[1])[:80])
            ctx.check(not extra, rule, 'updated-unconditional', c.loc(), 'the pending set of every index is converted (conditions: entry kind and id only)',
                      'the conversion of an old pending-updates entry also depends on %s: the updated marks of some indexes would be dropped' % extra[:2])
            assigns = []
            for bi, blk in enumerate(f.blocks):
                for si, st in enumerate(blk['stmts']):
                    p = st['place']
                    if p['p'] and p['p'][-1]['k'] == 'field' and p['p'][-1]['n'] == 'item' and len(p['p']) >= 2 and p['p'][-2].get('n') == 'node':
                        t = f.term(st['rv']['o']) if st['rv']['k'] == 'use' else ('unknown',)
                        assigns.append((bi, t))
            oka = any(inner and paths.mentions_call(t, inner[0].bb) and f.dominates(bi, c.bb) for bi, t in assigns)
            if not oka and inner:
                kiu = key_info(c.arg_term(2))
                oka = kiu is not None and kiu[0] == 'updated' and kiu[2] is not None and paths.mentions_call(kiu[2], inner[0].bb)
            ctx.check(oka, rule, 'updated-key-id', c.loc(), 'key id = the element of the pending set', 'the Updated key is not written under the id of the pending element')
    ctx.check(seen == {'item-raw', 'tree-node', 'metadata', 'updated-unit'}, rule, 'put-classes', f.loc(), 'puts: %s' % sorted(seen),
              'the upgrade no longer writes the four kinds of entries (items raw, tree nodes, metadata, updated marks): %s' % sorted(seen))
    # metadata.distance = Cosine::name()
    okd = False
    meta_puts = [c for g, c, op in puts if 'metadata' in show(c.arg_term(3))]
    for bi, blk in enumerate(f.blocks):
        for st in blk['stmts']:
            p = st['place']
            if p['p'] and p['p'][-1]['k'] == 'field' and p['p'][-1]['n'] == 'distance' and st['rv']['k'] in ('use', 'ref'):
                t = f.term(st['rv']['o']) if st['rv']['k'] == 'use' else f.place_term(st['rv']['place'])
                cs = [s for s in walk(t) if s[0] == 'call' and s[1].endswith('Distance::name')]
                if cs:
                    c0 = f.call_at(cs[0][3])
                    okd = ('Cosine' in c0.resolved or 'Cosine' in c0.gargs) and bool(meta_puts) and all(f.dominates(bi, mp.bb) for mp in meta_puts)
    ctx.check(okd, rule, 'metadata-renamed', f.loc(), 'metadata.distance = Cosine::name()', 'the upgraded metadata is not renamed to Cosine::name()')


def r_v06(ctx):
    F = ctx.F
    rule = 'U4'
    f = F.fn('upgrade::from_0_5_to_0_6')
    if not ctx.need(f is not None, rule, 'upgrade::from_0_5_to_0_6'):
        return
    ops = db_ops(F, F.family(f))
    writes = [(c, op, k) for g, c, op, w, k in ops if w]
    gets = [(c, op, k) for g, c, op, w, k in ops if op == 'get']
    ctx.check(len(writes) == 1 and writes[0][1] == 'put', rule, 'only-write', f.loc(), 'the only write is one put', 'the 0.5->0.6 upgrade performs other writes than the version put: %s' % [w[1] for w in writes])
    if not writes or not gets:
        ctx.need(False, rule, 'get/put of from_0_5_to_0_6')
        return
    c, op, k = writes[0]
    ki = key_info(c.arg_term(k))
    g0 = gets[0][0]
    gi = key_info(g0.arg_term(gets[0][2]))
    good = ki is not None and ki[0] == 'version' and gi is not None and gi[0] == 'metadata' and same(ki[1], gi[1])
    ctx.check(good, rule, 'version-for-same-index', c.loc(), 'put(Key::version(i)) / get(Key::metadata(i)) on the same i', 'the version record is not written under the index whose metadata was probed')
    # dominated by is_some == true
    dom = False
    dom_edge = []
    for s, x, e in paths.controlling_conds(f, c.bb):
        if e[0] == 'bool' and strip(e[1])[0] == 'call':
            n = strip(e[1])[1]
            if paths.mentions_call(e[1], g0.bb) and ((n.endswith('::is_some') and e[2]) or (n.endswith('::is_none') and not e[2])):
                dom = paths.edge_dominates(f, s, x, c.bb)
                if dom:
                    dom_edge.append((s, x))
    if not dom:
        # `match get(..) { Ok(Some(_)) => put, Ok(None) => (), Err(e) => .. }` / `if let Some(_) = get(..)? { put }`: the Some
        # edge of the discriminant of the looked-up Option
        for s, x, e in paths.controlling_conds(f, c.bb):
            if e[0] != 'disc' or not paths.mentions_call(e[1], g0.bb) or not paths.edge_dominates(f, s, x, c.bb):
                continue
            d0 = strip(e[1])
            subj = strip(d0[1]) if d0[0] == 'discr' else d0
            # the Option is the Ok payload of the get: `.0` of a downcast (Ok / Continue) of the call (possibly through `?`)
            is_opt = subj[0] in ('field', 'try') and not (subj[0] == 'call')
            if subj[0] == 'field' and strip(subj[1])[0] == 'downcast' and strip(subj[1])[2] in ('Ok', 'Continue'):
                is_opt = True
            elif subj[0] == 'try':
                is_opt = True
            else:
                is_opt = False
            vals = list(e[2])
            if not vals and len(e) > 3 and e[3]:
                listed = [int(v) for v, _t in paths.switch_at(f, s)['targets']]
                vals = [v for v in (0, 1) if v not in listed]
            if is_opt and vals == [1]:
                dom = True
                dom_edge.append((s, x))
    if dom:
        # ... and on *every* index that has metadata: from the "metadata present" edge every path to the next index (or to
        # the successful end) writes the record -- no further condition (pending updates, metric name, ..) may skip it
        guard_edges = dom_edge
        hdrs = [h for h in f.dominators().get(c.bb, ()) if c.bb in paths.natural_loop(f, h)]
        goals = [b for b, k, t in paths.ret_assigns(f) if k in ('ok', 'call', 'other')] + hdrs
        every = bool(guard_edges) and all(paths.must_pass(f, x, goals, [c.bb]) for s, x in guard_edges[-1:])
        ctx.check(every, rule, 'every-index-with-metadata', c.loc(), 'the record is written for every index whose metadata exists',
                  'an index that has metadata can be skipped by the 0.5->0.6 upgrade (a further condition guards the version put): it gets no version record')
    ctx.check(dom, rule, 'only-indexes-with-metadata', c.loc(), 'guarded by metadata presence', 'the version record is written regardless of (or contrary to) the presence of metadata')
    # the probed / stamped index ranges over every u16
    from rules import every_u16
    okr = gi is not None and every_u16(f, gi[1])
    ctx.check(okr, rule, 'all-indexes', f.loc(), 'loops over 0..=65535', 'the 0.5->0.6 upgrade does not visit every index 0..=65535')
    # database roles
    rdb, wdb, _wtx = db_params(f)
    ctx.check(root(c.arg_term(0))[1:2] == (wdb,) and root(g0.arg_term(0))[1:2] == (rdb,), rule, 'db-roles', c.loc(), 'reads source, writes destination', 'source/destination databases are mixed up')
    # the version value: Version{major: parse(MAJOR), minor: parse(MINOR), patch: parse(PATCH)}
    v = paths.agg_fields(c.arg_term(3), 'version::Version')
    okv = False
    if v:
        txt = {kx: show(tv) for kx, tv in v.items()}
        consts = {}
        for kx, tv in v.items():
            for s in walk(tv):
                if s[0] == 'const' and isinstance(s[2], str) and s[2].startswith('"'):
                    consts[kx] = s[2].strip('"')
        okv = set(consts) == {'major', 'minor', 'patch'} and all(consts[x].isdigit() for x in consts)
        ctx.note('version written by the upgrade: %s' % consts)
    ctx.check(okv, rule, 'version-value', c.loc(), 'Version{major, minor, patch} parsed from the crate version', 'the version record is not the crate version')


def run(ctx):
    ctx.explanation = EXPL
    ctx.trusted = ['rustc nightly MIR construction', 'heed LazyDecode/remap are views of the same bytes', 'spec/wire_format.json (v0.4 kinds)']
    ctx.assumptions = []
    f = r_tables(ctx)
    if f is not None:
        r_writes(ctx, f)
    r_v06(ctx)
