"""C16 -- the on-disk format stays readable."""
import paths
import schema
from facts import strip, show, walk, const_eval
from rules import sp

EXPL = ("Decided by wire-schema extraction (R-WIRE): for every in-crate heed codec the ordered byte-append events of the "
        "encoder (per enum variant / success path) and the scalar/composite reads of the decoder with the offsets of the "
        "slices they read (computed along the re-slicing chain) are lifted from the MIR into rows (field, width, endianness) "
        "and compared with the reference layout spec/wire_format.json: KeyCodec [index u16 BE, kind u8, id u32 BE, pad u8], "
        "PrefixCodec a prefix of it, NodeId::{to,from}_bytes [kind u8, id u32 BE] (5 bytes), NodeCodec per variant "
        "(tags 0/1/2; header bytes, vector bytes / roaring / left, right, normal) with decoder offsets equal to the cumulative "
        "encoder widths, MetadataCodec [name, 0, dimensions u32 BE, items_len u32 BE, roaring, roots native u32...], "
        "VersionCodec 3 x u32 BE. Also: NodeMode discriminants Metadata=0<Updated=1<Tree=2<Item=3 and its TryFrom<u8> table, "
        "the seven metric names, header struct sizes/fields/repr(C), the vector codec of each metric, native-endian element "
        "encoding of f32 vectors and root lists on both sides, and the quantised packer emitting exactly one native-endian "
        "u64 word per chunk of 64 components. A consistent change of encoder AND decoder (invisible to round-trip tests) "
        "differs from the reference and is reported. NOT decided: roaring's own serialisation; that the golden fixtures decode.")


def r_key(ctx):
    F = ctx.F
    rule = 'R-WIRE'
    ref = schema.reference()
    schema.check_key_encoder(ctx, rule)
    schema.check_prefix_agrees(ctx, rule)
    d = schema.find_codec(F, 'BytesDecode', 'key::KeyCodec')
    if ctx.need(d is not None, rule, 'KeyCodec::bytes_decode'):
        rows = schema.decoder_rows(F, d)
        good = len(rows) == 1
        got = []
        if good:
            off = 0
            got = [r[:4] for r in rows[0][2]]
            for (name, w, en), r in zip([tuple(x) for x in ref['key']], rows[0][2]):
                if name == '_padding':
                    continue
                if r[0] != name or r[1] != (off, ()) or r[2] != w or (w > 1 and r[3] != en):
                    good = False
                off += w
        ctx.check(good, rule, 'KeyCodec/decode', d.loc(), 'reads %s' % got, 'KeyCodec::bytes_decode reads %s; reference %s' % (got, ref['key']))
    a = F.adts.get('key::Key')
    # NodeId
    tb = F.fn('node_id::NodeId::to_bytes')
    fb = F.fn('node_id::NodeId::from_bytes')
    if ctx.need(tb is not None and fb is not None, rule, 'NodeId::{to,from}_bytes'):
        rows, size = schema.nodeid_to_bytes_rows(F, tb)
        want = [(0, 'mode', 1, '-'), (1, 'item', 4, 'BE')]
        ctx.check(rows == want and size == ref['node_id_size'], rule, 'NodeId/to_bytes', tb.loc(), 'rows %s size %s' % (rows, size),
                  'NodeId::to_bytes writes %s (size %s); reference [kind u8 @0, id u32 BE @1] (5 bytes)' % (rows, size))
        rrows, adv = schema.nodeid_from_bytes_rows(F, fb)
        wantr = [('mode', (0, ()), 1, '-'), ('item', (1, ()), 4, 'BE')]
        ctx.check(rrows == wantr and adv == ref['node_id_size'], rule, 'NodeId/from_bytes', fb.loc(), 'rows %s advance %s' % (rrows, adv),
                  'NodeId::from_bytes reads %s and advances by %s; reference [kind u8 @0, id u32 BE @1], 5 bytes' % (rrows, adv))


def r_node(ctx):
    F = ctx.F
    rule = 'R-WIRE'
    ref = schema.reference()
    e = schema.find_codec(F, 'BytesEncode', 'node::NodeCodec<D>')
    d = schema.find_codec(F, 'BytesDecode', 'node::NodeCodec<D>')
    if not ctx.need(e is not None and d is not None, rule, 'NodeCodec encode/decode'):
        return
    enc, unk = schema.encoder_rows(F, e)
    node_adt = F.adts.get('node::Node')
    vnames = [v['name'] for v in node_adt['variants']] if node_adt else []
    seen = {}
    for sel, rows in enc.items():
        # first selector is the discriminant of the encoded item
        vi = None
        for s in sel:
            if len(s) == 3 and s[1]:
                vi = s[1][0]
                break
        name = vnames[vi] if vi is not None and vi < len(vnames) else '?'
        seen[name] = rows
    for name, spec in ref['node'].items():
        rows = seen.get(name)
        want = [('tag', 1, spec['tag'])] + [tuple(r) for r in spec['rows']]
        ctx.check(rows is not None and [tuple(r) for r in rows] == want and not unk, rule, 'NodeCodec/encode/' + name, e.loc(), 'rows %s' % want,
                  'NodeCodec::bytes_encode writes %s for %s; reference %s' % (rows, name, want))
    drows = schema.decoder_rows(F, d)
    byvar = {}
    for b, payload, rows in drows:
        if payload[0] == 'agg':
            byvar[payload[2]] = (schema.tag_of_return(d, b), rows)
    for name, spec in ref['node'].items():
        got = byvar.get(name)
        good = got is not None and got[0] == spec['tag']
        desc = None
        if got:
            desc = (got[0], [r[:4] for r in got[1]])
            off_n, off_s = 1, ()
            for (fname, w, en), r in zip([tuple(x) for x in spec['rows']], got[1]):
                if r[0].split('.')[-1] != fname or r[1] != (off_n, off_s) or r[2] != w or r[3] != en:
                    good = False
                if isinstance(w, int):
                    off_n += w
                elif w == 'NodeId':
                    off_n += ref['node_id_size']
                elif w == 'H':
                    off_s = off_s + ('H',)
            good = good and len(got[1]) == len(spec['rows'])
        ctx.check(good, rule, 'NodeCodec/decode/' + name, d.loc(), 'tag %s, reads at the cumulative encoder offsets' % spec['tag'],
                  'NodeCodec::bytes_decode for %s: %s; reference tag %s rows %s' % (name, desc, spec['tag'], spec['rows']))
    # split_at(size_of::<D::Header>()) is what separates header and vector: covered by the 'H' offset above


def r_metadata(ctx):
    F = ctx.F
    rule = 'R-WIRE'
    ref = schema.reference()
    e = schema.find_codec(F, 'BytesEncode', 'metadata::MetadataCodec')
    d = schema.find_codec(F, 'BytesDecode', 'metadata::MetadataCodec')
    if not ctx.need(e is not None and d is not None, rule, 'MetadataCodec encode/decode'):
        return
    enc, unk = schema.encoder_rows(F, e)
    want = [tuple(r) for r in ref['metadata']]
    got = [[tuple(r) for r in rows] for rows in enc.values()]
    ctx.check(bool(got) and all(g == want for g in got) and not unk, rule, 'MetadataCodec/encode', e.loc(), 'rows %s' % want,
              'MetadataCodec::bytes_encode writes %s; reference %s' % (got[:1], want))
    drows = schema.decoder_rows(F, d)
    good = len(drows) == 1
    desc = None
    if good:
        rows = {r[0]: r for r in drows[0][2]}
        desc = [r[:4] for r in drows[0][2]]

        def sym(o):
            return o[1] if len(o) > 1 else ()
        try:
            dist, dims, items, roots = rows['distance'], rows['dimensions'], rows['items'], rows['roots']
            n = sym(dims[1])
            good = (dist[1] == (0, ()) and dist[2] == 'str'
                    and dims[1][0] == 0 and len(n) == 1 and 'from_bytes_until_nul' in n[0] and n[0].endswith('+1') and dims[2] == 4 and dims[3] == 'BE'
                    and items[1][0] == 8 and sym(items[1]) == n and items[2] == 'roaring' and items[3] == 'portable'
                    and roots[1][0] == 8 and len(sym(roots[1])) == 2 and sym(roots[1])[0] == n[0] and 'read_u32' in sym(roots[1])[1] and roots[2] == 'u32*')
            # the items length is the BE u32 at name+1+4 and bounds the bitmap slice
            it = items[4]
            lens = [s for s in walk(it) if s[0] == 'call' and s[1].endswith('read_u32')]
            if lens:
                lr = schema.read_row(F, d, lens[0])
                good = good and lr[0][0] == 4 and lr[0][1] == n and lr[2] == 'BE'
                rng = [s for s in walk(it) if s[0] == 'agg' and s[1].endswith('RangeTo')]
                # `cursor.split_at(items_len).0` bounds the bitmap slice just as `&cursor[..items_len]` does
                rng += [s for s in walk(it) if s[0] == 'field' and s[2] == '0' and strip(s[1])[0] == 'call' and strip(s[1])[1].endswith('split_at')
                        and any(q[0] == 'call' and q[1].endswith('read_u32') for q in walk(strip(s[1])[2][1]))]
                good = good and bool(rng)
            else:
                good = False
        except KeyError:
            good = False
    ctx.check(good, rule, 'MetadataCodec/decode', d.loc(), 'name\\0 | dims u32 BE | items_len u32 BE | roaring[items_len] | roots',
              'MetadataCodec::bytes_decode reads %s; reference %s' % (desc, ref['metadata']))
    # VersionCodec
    e = schema.find_codec(F, 'BytesEncode', 'version::VersionCodec')
    d = schema.find_codec(F, 'BytesDecode', 'version::VersionCodec')
    if ctx.need(e is not None and d is not None, rule, 'VersionCodec encode/decode'):
        enc, unk = schema.encoder_rows(F, e)
        want = [tuple(r) for r in ref['version']]
        got = [[tuple(r) for r in rows] for rows in enc.values()]
        ctx.check(got == [want] and not unk, rule, 'VersionCodec/encode', e.loc(), 'rows %s' % want, 'VersionCodec::bytes_encode writes %s; reference %s' % (got, want))
        drows = schema.decoder_rows(F, d)
        g = [r[:4] for r in drows[0][2]] if drows else None
        wantd = [('major', (0, ()), 4, 'BE'), ('minor', (4, ()), 4, 'BE'), ('patch', (8, ()), 4, 'BE')]
        ctx.check(g == wantd, rule, 'VersionCodec/decode', d.loc(), 'reads %s' % wantd, 'VersionCodec::bytes_decode reads %s; reference %s' % (g, wantd))
    # RoaringBitmapCodec
    e = schema.find_codec(F, 'BytesEncode', 'roaring::RoaringBitmapCodec')
    if ctx.need(e is not None, rule, 'RoaringBitmapCodec encoder'):
        enc, unk = schema.encoder_rows(F, e)
        got = [[tuple(r) for r in rows] for rows in enc.values()]
        ctx.check(all(len(g) == 1 and g[0][1:] == ('roaring', 'portable') for g in got) and not unk, rule, 'RoaringBitmapCodec/encode', e.loc(),
                  'portable roaring serialisation', 'RoaringBitmapCodec::bytes_encode writes %s' % got)


def enum_table(f):
    """{byte value: variant name | 'Err' | '?'}: the conversion function evaluated for concrete argument values by the
    finite-domain evaluator (sa/enumeval.py): `match` with guards, comparisons, lookup in a constant table, ..."""
    import enumeval
    F = f.facts
    ret = f.ret_ty()
    table = {}
    for v in list(range(0, 8)) + [255]:
        enumeval.reset()
        ev = enumeval.Eval(F, f, params={1: {(): frozenset([v])}}).run()
        res = set()
        for rb, tree in ev.ret_trees.items():
            top = tree.get(())
            if top is None:
                res.add('?')
                continue
            for x in top:
                is_value = (x == 0) if 'result::Result' in ret else (x == 1)     # Ok / Some
                if not is_value:
                    res.add('Err')
                    continue
                pay = tree.get(('@Ok', '0')) if 'result::Result' in ret else tree.get(('@Some', '0'))
                if pay is None:
                    res.add('?')
                else:
                    res |= {variant_name(F, ret, y) for y in pay}
        table[v] = list(res)[0] if len(res) == 1 else '?' + '|'.join(sorted(map(str, res)))
    return table


def variant_name(F, ret_ty, discr):
    for path, a in F.adts.items():
        if path in ret_ty and a.get('variants') and len(a['variants']) > 1:
            for v in a['variants']:
                try:
                    if int(v['discr']) == discr:
                        return v['name']
                except (KeyError, ValueError, TypeError):
                    pass
    return discr


def r_modes(ctx):
    F = ctx.F
    rule = 'R-MODES'
    ref = schema.reference()
    a = F.adts.get('node_id::NodeMode')
    if not ctx.need(a is not None, rule, 'NodeMode'):
        return
    got = {v['name']: int(v['discr']) for v in a['variants']}
    ctx.check(got == ref['node_mode'] and a['size'] == 1, rule, 'NodeMode/discriminants', '', '%s' % got,
              'NodeMode discriminants %s (size %s) differ from the reference %s: keys of existing databases change meaning/order' % (got, a['size'], ref['node_mode']))
    f = F.fn('<node_id::NodeMode as std::convert::TryFrom<u8>>::try_from')
    if ctx.need(f is not None, rule, 'TryFrom<u8> for NodeMode'):
        table = enum_table(f)
        want = {v: k for k, v in ref['node_mode'].items()}
        ctx.check(table == {i: want.get(i, 'Err') for i in range(0, 8)} | {255: 'Err'}, rule, 'NodeMode/try_from', f.loc(), 'u8 -> NodeMode table %s (every other byte is rejected)' % {k: v for k, v in table.items() if v != 'Err'},
                  'TryFrom<u8> for NodeMode maps %s; reference %s' % (table, ref['node_mode']))
    # key byte order = (index, kind, id) order: index and id big-endian, in that field order: from the key rows
    k = F.adts.get('key::Key')
    ctx.check(k is not None, rule, 'Key/present', '', 'Key struct present', 'key::Key not found')


def r_names(ctx):
    F = ctx.F
    rule = 'R-NAMES'
    ref = schema.reference()
    got = {}
    for p, f in F.fns.items():
        if p.endswith(' as distance::Distance>::name'):
            ty = p[1:].split(' as ')[0]
            for b, k, t in paths.ret_assigns(f):
                got[ty] = show(t).strip('"')
    ctx.check(got == ref['metric_names'], rule, 'metric-names', '', '%d names match the reference' % len(got),
              'metric names %s differ from the reference %s: databases written by the reference version no longer open (or new ones are unreadable by it)' % (
                  {k: v for k, v in got.items() if ref['metric_names'].get(k) != v}, {k: v for k, v in ref['metric_names'].items() if got.get(k) != v}))
    # headers
    for name, size in ref['header_sizes'].items():
        a = F.adts.get(name)
        if not ctx.need(a is not None, 'R-HEADERS', name):
            continue
        fields = [fl['name'] for v in a['variants'] for fl in v['fields']]
        tys = [fl['ty'] for v in a['variants'] for fl in v['fields']]
        reprc = 'c: true' in a['repr'].lower() or 'IS_C' in a['repr'] or 'repr(C)' in a['repr'] or '(C)' in a['repr']
        ctx.check(a['size'] == size and fields == ref['header_fields'][name] and all(t == 'f32' for t in tys), 'R-HEADERS', name, '',
                  'size %d fields %s' % (size, fields), 'header `%s` is %s bytes with fields %s %s; reference %s bytes %s of f32' % (name, a['size'], fields, tys, size, ref['header_fields'][name]))
    # vector codec of each metric
    for imp in F.impls:
        if imp['trait'] and imp['trait'].endswith('distance::Distance') and imp['self'] in ref['vector_codecs']:
            pass
    for p, f in F.fns.items():
        pass


def r_vector_encoding(ctx):
    """native-endian element encoding on both sides of the f32 vector codec and of the root list; BQ words"""
    F = ctx.F
    rule = 'R-VECTOR'
    from rules import fn_refs

    def fnvals(path):
        f = F.fn(path)
        if f is None and path.startswith('<f32 as '):
            f = F.impl_method('UnalignedVectorCodec', 'f32', path.rsplit('::', 1)[1])
        if f is None:
            return None, []
        vals = []
        for g in F.family(f):
            for n, s in fn_refs(g):
                vals.append(n)
            for c in g.calls():
                vals.append(c.callee + ' | ' + c.resolved)
        return f, vals
    W, R = 'write', 'read'
    checks = [
        ('<f32 as unaligned_vector::UnalignedVectorCodec>::from_vec', W, 'f32 elements written native-endian'),
        ('<f32 as unaligned_vector::UnalignedVectorCodec>::iter', R, 'f32 elements read native-endian'),
        ('<f32 as unaligned_vector::UnalignedVectorCodec>::from_slice', W, 'f32 slice reinterpreted in place (native)'),
        ("node::ItemIds::<'a>::from_slice", W, 'root ids written native-endian'),
        ("node::ItemIds::<'a>::iter", R, 'root ids read native-endian'),
        ('unaligned_vector::binary_quantized::from_slice_non_optimized', W, 'quantised words written native-endian'),
        ('<unaligned_vector::binary_quantized::BinaryQuantizedIterator<\'_> as std::iter::Iterator>::next', R, 'quantised words read native-endian'),
    ]
    # native-endian idioms (any one of them), and the conversions that would fix another byte order
    NATIVE = {W: ('to_ne_bytes', 'bytemuck::cast_slice', 'bytemuck::bytes_of', 'bytemuck::must_cast_slice'),
              R: ('from_ne_bytes', 'bytemuck::cast_slice', 'bytemuck::pod_read_unaligned', 'bytemuck::pod_collect_to_vec', 'bytemuck::must_cast_slice')}
    FOREIGN = ('to_be_bytes', 'to_le_bytes', 'from_be_bytes', 'from_le_bytes', 'BigEndian', 'swap_bytes', 'to_be(', 'to_le(', 'from_be(', 'from_le(')
    for path, kind, why in checks:
        f, vals = fnvals(path)
        if not ctx.need(f is not None, rule, path):
            continue
        txt = ' ; '.join(vals)
        native = any(n in txt for n in NATIVE[kind])
        if kind == R and ('ByteOrder::read_f32' in txt or 'ByteOrder::read_u32' in txt or 'ByteOrder::read_u64' in txt):
            # the ByteOrder instance: LittleEndian == NativeEndian on this (little-endian) host
            native = 'LittleEndian' in txt
        good = native and not any(x in txt for x in FOREIGN)
        ctx.check(good, rule, path.split('::')[-2][-30:] + '::' + path.split('::')[-1], f.loc(), why,
                  '`%s`: %s no longer holds (uses: %s)' % (path, why, [v for v in vals if any(k in v for k in ('bytes', 'read_', 'cast_slice', 'Endian'))][:6]))


def run(ctx):
    ctx.explanation = EXPL
    ctx.trusted = ['rustc nightly MIR construction', 'roaring portable serialisation (pinned by Cargo.lock)', 'bytemuck::bytes_of / pod_read_unaligned are byte copies',
                   'spec/wire_format.json is the reference layout']
    ctx.assumptions = ['little-endian host: NativeEndian resolves to LittleEndian; NE and LE are not distinguished here']
    ctx.not_analysed = ['from_slice_neon / to_vec_neon (aarch64 only, not compiled on this host)']
    r_key(ctx)
    r_node(ctx)
    r_metadata(ctx)
    r_modes(ctx)
    r_names(ctx)
    r_vector_encoding(ctx)
    import vec_rules
    vec_rules.bq_packer(ctx, 'R-BQ-PACK')
    vec_rules.bq_entry_points(ctx, 'R-BQ-PACK')
    # "answers the recorded queries with the same neighbours and distances": the bytes only mean the same if the stored header
    # fields and the quantised bits are *computed* as the reference computes them (norm = sqrt(v.v), bit = sign test) -- C11's
    # formula shapes and C12's packer sign rule are re-evaluated here
    from props import C11, C12
    C11.r_forms(ctx)
    C12.r_pack_bits(ctx)
    # "opens with the current code ... passes C01 ... can be updated and rebuilt incrementally": the open protocol (C06), the
    # forest disciplines (C01) and the re-encoding of stored leaves (C18) are premises of reading a reference database back
    import premises
    premises.forest(ctx)
    import vec_rules as _vr
    _vr.trunc_rule(ctx, 'R-TRUNC')
