"""C19 -- rejected calls have no effect."""
import paths
from facts import strip, show, walk
from rules import db_ops, key_info, same, strip_all, owner_path, heed_db_call, root
from props import C06

EXPL = ("Decided on the MIR CFGs of the public entry points: (R-GATE) in Writer::add_item, Writer::append_item and "
        "QueryBuilder::by_vector an exact (==/!=) comparison of `vector.len()` with the declared dimension dominates every "
        "database effect / the search, and its failing edge returns InvalidVecDimension{expected: the declared dimension, "
        "received: vector.len()}; (R-APPEND) append_item writes with PutFlags::APPEND, maps exactly Mdb(KeyExist) to "
        "InvalidItemAppend, propagates every other error, and writes the updated mark only on the Ok arm; (R-SIBLING) "
        "add_item and append_item build the same leaf and address the same two keys; (R-DEL) del_item writes nothing and "
        "returns false when the delete reports absence; (R-MARK, shared with C06) an updated mark is only ever written "
        "after an effective item write. NOT decided: LMDB's own APPEND ordering check.")


def dims_term(t):
    """is `t` the declared dimension of the handle: `self.dimensions` / `reader.dimensions()`"""
    t0 = strip(t)
    if t0[0] == 'field' and t0[2] == 'dimensions' and root(t0[1])[0] == 'arg':
        return True
    if t0[0] == 'call' and t0[1].endswith('::dimensions') and t0[2] and root(t0[2][0])[0] == 'arg':
        return True
    return False


def len_of_param(f, t):
    t0 = strip(t)
    if t0[0] == 'call' and t0[1].endswith('::len') and t0[2]:
        a = strip(t0[2][0])
        if a[0] == 'arg' and ('[f32]' in f.local_ty(a[1])):
            return a
    return None


def find_gate(f):
    """(switch block, equal-edge successor, failing-edge successor, vector arg) or None"""
    for b in f.live_blocks():
        if paths.switch_at(f, b) is None:
            continue
        succs = f.succ(b)
        for s in succs:
            e = paths.edge_cond(f, b, s)
            if not e or e[0] != 'bool':
                continue
            t = strip(e[1])
            if t[0] != 'binop' or t[1] not in ('Eq', 'Ne'):
                continue
            va = len_of_param(f, t[2]) or len_of_param(f, t[3])
            other = t[3] if len_of_param(f, t[2]) else t[2]
            if va is None or not dims_term(other):
                continue
            equal_on_this_edge = (t[1] == 'Eq') == e[2]
            others = [x for x in succs if x != s]
            if len(others) != 1:
                continue
            if equal_on_this_edge:
                return (b, s, others[0], va)
            return (b, others[0], s, va)
    return None


def effect_blocks(F, f, writes_only):
    """blocks of f with a database effect (directly or through an in-crate callee)"""
    memo = {}

    def has_effect(g, depth=0):
        if g.path in memo:
            return memo[g.path]
        memo[g.path] = False
        r = False
        from rules import heed_cursor_call
        for c in g.calls():
            h = heed_db_call(c)
            if (h and (h[1] or not writes_only)) or heed_cursor_call(c):
                r = True
                break
            if depth < 6:
                for k in F.resolve_call(c):
                    if has_effect(k, depth + 1):
                        r = True
                        break
            if r:
                break
        memo[g.path] = r
        return r
    out = []
    from rules import heed_cursor_call
    for c in f.calls():
        h = heed_db_call(c)
        if h and (h[1] or not writes_only):
            out.append((c.bb, c, h[0]))
            continue
        hc = heed_cursor_call(c)
        if hc:
            out.append((c.bb, c, hc))
            continue
        for g in F.resolve_call(c):
            if has_effect(g):
                out.append((c.bb, c, g.path))
                break
    return out


def gate_error_ok(f, gate):
    """the failing edge of the gate returns InvalidVecDimension{expected: dims, received: len(vector)} and no success"""
    sw, eq, fail, va = gate
    errs = [(b, t) for b, k, t in paths.ret_assigns(f) if k in ('err',) and b in f.reachable(fail)]
    good = False
    detail = 'no InvalidVecDimension return on the failing edge'
    for b, t in errs:
        d = paths.agg_fields(t, 'error::Error', 'InvalidVecDimension')
        if d:
            exp_ok = dims_term(d.get('expected', ('unknown',)))
            rec = len_of_param(f, d.get('received', ('unknown',)))
            good = exp_ok and rec is not None and rec[1] == va[1]
            detail = 'expected=%s received=%s' % (show(d.get('expected', ('unknown', ''))), show(d.get('received', ('unknown', ''))))
    okgoal = [b for b, k, t in paths.ret_assigns(f) if k in ('ok', 'call', 'other')]
    good = good and not any(x in f.reachable(fail) for x in okgoal)
    byp = [b for b in okgoal if not paths.edge_dominates(f, sw, eq, b)]
    return good, detail, byp


def gate_of(F, f):
    """the length gate of f: its own comparison, or a `?`-checked call to a helper that contains the gate.
    -> (switch block, equal/ok successor, failing successor, description, helper or None)"""
    g = find_gate(f)
    if g is not None:
        return g[0], g[1], g[2], 'own comparison', None, g
    for c in f.calls():
        for h in F.resolve_call(c):
            if h.path == f.path or h.in_test:
                continue
            hg = find_gate(h)
            if hg is None:
                continue
            # the helper's vector parameter is fed with f's vector parameter
            fed = False
            for i in range(len(c.args)):
                a = strip(c.arg_term(i))
                if a[0] == 'arg' and '[f32]' in f.local_ty(a[1]) and i + 1 == hg[3][1]:
                    fed = True
            arms = paths.result_arms(f, c)
            if fed and 'ok' in arms and 'err' in arms and 'switch' in arms:
                return arms['switch'], arms['ok'], arms['err'], 'helper `%s`' % h.path, h, hg
    return None


def r_gate(ctx):
    F = getattr(ctx.F, 'raw', ctx.F)  # helper-aware on the un-inlined bodies (inlining merges the helper's Ok/Err returns)
    rule = 'R-GATE'
    targets = [('writer::Writer::<D>::add_item', True), ('writer::Writer::<D>::append_item', True),
               ("reader::QueryBuilder::<'a, D>::by_vector", False)]
    for path, wo in targets:
        f = F.one(path)
        if not ctx.need(f is not None, rule, path):
            continue
        gt = gate_of(F, f)
        if gt is None:
            ctx.bad(rule, path + '/gate', f.loc(), '`%s` has no exact comparison of vector.len() with the declared dimension' % path)
            continue
        sw, eq, fail, how, helper, inner = gt
        effs = effect_blocks(F, f, wo)
        ctx.need(len(effs) >= 1, rule, 'effects of ' + path)
        for b, c, what in effs:
            key = '%s/dominates/%s' % (path, what.split('::<')[0].split('::')[-1])
            good = paths.edge_dominates(f, sw, eq, b) and b not in f.reachable(fail)
            ctx.check(good, rule, key, c.loc(), 'effect is dominated by the length gate\'s equal edge (%s)' % how,
                      'in `%s` the effect `%s` can execute although vector.len() differs from the declared dimension' % (path, what))
        if helper is None:
            good, detail, byp = gate_error_ok(f, inner)
        else:
            good, detail, byp0 = gate_error_ok(helper, inner)
            good = good and not byp0
            # in f: the error of the helper is propagated on the failing edge and every success is behind the ok edge
            okgoal = [b for b, k, t in paths.ret_assigns(f) if k in ('ok', 'call', 'other')]
            byp = [b for b in okgoal if not paths.edge_dominates(f, sw, eq, b)]
            good = good and not any(x in f.reachable(fail) for x in okgoal)
        ctx.check(not byp, rule, path + '/no-success-bypass', f.loc(), 'every success return is dominated by the length gate',
                  '`%s` can return success without having compared vector.len() with the declared dimension (return at line %s)' % (path, [paths.block_line(f, b) for b in byp]))
        ctx.check(good, rule, path + '/error', f.loc(), 'failing edge returns InvalidVecDimension{%s}' % detail,
                  '`%s`: the wrong-length path does not return InvalidVecDimension{expected: dimensions, received: vector.len()} (%s)' % (path, detail))
    # Reader::dimensions is the stored dimension
    d = F.one("reader::Reader::<'t, D>::dimensions")
    if ctx.need(d is not None, rule, 'Reader::dimensions'):
        rets = paths.ret_assigns(d)
        good = len(rets) == 1 and strip(rets[0][2])[0] == 'field' and strip(rets[0][2])[2] == 'dimensions'
        ctx.check(good, rule, 'Reader::dimensions/is-field', d.loc(), 'returns self.dimensions', 'Reader::dimensions no longer returns the stored dimension')


def r_append(ctx):
    F = ctx.F
    rule = 'R-APPEND'
    f = F.one('writer::Writer::<D>::append_item')
    if not ctx.need(f is not None, rule, 'Writer::append_item'):
        return
    puts = [(c, op, k) for (_f, c, op, w, k) in db_ops(F, [f]) if op == 'put_with_flags']
    if not ctx.need(len(puts) == 1, rule, 'put_with_flags in append_item', f.loc()):
        return
    c, op, k = puts[0]
    fl = strip(c.arg_term(2))
    ctx.check(fl[0] == 'const' and 'APPEND' in str(fl[2]) and 'NO_OVERWRITE' not in str(fl[2]), rule, 'append/flags', c.loc(),
              'PutFlags::APPEND', 'append_item no longer writes with exactly PutFlags::APPEND (%s)' % show(fl))
    ki = key_info(c.arg_term(k))
    ctx.check(ki is not None and ki[0] == 'item', rule, 'append/key', c.loc(), 'appends under Key::item(self.index, item)',
              'append_item writes under %s' % show(c.arg_term(k)))
    arms = paths.result_arms(f, c)
    if not ctx.need('err' in arms and 'ok' in arms, rule, 'success / failure continuations of the append', c.loc()):
        return
    # where is the error mapped?  in this function (match arms) or in a closure given to map_err on the put result
    mapper = None
    via = arms.get('via')
    if via is not None:
        vc = f.call_at(via)
        if vc is not None and vc.callee.endswith('::map_err') and len(vc.args) == 2:
            ct = strip(vc.arg_term(1))
            if ct[0] == 'closure' and F.fn(ct[1]) is not None:
                mapper = F.fn(ct[1])
    if mapper is None:
        g = f

        def is_err(t, depth=0):
            if paths.mentions_call(t, c.bb):
                return True
            # the error moved into a named local (`if let Err(error) = put(..) { match error { .. } }`): opaque for the term
            # engine when it is partially moved later on; follow its whole definition
            if depth < 3:
                for y in walk(t):
                    if y[0] == 'var' and isinstance(y[1], int):
                        for d in f.defs().get(y[1], []):
                            if not d[-1] and d[0] == 'assign' and is_err(f._def_term(d, 0, frozenset([y[1]])), depth + 1):
                                return True
            return False
        rets = paths.ret_assigns(g)
        app = [(b, t) for b, k2, t in rets if k2 == 'err' and paths.err_variant(t) == 'InvalidItemAppend']
        prop = [(b, t) for b, k2, t in rets if k2 in ('err', 'residual') and is_err(t)]
        # `return Err(match error { KeyExist => InvalidItemAppend, other => other.into() })`: one Err(..) built after the inner
        # match joined -- the alternatives of its payload are the sites
        import reader_rules as _rr
        for b, k2, t in rets:
            if k2 != 'err':
                continue
            pay = strip(dict(strip(t)[3]).get('0', ('unknown',))) if strip(t)[0] == 'agg' else ('unknown',)
            if pay[0] == 'phi':
                alts = _rr.phi_defs(f, pay) or []
                app = [(b0, t0) for b0, t0 in app if b0 != b]
                for ab, at in alts:
                    a0 = strip(at)
                    if a0[0] == 'agg' and a0[2] == 'InvalidItemAppend':
                        app.append((ab, ('agg', 'std::result::Result', 'Err', [('0', at)])))
                    elif is_err(at):
                        prop.append((ab, at))
        in_err_arm = all(b in f.reachable(arms['err']) and b not in f.reachable(arms['ok']) for b, t in app)
    else:
        g = mapper
        is_err = lambda t: any(x[0] == 'arg' and x[1] == 2 for x in walk(t))
        rets = paths.ret_assigns(g)
        app = [(b, t) for b, k2, t in rets if paths.err_variant(t) == 'InvalidItemAppend']
        prop = [(b, t) for b, k2, t in rets if paths.err_variant(t) != 'InvalidItemAppend' and is_err(t)]
        # ... and nowhere else: the function itself must not return InvalidItemAppend on its own (a refusal that does not come
        # from LMDB's KeyExist answer rejects legal appends)
        own = [(b, t) for b, k2, t in paths.ret_assigns(f) if k2 == 'err' and paths.err_variant(t) == 'InvalidItemAppend']
        in_err_arm = not own
    guards = []
    for b, t in app:
        for s0, x0, e in paths.controlling_conds(g, b):
            if e[0] == 'disc' and is_err(e[1]):
                guards.append((show(e[1]), tuple(e[2])))
    pats = ' '.join(x[0] for x in guards)
    ctx.check(bool(app) and in_err_arm and 'Mdb' in pats and len(guards) >= 2, rule, 'append/keyexist-mapping', c.loc(),
              'Err(Mdb(KeyExist)) => InvalidItemAppend (guards: %d discriminant tests on the put error%s)' % (len(guards), ', in the map_err closure' if mapper else ''),
              'append_item: InvalidItemAppend is not returned exactly for Err(heed::Error::Mdb(MdbError::KeyExist)) (guards seen: %s)' % guards[:4])
    ctx.check(bool(prop), rule, 'append/other-errors-propagated', c.loc(),
              'other put errors are returned to the caller', 'append_item drops or rewrites put errors other than KeyExist')
    kexist = any('KeyExist' in x[0] for x in guards) or _keyexist_discr(g, is_err)
    ctx.check(kexist, rule, 'append/keyexist-variant', c.loc(), 'the tested MdbError variant is KeyExist',
              'append_item tests another MdbError variant than KeyExist')


def _keyexist_discr(g, is_err):
    """the innermost discriminant test on the put error selects MdbError::KeyExist (variant index 0)"""
    for b in g.live_blocks():
        sw = paths.switch_at(g, b)
        if sw is None:
            continue
        d = g.term(sw['discr'])
        if d[0] == 'discr' and is_err(d[1]) and 'Mdb' in show(d[1]):
            vals = [int(v) for v, t in sw['targets']]
            return vals == [0]
    return False


def r_sibling(ctx):
    F = ctx.F
    rule = 'R-SIBLING'
    a = F.one('writer::Writer::<D>::add_item')
    b = F.one('writer::Writer::<D>::append_item')
    if not (ctx.need(a is not None, rule, 'add_item') and ctx.need(b is not None, rule, 'append_item')):
        return

    def sig(f):
        out = []
        for (_f, c, op, w, k) in db_ops(F, [f]):
            if w and k is not None:
                ki = key_info(c.arg_term(k))
                val = c.arg_term(len(c.args) - 1)
                kind = ki[0] if ki else '?'
                out.append((kind, strip_all(ki[1]) if ki else None, strip_all(ki[2]) if ki and ki[2] else None, None))
        for c in f.calls():
            for g in F.resolve_call(c):
                if g.path != f.path and not g.in_test and g.path.startswith('writer::'):
                    p = C06.mark_helper(F, g, {})
                    if p is not None and p - 1 < len(c.args):
                        out.append(('updated', strip_all(('field', ('deref', ('arg', 1, 'self')), 'index')), strip_all(c.arg_term(p - 1)), None))
        return sorted(out, key=repr)
    sa, sb = sig(a), sig(b)
    ctx.check(sa == sb and len(sa) == 2, rule, 'add_item~append_item', a.loc(),
              'same keys (item, updated) and same leaf construction up to the put flags',
              'add_item and append_item no longer write the same keys/values: %s vs %s' % ([x[0] for x in sa], [x[0] for x in sb]))
    r_stored_leaf(ctx, rule)


def r_stored_leaf(ctx, rule='R-LEAF'):
    """what the item API stores: Leaf{header: D::new_header(&v), vector: v} with v = from_slice(the caller's vector), in both
    entry points (re-evaluated by the properties that read the stored vector / header back: C05, C11, C12)"""
    F = ctx.F
    a = F.one('writer::Writer::<D>::add_item')
    b = F.one('writer::Writer::<D>::append_item')
    if not ctx.need(a is not None and b is not None, rule, 'add_item and append_item'):
        return
    # leaf = Leaf{header: D::new_header(&v), vector: v}, v = from_slice(vector param)
    for f in (a, b):
        for (_f, c, op, w, k) in db_ops(F, [f]):
            ki = key_info(c.arg_term(k)) if k is not None else None
            if w and ki and ki[0] == 'item':
                leaf = paths.agg_fields(c.arg_term(len(c.args) - 1), 'node::Leaf')
                good = False
                if leaf:
                    v = strip(leaf['vector'])
                    h = strip(leaf['header'])
                    good = (v[0] == 'call' and v[1].endswith('::from_slice') and strip(v[2][0])[0] == 'arg'
                            and h[0] == 'call' and h[1].endswith('Distance::new_header') and strip_all(h[2][0]) == strip_all(leaf['vector']))
                ctx.check(good, rule, '%s/leaf' % f.path, c.loc(), 'Leaf{header: D::new_header(&v), vector: v}, v = from_slice(param)',
                          '`%s` stores something else than the caller\'s vector with its own header' % f.path)


def r_del(ctx):
    F = ctx.F
    rule = 'R-DEL'
    f = F.one('writer::Writer::<D>::del_item')
    if not ctx.need(f is not None, rule, 'Writer::del_item'):
        return
    dels = [(c, op, k) for (_f, c, op, w, k) in db_ops(F, [f]) if op == 'delete']
    if not ctx.need(len(dels) == 1, rule, 'delete in del_item', f.loc()):
        return
    c, op, k = dels[0]
    eff, arms = C06.effective_block(f, c, op)
    if not ctx.need(eff is not None, rule, 'true-edge of the delete result', c.loc()):
        return
    # the sibling (false) edge
    sw = [s for s in f.pred(eff) if paths.switch_at(f, s) is not None]
    false_succ = [x for s in sw for x in f.succ(s) if x != eff]
    wr = [(b, what) for b, cc, what in effect_blocks(F, f, True) if b != c.bb]
    bad = [what for b, what in wr if any(b in f.reachable(x) for x in false_succ) and not f.dominates(eff, b)]
    ctx.check(not bad, rule, 'del_item/absent-no-write', c.loc(), 'no write is reachable when the delete reports absence',
              'del_item writes (%s) although the item was absent' % bad)
    # returned value on each side
    vals = {}
    for b, k2, t in paths.ret_assigns(f):
        if k2 == 'ok':
            side = 'present' if f.dominates(eff, b) else ('absent' if any(b in f.reachable(x) for x in false_succ) and eff not in f.dominators().get(b, set()) else 'both')
            vals.setdefault(side, []).append(strip(dict(t[3])['0']))
    good = True
    for side, vs in vals.items():
        for v in vs:
            if v[0] == 'const':
                good = good and ((side == 'present' and v[2] == 1) or (side == 'absent' and v[2] == 0))
            elif paths.mentions_call(v, c.bb):
                pass  # returns the delete's own answer
            else:
                good = False
    ctx.check(good and vals, rule, 'del_item/return', f.loc(), 'returns whether the item existed', 'del_item does not report whether the item existed: %s' % {k: [show(v) for v in vs] for k, vs in vals.items()})


def run(ctx):
    ctx.explanation = EXPL
    ctx.trusted = ['rustc nightly MIR construction', 'LMDB MDB_APPEND rejects out-of-order keys with KeyExist']
    ctx.assumptions = ['heed::Database::delete returns true iff a key was removed']
    r_gate(ctx)
    r_append(ctx)
    r_sibling(ctx)
    r_del(ctx)
    C06.r_mark(ctx)
    # the gate compares with the writer's *declared* dimension: a writer derived by a metric change keeps it (C18's R-HANDLE)
    from props import C18
    C18.rules(ctx)
