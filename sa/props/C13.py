"""C13 -- parallel tree updates never collide, whatever the thread schedule."""
import paths
from facts import const_eval, strip, show, walk, short
from rules import owner_path, sp, root
from props.C08 import sync_audit

EXPL = ("Decided structurally (every schedule at once, because uniqueness then follows from RMW atomicity alone): "
        "(N1) the id generator's interior mutability is only std atomics and its free-id bitmap is never mutated after "
        "construction (no &mut access path to the generator anywhere, `next` takes &self); (N2) every access to a counter "
        "field of the generator anywhere in the crate is a single `fetch_add(.., 1)` -- never load/store/compare_exchange/"
        "swap -- and the boolean mode flag is only loaded and stored with the constant `false` (monotone); (N3) every id "
        "returned by `next` is either the result of the `fetch_add` on the fresh-id counter or `available.select(k)` with "
        "k the result of the `fetch_add` on the cursor, so two requesters never observe the same k / counter value; "
        "(N4) in the constructor the free pool is (0..last_id) minus the used set, the fresh counter starts at last_id = "
        "max(used)+1 (0 when empty): recycled ids are < last_id and unused, fresh ids >= last_id; (N5) the build obtains the "
        "used set from a scan of exactly its own tree prefix and hands the generator by shared reference to the parallel "
        "workers; (R-SYNC) the only hand-written unsafe Send/Sync impls are the two frozen pointer tables, never written "
        "through; (R-PAR) the closure run by rayon captures only shared references. NOT decided: rayon/std atomics (trusted)."
        " (N6) before any id is produced the ticket counter is compared with u32::MAX and DatabaseFull is returned instead of wrapping the 32-bit counters; (N5, strengthened) the used-id function has no shortcut that skips the scan and the set reaches the generator without a mutable borrow in between. The C01 / C06 premise rule sets are re-evaluated.")

ATOMIC_RMW_OK = ('::fetch_add',)
ATOMIC_ANY = ('::load', '::store', '::swap', '::compare_exchange', '::compare_exchange_weak', '::fetch_add', '::fetch_sub',
              '::fetch_and', '::fetch_or', '::fetch_xor', '::fetch_nand', '::fetch_max', '::fetch_min', '::fetch_update',
              '::get_mut', '::into_inner', '::as_ptr', '::from_ptr', '::from_mut')


def generator_type(F):
    """the ADT with std-atomic counter fields whose method returns Result<u32> from a fetch_add"""
    for name, a in F.adts.items():
        if a['kind'] != 'Struct' or not name.startswith('parallel::'):
            continue
        fields = {fl['name']: fl['ty'] for v in a['variants'] for fl in v['fields']}
        if any('atomic::Atomic' in t for t in fields.values()):
            meths = [f for f in F.lib_fns() if f.path.startswith(name + '::') and f.kind == 'AssocFn'
                     and (f.ret_ty().startswith('std::result::Result<u32') or f.ret_ty() == 'u32')]
            if any(f.ret_ty().startswith('std::result::Result<u32') for f in meths):
                return name, a, fields, meths
    return None


def r_n1(ctx, gen):
    F = ctx.F
    name, a, fields, meths = gen
    rule = 'N1'
    for fl, ty in fields.items():
        interior = ('Cell' in ty or 'Mutex' in ty or 'RwLock' in ty or 'UnsafeCell' in ty or '*mut' in ty)
        ctx.check(not interior, rule, '%s.%s' % (name, fl), '', 'field type %s' % ty,
                  'generator field `%s: %s` is interior-mutable by something other than a std atomic' % (fl, ty))
    for m in meths:
        self_ty = m.local_ty(1)
        ctx.check(self_ty.startswith('&') and not self_ty.startswith('&mut'), rule, m.path + '/shared-self', m.loc(),
                  'takes &self', '`%s` takes %s: callers would need exclusive access that the parallel build does not have' % (m.path, self_ty))
    # no mutable access path to the generator or to its non-atomic fields anywhere
    n = 0
    for f in F.lib_fns():
        for l, loc in enumerate(f.locals):
            if loc['ty'].replace("'_ ", '').startswith('&mut ') and name.split('::')[-1] in loc['ty'] and 'parallel::' + name.split('::')[-1] in loc['ty']:
                ctx.bad(rule, '%s/&mut' % f.path, f.loc(), '`%s` holds `%s`: the free-id bitmap could change while ids are handed out' % (f.path, loc['ty']))
        for blk in f.blocks:
            if blk['cleanup']:
                continue
            for st in blk['stmts']:
                rv = st['rv']
                if rv['k'] == 'ref' and rv.get('mut'):
                    t = f.place_term(rv['place'])
                    for s in walk(t):
                        if s[0] == 'field' and s[2] in fields and 'atomic::Atomic' not in fields[s[2]]:
                            base_ty = _owner_is(f, s, name)
                            if base_ty:
                                ctx.bad(rule, '%s/&mut %s' % (f.path, s[2]), sp(st['span']), 'mutable borrow of generator field `%s` in `%s`' % (s[2], f.path))
                n += 1
    ctx.ok(rule, 'scan', '', 'no &mut path to the generator or its bitmap in %d statements' % n, nontrivial=False)


def _owner_is(f, field_term, name):
    b = strip(field_term[1])
    t = None
    if b[0] in ('arg', 'var'):
        t = f.local_ty(b[1])
    return t is not None and name in t


def atomic_field_of(f, c, fields, name):
    """field name when call `c` is an atomic operation on a field of the generator"""
    if not c.args:
        return None
    t = strip(c.arg_term(0))
    if t[0] == 'field' and t[2] in fields and 'atomic::Atomic' in fields[t[2]]:
        b = strip(t[1])
        if b[0] in ('arg', 'var') and name in f.local_ty(b[1]):
            return t[2]
    return None


def r_n2(ctx, gen):
    F = ctx.F
    name, a, fields, meths = gen
    rule = 'N2'
    n = 0
    per = {}
    for f in F.lib_fns():
        for c in f.calls():
            if 'atomic::Atomic' not in c.callee:
                continue
            fl = atomic_field_of(f, c, fields, name)
            if fl is None:
                continue
            n += 1
            op = short(c.callee)
            per[fl] = per.get(fl, 0) + 1
            key = '%s/%s.%s#%d' % (f.path, fl, op, per[fl])
            ty = fields[fl]
            if 'bool' in ty:
                if op == 'load':
                    ctx.ok(rule, key, c.loc(), 'flag read')
                elif op == 'store':
                    v = strip(c.arg_term(1))
                    ctx.check(v[0] == 'const' and v[2] == 0, rule, key, c.loc(), 'flag only ever cleared (monotone)',
                              'mode flag `%s` is stored with %s: it must only go from true to false' % (fl, show(v)))
                else:
                    ctx.bad(rule, key, c.loc(), 'unexpected `%s` on the mode flag `%s`' % (op, fl))
            else:
                if op == 'fetch_add':
                    v = strip(c.arg_term(1))
                    ctx.check(v[0] == 'const' and v[2] == 1, rule, key, c.loc(), 'atomic read-modify-write +1',
                              'counter `%s` is advanced by %s instead of 1' % (fl, show(v)))
                else:
                    ctx.bad(rule, key, c.loc(), 'counter `%s` of the id generator is accessed with `%s` in `%s`: a read and a separate update are not atomic together, two threads can obtain the same value' % (fl, op, f.path))
    ctx.floor(rule, 'atomic operations on generator fields', n, 4)
    # the atomics are constructed only in the constructor
    return n


def r_n3(ctx, gen):
    F = ctx.F
    name, a, fields, meths = gen
    rule = 'N3'
    for m in meths:
        if m.ret_ty() == 'u32':
            oks = [(b, ('agg', 'r', 'Ok', [('0', t)])) for b, k, t in paths.ret_assigns(m)]
        else:
            oks = [(b, t) for b, k, t in paths.ret_assigns(m) if k == 'ok']
            for b, k, t in paths.ret_assigns(m):
                if k == 'call' and any(t[1] == h.path for h in meths):
                    ctx.ok(rule, '%s/delegates' % m.path, m.loc(), 'tail-calls `%s`' % t[1])
                    oks.append((b, None))
        ctx.need(len(oks) >= 1, rule, 'id returns of ' + m.path)
        for i, (b, t) in enumerate(oks):
            if t is None:
                continue
            v = strip(dict(t[3])['0'])
            if v[0] == 'call' and any(v[1] == h.path for h in meths):
                ctx.ok(rule, '%s/ok#%d' % (m.path, i + 1), m.loc(), 'id from `%s` (checked itself)' % v[1])
                continue
            key = '%s/ok#%d' % (m.path, i + 1)
            good = False
            why = show(v)
            if v[0] == 'call' and v[1].endswith('::fetch_add') and atomic_field_of(m, m.call_at(v[3]), fields, name):
                good = True
                why = 'fresh id = fetch_add(%s)' % atomic_field_of(m, m.call_at(v[3]), fields, name)
            elif v[0] == 'field' or v[0] == 'downcast':
                sel = [s for s in walk(v) if s[0] == 'call' and s[1].endswith('RoaringBitmap>::select')]
                if sel:
                    bm = strip(sel[0][2][0])
                    k = strip(sel[0][2][1])
                    bm_ok = bm[0] == 'field' and bm[2] in fields and 'RoaringBitmap' in fields[bm[2]]
                    k_ok = k[0] == 'call' and k[1].endswith('::fetch_add') and atomic_field_of(m, m.call_at(k[3]), fields, name)
                    good = bool(bm_ok and k_ok)
                    why = 'recycled id = %s.select(fetch_add(%s))' % (bm[2] if bm_ok else '?', atomic_field_of(m, m.call_at(k[3]), fields, name) if k_ok else show(k))
            ctx.check(good, rule, key, m.loc(), why,
                      '`%s` returns an id that is not the result of its own atomic fetch_add (or a select at such a result): %s' % (m.path, why))
        # one fetch_add per counter per path
        for fl, ty in fields.items():
            if 'atomic::Atomic' not in ty or 'bool' in ty:
                continue
            sites = [c.bb for c in m.calls() if c.callee.endswith('::fetch_add') and atomic_field_of(m, c, fields, name) == fl]
            twice = any(b2 in m.reachable(m.succ(b1)[0]) for b1 in sites for b2 in sites if m.succ(b1)) if sites else False
            ctx.check(not twice, rule, '%s/%s-once-per-path' % (m.path, fl), m.loc(), 'at most one fetch_add on `%s` per path' % fl,
                      '`%s` can advance `%s` twice on one path' % (m.path, fl))


def r_n6(ctx, gen):
    """the id space is finite: before any id is produced the ticket counter is compared with u32::MAX and the method
    fails with DatabaseFull instead of wrapping the u32 counters (ids would repeat)"""
    F = ctx.F
    name, a, fields, meths = gen
    rule = 'N6'
    for m in meths:
        if not any(c.callee.endswith('::fetch_add') for c in m.calls()):
            continue
        gate = None
        for b in m.live_blocks():
            for x in m.succ(b):
                e = paths.edge_cond(m, b, x)
                if not (e and e[0] == 'bool' and e[2]):
                    continue
                c0 = strip(e[1])
                if c0[0] == 'binop' and c0[1] in ('Gt', 'Ge'):
                    lhs, k = strip(c0[2]), const_eval(c0[3])
                    if lhs[0] == 'call' and lhs[1].endswith('::fetch_add') and k is not None and ((c0[1] == 'Gt' and k <= 0xFFFFFFFF) or (c0[1] == 'Ge' and k <= 0x100000000)):
                        full = [rb for rb, kk, t in paths.ret_assigns(m) if kk == 'err' and paths.err_variant(t) == 'DatabaseFull' and (rb == x or rb in m.reachable(x))]
                        if full:
                            gate = (b, x, lhs[3])
        good = gate is not None
        if good:
            # every id-producing RMW comes after the test (on its false edge)
            others = [c for c in m.calls() if c.callee.endswith('::fetch_add') and c.bb != gate[2]]
            good = all(m.dominates(gate[0], c.bb) and c.bb not in m.reachable(gate[1], avoid=[gate[0]]) for c in others)
        ctx.check(good, rule, m.path + '/full', m.loc(), 'DatabaseFull once 2^32 ids have been handed out, tested before any id is produced',
                  '`%s` no longer fails with DatabaseFull when the 32-bit id space is exhausted (or tests it after producing an id): the counters wrap and ids repeat' % m.path)


def r_n4(ctx, gen):
    F = ctx.F
    name, a, fields, meths = gen
    rule = 'N4'
    ctors = [f for f in F.lib_fns() if f.path.startswith(name + '::') and any(
        t[0] == 'agg' and t[1] == name for b, k, t in paths.ret_assigns(f))]
    if not ctx.need(len(ctors) >= 1, rule, 'constructor of ' + name):
        return
    # the only place the struct is built
    for f in F.lib_fns():
        for blk in f.blocks:
            for st in blk['stmts']:
                rv = st['rv']
                if rv['k'] == 'agg' and rv.get('adt') == name and f not in ctors:
                    ctx.bad(rule, '%s/extra-constructor' % f.path, sp(st['span']), '`%s` builds a `%s` outside its audited constructor' % (f.path, name))
    for f in ctors:
        agg = [t for b, k, t in paths.ret_assigns(f) if t[0] == 'agg' and t[1] == name][0]
        d = dict(agg[3])
        used_arg = [l for l in f.arg_locals() if 'RoaringBitmap' in f.local_ty(l)]
        if not ctx.need(len(used_arg) == 1, rule, 'used-set parameter of ' + f.path):
            continue
        ua = used_arg[0]

        def is_used(t):
            s = strip(t)
            return s[0] == 'arg' and s[1] == ua
        # fresh counter start
        counters = [fl for fl, ty in fields.items() if 'atomic::Atomic<u32>' in ty or 'AtomicU32' in ty]
        last_terms = {}
        for fl in counters:
            init = strip(d[fl])
            arg = strip(init[2][0]) if init[0] == 'call' and init[1].endswith('::new') and init[2] else None
            last_terms[fl] = arg
        fresh = [fl for fl, t in last_terms.items() if t is not None and t[0] != 'const']
        cursor = [fl for fl, t in last_terms.items() if t is not None and t[0] == 'const']
        ok_fresh = False
        if len(fresh) == 1:
            L = last_terms[fresh[0]]
            # L = used.max().map_or(0, |id| id + 1)
            if L[0] == 'call' and L[1].endswith('::map_or'):
                src = strip(L[2][0])
                dflt = strip(L[2][1])
                clo = strip(L[2][2])
                mx = src[0] == 'call' and src[1].endswith('RoaringBitmap>::max') and is_used(src[2][0])
                plus1 = False
                if clo[0] == 'closure':
                    g = F.fn(clo[1])
                    if g is not None:
                        for b, k, t in paths.ret_assigns(g):
                            tt = strip(t)
                            if tt[0] == 'field' and tt[1][0] == 'binop' and tt[1][1] in ('AddWithOverflow', 'Add'):
                                x, y = strip(tt[1][2]), strip(tt[1][3])
                                plus1 = x[0] == 'arg' and y[0] == 'const' and y[2] == 1
                            elif tt[0] == 'binop' and tt[1] == 'Add':
                                x, y = strip(tt[2]), strip(tt[3])
                                plus1 = x[0] == 'arg' and y[0] == 'const' and y[2] == 1
                ok_fresh = mx and dflt[0] == 'const' and dflt[2] == 0 and plus1
            elif L[0] == 'phi':
                # match used.max() { Some(id) => id + 1, None => 0 }
                from reader_rules import phi_defs
                pd = phi_defs(f, L) or []
                zero = [(b, t) for b, t in pd if const_eval(t) == 0]
                succ = []
                for b, t in pd:
                    tt = strip(t)
                    if tt[0] == 'field' and tt[2] == '0' and strip(tt[1])[0] == 'binop':
                        tt = strip(tt[1])
                    if tt[0] == 'binop' and tt[1] in ('AddWithOverflow', 'Add') and const_eval(tt[3]) == 1:
                        x = strip(tt[2])
                        if x[0] == 'field' and strip(x[1])[0] == 'downcast' and strip(x[1])[2] == 'Some':
                            src = strip(strip(x[1])[1])
                            if src[0] == 'call' and src[1].endswith('RoaringBitmap>::max') and is_used(src[2][0]):
                                succ.append((b, t))
                ok_fresh = len(pd) == 2 and len(zero) == 1 and len(succ) == 1 and zero[0][0] not in f.reachable(succ[0][0]) and succ[0][0] not in f.reachable(zero[0][0])
        ctx.check(ok_fresh, rule, f.path + '/fresh-start', f.loc(), 'fresh counter starts at used.max()+1 (0 when empty)',
                  'the fresh-id counter does not start at max(used)+1: fresh ids could collide with ids in use (%s)' % {k: show(v) if v else None for k, v in last_terms.items()})
        ctx.check(len(cursor) == 1 and last_terms[cursor[0]][2] == 0, rule, f.path + '/cursor-start', f.loc(), 'recycling cursor starts at 0',
                  'the recycling cursor does not start at 0')
        # available = from_sorted_iter(0..last_id) - used      (or the same set built in place: insert_range + `-=`)
        bms = [fl for fl, ty in fields.items() if 'RoaringBitmap' in ty]
        ok_av = False
        built_at = None
        from rules import same

        def full_range(t):
            rng = [s for s in walk(t) if s[0] == 'agg' and s[1].endswith('ops::Range')]
            if not rng:
                return False
            rd = dict(rng[0][3])
            return const_eval(rd['start']) == 0 and same(rd['end'], last_terms[fresh[0]])
        if len(bms) == 1 and len(fresh) == 1:
            av = strip(d[bms[0]])
            if av[0] == 'call' and av[1].endswith('ops::Sub::sub'):
                lhs, rhs = strip(av[2][0]), av[2][1]
                if is_used(rhs):
                    ok_av = full_range(lhs) and any(s[0] == 'call' and s[1].endswith('from_sorted_iter') for s in walk(lhs))
            elif av[0] == 'call':
                READ_ONLY = ('::is_empty', '::len', '::contains', '::iter', '::min', '::max', '::select', '::clone', '::rank', '::is_subset', '::is_disjoint')
                muts = [c for c in f.calls() if c.args and strip(c.arg_term(0)) == av and not c.callee.endswith(READ_ONLY)]
                filled = full_range(av) and any(s[0] == 'call' and s[1].endswith(('from_sorted_iter', 'FromIterator::from_iter', 'Iterator::collect')) for s in walk(av))
                empty = av[1].endswith('RoaringBitmap>::new') or av[1].endswith('Default::default')
                seq = list(muts)
                if empty and seq and seq[0].callee.endswith('RoaringBitmap>::insert_range') and full_range(seq[0].arg_term(1)):
                    filled = True
                    first = seq.pop(0)
                    filled = all(f.dominates(first.bb, c.bb) for c in seq)
                ok_av = filled and len(seq) == 1 and seq[0].callee.endswith('SubAssign::sub_assign') and is_used(seq[0].arg_term(1)) \
                    and all(f.dominates(seq[0].bb, rb) for rb, k, t in paths.ret_assigns(f))
                built_at = seq[0].bb if ok_av else None
        ctx.check(ok_av, rule, f.path + '/free-pool', f.loc(), 'free pool = (0..last_id) - used',
                  'the pool of recyclable ids is not (0..last_id) minus the used set: an id in use could be handed out again')
        # flag = !available.is_empty()
        flags = [fl for fl, ty in fields.items() if 'bool' in ty]
        ok_flag = False
        if len(flags) == 1 and len(bms) == 1:
            fi = strip(d[flags[0]])
            if fi[0] == 'call' and fi[1].endswith('::new'):
                x = strip(fi[2][0])
                from rules import nonempty_of
                coll = nonempty_of(x)
                ok_flag = coll is not None and len(bms) == 1 and same(coll, d[bms[0]])
                if ok_flag and built_at is not None:
                    # the emptiness is read after the pool has been completed
                    reads = [s2[3] for s2 in walk(x) if s2[0] == 'call' and s2[1].endswith(('::is_empty', '::len')) and isinstance(s2[3], int)]
                    ok_flag = bool(reads) and all(f.dominates(built_at, rb) and built_at != rb for rb in reads)
        ctx.check(ok_flag, rule, f.path + '/flag-start', f.loc(), 'recycling mode on iff the pool is non-empty',
                  'the recycling flag is not initialised to !available.is_empty()')


def r_n5(ctx, gen):
    """the used set handed to the constructor is the scan of the builder's own tree prefix"""
    F = ctx.F
    name = gen[0]
    rule = 'N5'
    from rules import key_info, cursor_root_call
    n = 0
    for f in F.lib_fns():
        for c in f.calls():
            if c.callee.startswith(name + '::') and any(g.path == c.callee for g in F.lib_fns()) and F.fn(c.callee) and \
                    any(t[0] == 'agg' and t[1] == name for b, k, t in paths.ret_assigns(F.fn(c.callee))):
                n += 1
                src = strip(c.arg_term(0))
                key = '%s/used-set' % f.path
                good = False
                why = show(src)
                if src[0] == 'call':
                    for g in F.resolve_call(f.call_at(src[3])):
                        # g must fold the ids of a prefix scan over Prefix::tree(self.index)
                        its = [x for x in g.calls() if 'prefix_iter' in x.callee]
                        kinds = [(key_info(x.arg_term(2)) or (None,))[0] for x in its]
                        ins = []
                        for h in F.family(g):
                            for x in h.calls():
                                if x.callee.endswith('RoaringBitmap>::insert') or x.callee.endswith('RoaringBitmap>::push'):
                                    ins.append(show(x.arg_term(1)))
                        good = kinds == ['p-tree'] and any('.item' in s and 'node' in s for s in ins)
                        why = 'used = ids of the Prefix::tree(self.index) scan in `%s`' % g.path
                        # every success return of that function is the scan's result (no shortcut answering "nothing in use")
                        if good and its:
                            goals = [rb for rb, rk, rt in paths.ret_assigns(g) if rk in ('ok', 'call', 'other')]
                            if goals and not paths.must_pass(g, 0, goals, [x.bb for x in its]):
                                good = False
                                why = '`%s` can return a used-id set without scanning the tree nodes' % g.path
                    # ... and it reaches the generator untouched: nothing removes ids from it on the way
                    if good:
                        holder = None
                        a0 = c.args[0]
                        if a0.get('k') in ('copy', 'move') and not a0['place']['p']:
                            holder = a0['place']['l']
                        holders = []
                        for _ in range(4):
                            if holder is None:
                                break
                            holders.append(holder)
                            ds = [d for d in f.defs().get(holder, []) if not d[-1]]
                            if len(ds) == 1 and ds[0][0] == 'assign' and ds[0][3]['k'] == 'use' and ds[0][3]['o'].get('k') in ('copy', 'move') and not ds[0][3]['o']['place']['p']:
                                holder = ds[0][3]['o']['place']['l']
                            else:
                                break
                        for holder in holders:
                            for u in f.uses(holder):
                                if u['k'] == 'rv' and u['rk'] == 'ref' and u['rv'].get('mut'):
                                    # a `&mut` borrow of the used set before the generator is built
                                    if f.dominates(u['bb'], c.bb) or u['bb'] in f.reachable(src[3] if isinstance(src[3], int) else 0):
                                        good = False
                                        why = 'the used-id set is mutably borrowed (ids can be removed from it) before the generator is built from it'
                if not good and src[0] == 'call' and src[1].endswith(('RoaringBitmap>::new', 'Default::default')):
                    # the scan is written out in the caller itself (or was inlined from a new helper): a local bitmap that
                    # only receives the ids of the entries of a Prefix::tree(self.index) cursor
                    fills = [x for x in f.calls() if x.callee.endswith(('RoaringBitmap>::insert', 'RoaringBitmap>::push')) and len(x.args) == 2
                             and strip(x.arg_term(0))[0] == 'call' and strip(x.arg_term(0))[3] == src[3]]
                    others = [x for x in f.calls() if x.args and strip(x.arg_term(0))[0] == 'call' and strip(x.arg_term(0))[3] == src[3] and x not in fills
                              and x.callee.endswith(('bitor_assign', 'Extend::extend', 'insert_range', 'bitxor_assign', 'sub_assign', 'RoaringBitmap>::remove', 'bitand_assign', 'RoaringBitmap>::clear'))
                              and f.dominates(x.bb, c.bb)]
                    okf = bool(fills) and not others
                    for x in fills:
                        v = x.arg_term(1)
                        scans = [(key_info(y[2][2]) or (None,))[0] for y in walk(v) if y[0] == 'call' and 'prefix_iter' in y[1] and len(y[2]) > 2]
                        okf = okf and scans and set(scans) == {'p-tree'} and '.item' in show(v) and 'node' in show(v)
                    if okf:
                        good = True
                        why = 'used = ids of the Prefix::tree(self.index) scan written out in `%s`' % f.path
                ctx.check(good, rule, key, c.loc(), why, 'the set of ids in use given to the generator is not the scan of the index\'s own tree nodes (%s)' % why)
    ctx.floor(rule, 'generator constructions', n, 1)


def r_par(ctx, gen):
    F = ctx.F
    rule = 'R-PAR'
    n = 0
    for f in F.lib_fns():
        for c in f.calls():
            if c.callee.startswith('rayon::iter::ParallelIterator::') and c.callee.split('::')[-1] in ('map', 'for_each', 'try_for_each', 'flat_map', 'filter_map', 'map_with', 'for_each_with'):
                clo = strip(c.arg_term(len(c.args) - 1))
                if clo[0] != 'closure':
                    continue
                g = F.fn(clo[1])
                if g is None:
                    continue
                n += 1
                bad = [u for u in g.upvars if 'Immutable' not in u['by'] and u['by'] != 'ByValue' or ('&mut' in u['ty'])]
                bad = [u for u in g.upvars if 'ByRef(Immutable)' not in u['by'] or u['ty'].startswith('&mut')]
                ctx.check(not bad, rule, g.path + '/captures', g.loc(), 'captures only shared references: %s' % [u['name'] for u in g.upvars],
                          'the closure run on the rayon pool captures %s mutably/by value: workers would share mutable state' % [(u['name'], u['by']) for u in bad])
    ctx.floor(rule, 'closures run on the rayon pool', n, 1)


def r_n7(ctx, gen):
    """one generator per build: every id handed out during a build comes from the same instance (two instances seeded from
    two scans hand out overlapping ids, whatever each of them guarantees on its own)"""
    F = ctx.F
    name = gen[0]
    rule = 'N7'
    from props import C06
    be = C06.build_entry(F)
    if not ctx.need(be is not None, rule, 'build entry'):
        return
    ctors = [g.path for g in F.lib_fns() if g.path.startswith(name + '::') and any(t[0] == 'agg' and t[1] == name for b, k, t in paths.ret_assigns(g))]
    sites = []
    for g in F.reach([be]).values():
        if g.in_test:
            continue
        for c in g.calls():
            if c.callee in ctors:
                sites.append((g, c))
    in_loop = [(g, c) for g, c in sites if g.in_cycle(c.bb)]
    ctx.check(len(sites) == 1 and not in_loop, rule, 'one-generator-per-build', sites[0][1].loc() if sites else be.loc(),
              'the build creates exactly one id generator',
              'the build creates %d id generators (%s)%s: ids handed out by one are unknown to the other, so the same tree-node id can be given to two nodes of one build' % (
                  len(sites), sorted({g.path for g, c in sites}), ', one of them in a loop' if in_loop else ''))


def run(ctx):
    ctx.explanation = EXPL
    ctx.trusted = ['rustc nightly MIR construction', 'std atomics: every RMW is atomic under any ordering', 'rayon', 'roaring select/sub semantics']
    ctx.assumptions = ['the database is not written by anyone else while the caller holds the write transaction (LMDB single writer)']
    gen = generator_type(ctx.F)
    if not ctx.need(gen is not None, 'N1', 'id generator type (struct with atomic counters and a method returning Result<u32>)'):
        return
    r_n1(ctx, gen)
    r_n2(ctx, gen)
    r_n6(ctx, gen)
    r_n3(ctx, gen)
    r_n4(ctx, gen)
    r_n5(ctx, gen)
    r_n7(ctx, gen)
    sync_audit(ctx)
    r_par(ctx, gen)
    # the statement refers to C01 ("a forest satisfying C01"): C01's structural clauses are re-checked by this check too
    from props import C01
    import premises
    premises.forest(ctx)
