"""Rule-engine plumbing: obligations, violations, known findings, evidence."""
import json
import os
import time

VERIF = os.path.dirname(os.path.dirname(os.path.abspath(__file__)))


class Ctx:
    """Collects the obligations a property's rules evaluate on one configuration set."""

    def __init__(self, prop, tier, facts_by_config):
        self.prop = prop
        self.tier = tier
        self.facts_by_config = facts_by_config
        self.F = None  # current configuration's facts
        self.config = None
        self.obligations = []  # dicts
        self.notes = []
        self.not_analysed = []
        self.unmodelled = []
        self.explanation = ''
        self.assumptions = []
        self.trusted = []
        self._seen = set()
        self.self_audit = None

    # ------------------------------------------------------------- recording
    def _rec(self, status, rule, key, where, detail, nontrivial=True, path=None):
        full = '%s/%s' % (rule, key)
        ident = (self.config, full, status)
        if ident in self._seen:
            return
        self._seen.add(ident)
        self.obligations.append({
            'rule': rule, 'key': full, 'where': where, 'status': status,
            'detail': detail, 'config': self.config, 'nontrivial': nontrivial,
            'path': path or [],
        })

    def ok(self, rule, key, where='', detail='', nontrivial=True):
        self._rec('ok', rule, key, where, detail, nontrivial)

    def bad(self, rule, key, where, detail, path=None):
        self._rec('violation', rule, key, where, detail, True, path)

    def check(self, cond, rule, key, where='', detail_ok='', detail_bad='', path=None):
        if cond:
            self.ok(rule, key, where, detail_ok)
        else:
            self.bad(rule, key, where, detail_bad or detail_ok, path)
        return cond

    def need(self, cond, rule, what, where=''):
        """an anchor the rule cannot work without; missing => fail closed"""
        if not cond:
            self.bad(rule, 'anchor/' + what, where,
                     'anchor not found: %s (rule cannot be evaluated; failing closed)' % what)
        return bool(cond)

    def floor(self, rule, what, count, minimum):
        """instance-count floor confirmed by hand on the pinned tree"""
        if count < minimum:
            self.bad(rule, 'floor/' + what, '',
                     'only %d instances of "%s" found, expected at least %d (a rule that matches nothing would pass vacuously)' % (count, what, minimum))
        else:
            self.ok(rule, 'floor/' + what, '', '%d instances (floor %d)' % (count, minimum), nontrivial=False)

    def note(self, s):
        if s not in self.notes:
            self.notes.append(s)


def load_known():
    p = os.path.join(VERIF, 'known_findings.json')
    if not os.path.exists(p):
        return {'findings': [], 'fixed': []}
    return json.load(open(p))


def finish(ctx, t0, functions_analysed, seed=0):
    """Write evidence, print KNOWN-FINDING / VIOLATION lines, return exit code."""
    known = load_known()
    known_keys = {}
    for k in known.get('findings', []):
        if k['property'] == ctx.prop:
            known_keys[k['key']] = k
    viol = [o for o in ctx.obligations if o['status'] == 'violation']
    # collapse the same key over configurations
    by_key = {}
    for v in viol:
        by_key.setdefault(v['key'], v)
    new = []
    known_hit = []
    for key, v in sorted(by_key.items()):
        if key in known_keys:
            known_hit.append((key, v))
        else:
            new.append((key, v))
    for key, v in known_hit:
        print('KNOWN-FINDING: property=%s %s -- %s [%s]' % (ctx.prop, key, known_keys[key].get('what', v['detail']), v['where']))
    os.makedirs(os.path.join(VERIF, 'reports'), exist_ok=True)
    os.makedirs(os.path.join(VERIF, 'evidence'), exist_ok=True)
    n = 0
    for key, v in new:
        n += 1
        rp = os.path.join(VERIF, 'reports', '%s-%d.json' % (ctx.prop, n))
        json.dump({'property': ctx.prop, 'key': key, 'rule': v['rule'], 'where': v['where'],
                   'detail': v['detail'], 'path': v['path'], 'config': v['config'], 'tier': ctx.tier},
                  open(rp, 'w'), indent=1)
        print('  rule %s at %s: %s' % (v['rule'], v['where'] or '?', v['detail']))
        print('VIOLATION property=%s replay=%s' % (ctx.prop, rp))
    obl = ctx.obligations
    distinct = {o['key'] for o in obl if o['nontrivial']}
    samples = []
    seen_rules = {}
    for o in obl:
        if seen_rules.get(o['rule'], 0) < 4:
            seen_rules[o['rule']] = seen_rules.get(o['rule'], 0) + 1
            samples.append({'rule': o['rule'], 'instance': o['key'], 'where': o['where'],
                            'status': o['status'], 'detail': o['detail'][:300], 'config': o['config']})
    per_rule = {}
    for o in obl:
        r = per_rule.setdefault(o['rule'], {'instances': 0, 'ok': 0, 'violations': 0})
        r['instances'] += 1
        r['ok' if o['status'] == 'ok' else 'violations'] += 1
    ev = {
        'property_id': ctx.prop,
        'tier': ctx.tier,
        'seed': seed,
        'level': 'other',
        'coverage': {
            'explanation': ctx.explanation,
            'obligations': len(obl),
            'discharged': len([o for o in obl if o['status'] == 'ok']),
            'evaluations': len(obl),
            'distinct_nontrivial': len(distinct),
            'rule': 'each obligation is one rule instance (call site, function, path, table row) enumerated from the MIR facts of /repo; non-trivial = the rule premise matched a construct (floors and bookkeeping excluded); distinct by rule/function/construct key',
            'samples': samples,
            'per_rule': per_rule,
            'functions_analysed': functions_analysed,
            'configs': sorted(ctx.facts_by_config.keys()),
            'not_analysed': ctx.not_analysed,
            'unmodelled': ctx.unmodelled[:50],
            'notes': ctx.notes,
            'known_findings_hit': [k for k, _ in known_hit],
            'self_audit': ctx.self_audit,
            'trusted_base': ctx.trusted,
            'checker_cmd': './check %s --tier %s' % (ctx.prop, ctx.tier),
            'exhaustive': False,
        },
        'assumptions': ctx.assumptions,
        'wall_s': round(time.time() - t0, 2),
        'violations': len(new),
    }
    json.dump(ev, open(os.path.join(VERIF, 'evidence', '%s.json' % ctx.prop), 'w'), indent=1)
    return 1 if new else 0
