"""Shared rule building blocks (effect tables, heed call-site inventory, helpers)."""
from facts import const_eval, strip, show, walk, is_call

# --------------------------------------------------------------------------- heed ops
# op name -> (is_write, index of the key/prefix/range argument or None)
HEED_DB_OPS = {
    'put': (True, 2), 'put_with_flags': (True, 3), 'delete': (True, 2), 'delete_range': (True, 2),
    'get': (False, 2), 'prefix_iter': (False, 2), 'prefix_iter_mut': (True, 2),
    'rev_prefix_iter': (False, 2), 'rev_prefix_iter_mut': (True, 2),
    'clear': (True, None), 'iter': (False, None), 'iter_mut': (True, None), 'rev_iter': (False, None),
    'rev_iter_mut': (True, None), 'len': (False, None), 'is_empty': (False, None),
    'first': (False, None), 'last': (False, None),
    'range': (False, 2), 'range_mut': (True, 2), 'rev_range': (False, 2), 'rev_range_mut': (True, 2),
    'get_lower_than': (False, 2), 'get_lower_than_or_equal_to': (False, 2),
    'get_greater_than': (False, 2), 'get_greater_than_or_equal_to': (False, 2),
    'get_or_put': (True, 2), 'get_or_put_with_flags': (True, 3),
    'put_reserved': (True, 2), 'put_reserved_with_flags': (True, 3),
    'delete_one_duplicate': (True, 2), 'get_duplicates': (False, 2), 'move_on_duplicates': (False, None),
    'stat': (False, None),
}
WHOLE_DB_OPS = {'clear', 'iter', 'iter_mut', 'rev_iter', 'rev_iter_mut', 'len', 'is_empty', 'first', 'last',
                'get_lower_than', 'get_lower_than_or_equal_to',
                'get_greater_than', 'get_greater_than_or_equal_to', 'stat'}
TYPE_ONLY = {'remap_data_type', 'remap_key_type', 'remap_types', 'lazily_decode_data'}
CURSOR_OPS = {'del_current': True, 'put_current': True, 'put_current_with_options': True,
              'put_current_reserved_with_flags': True}


def heed_db_call(c):
    """(op, is_write, keyidx) when `c` calls a heed::Database operation, else None"""
    n = c.callee
    if n.startswith('heed::Database::<') or n.startswith('heed::Database::'):
        op = n.split('::')[-1]
        if op in TYPE_ONLY:
            return None
        if op in HEED_DB_OPS:
            w, k = HEED_DB_OPS[op]
            return (op, w, k)
        return (op, True, None)  # unknown op: treated as a keyless write (fail closed)
    return None


def heed_cursor_call(c):
    n = c.callee
    if n.startswith(('heed::RwPrefix::', 'heed::RwIter::', 'heed::RwRange::', 'heed::RwRevPrefix::',
                     'heed::RwRevIter::', 'heed::RwRevRange::')):
        op = n.split('::')[-1]
        if op in CURSOR_OPS:
            return op
    return None


def db_ops(F, fns=None):
    """every heed Database op call site in the non-test library"""
    out = []
    for f in (fns if fns is not None else F.lib_fns()):
        for c in f.calls():
            h = heed_db_call(c)
            if h:
                out.append((f, c) + h)
    return out


def cursor_ops(F, fns=None):
    out = []
    for f in (fns if fns is not None else F.lib_fns()):
        for c in f.calls():
            h = heed_cursor_call(c)
            if h:
                out.append((f, c, h))
    return out


def fn_refs(f):
    """function items mentioned as values (passed as fn pointers) in body `f`"""
    out = []
    for blk in f.blocks:
        if blk['cleanup']:
            continue
        ops = []
        for st in blk['stmts']:
            rv = st['rv']
            for key in ('o', 'a', 'b'):
                if key in rv and isinstance(rv[key], dict):
                    ops.append((rv[key], st['span']))
            for o in rv.get('ops', []):
                ops.append((o, st['span']))
        t = blk['term']
        if t['k'] == 'call':
            for a in t['args']:
                ops.append((a, t['span']))
        for o, sp in ops:
            if o.get('k') == 'const' and 'fn' in o['c']:
                out.append((o['c']['fn'], sp))
    return out


def callee_names(f):
    """(name, span, kind) for every call and every fn item used as a value"""
    for c in f.calls():
        yield c.callee, c.resolved, c.span, 'call'
    for n, sp in fn_refs(f):
        yield n, '', sp, 'fn-value'


def sp(span):
    return '%s:%d:%d' % (span['file'], span['line'], span['col'])


# --------------------------------------------------------------------------- effect tables
# (prefix, reason)
EFF_TXN_ENV = [
    ('heed::RwTxn::', 'transaction control (commit/abort/nested) belongs to the caller'),
    ('heed::RoTxn::', 'transaction control belongs to the caller'),
    ('heed::txn::', 'transaction control belongs to the caller'),
    ('heed::Env::', 'environment access (txn creation, sync, copy) belongs to the caller'),
    ('heed::env::', 'environment access belongs to the caller'),
    ('heed::EnvOpenOptions', 'environment opening/flags belong to the caller'),
    ('heed::envs::', 'environment access belongs to the caller'),
    ('heed::EnvFlags', 'environment flags belong to the caller'),
    ('heed::Database::<KC, DC, C, CDUP>::sync', 'durability control belongs to the caller'),
    ('heed::mdb::ffi::', 'raw LMDB calls bypass the caller transaction'),
    ('lmdb_master_sys::', 'raw LMDB calls bypass the caller transaction'),
    ('heed::cursor::', 'raw cursors bypass the typed API'),
]
EFF_FS_PROC = [
    ('std::fs::', 'filesystem side channel'),
    ('std::process::', 'process side effect'),
    ('std::env::set_var', 'process environment mutation'),
    ('std::env::remove_var', 'process environment mutation'),
    ('std::env::set_current_dir', 'process environment mutation'),
    ('std::os::', 'raw OS handle manipulation'),
    ('std::net::', 'network side channel'),
    ('tempfile::', 'temporary files (only anonymous ones, only in TmpNodes constructors)'),
    ('memmap2::', 'memory maps (only of the anonymous temp file)'),
    ('std::thread::spawn', 'detached thread could outlive the transaction'),
    ('std::thread::Builder', 'detached thread could outlive the transaction'),
    ('rayon::spawn', 'detached task could outlive the transaction'),
    ('rayon_core::spawn', 'detached task could outlive the transaction'),
    ('std::io::stdin', 'process io'),
]
EFF_LEAK = [
    ('std::mem::forget', 'leaks the value (temp file / descriptor / mmap would survive)'),
    ('core::mem::forget', 'leaks the value'),
    ('std::mem::ManuallyDrop', 'suppresses Drop'),
    ('core::mem::ManuallyDrop', 'suppresses Drop'),
    ('std::boxed::Box::<T>::leak', 'leak'), ('std::boxed::Box::<T, A>::leak', 'leak'),
    ('std::boxed::Box::<T>::into_raw', 'leak'), ('std::boxed::Box::<T, A>::into_raw', 'leak'),
    ('std::vec::Vec::<T, A>::leak', 'leak'),
    ('std::sync::Arc::<T>::into_raw', 'leak'), ('std::sync::Arc::<T, A>::into_raw', 'leak'),
    ('std::rc::Rc::<T>::into_raw', 'leak'),
    ('std::os::fd::IntoRawFd::into_raw_fd', 'descriptor escapes RAII'),
    ('std::os::unix::io::IntoRawFd::into_raw_fd', 'descriptor escapes RAII'),
    ('tempfile::NamedTempFile', 'named temp file may persist'),
    ('tempfile::TempDir', 'temp dir may persist'), ('tempfile::tempdir', 'temp dir may persist'),
    ('tempfile::Builder', 'named temp file may persist'),
    ('tempfile::TempPath', 'named temp file may persist'),
    ('tempfile::file::NamedTempFile', 'named temp file may persist'),
    ('tempfile::SpooledTempFile', 'unexpected temp file kind'), ('tempfile::spooled_tempfile', 'unexpected temp file kind'),
]

# allowed (callee prefix, caller path suffix) pairs, one line of reason each
ALLOW = {
    # (a caller spec starting with '@' is a role: '@tmpnodes-ctor' = an associated function of TmpNodes that returns a TmpNodes
    #  or the File it will own -- the constructors, however many there are and whatever they are called)
    ('tempfile::tempfile', '@tmpnodes-ctor'): 'anonymous, already-unlinked temp file owned by TmpNodes',
    ('tempfile::tempfile_in', '@tmpnodes-ctor'): 'anonymous temp file in the user-chosen directory',
    ('memmap2::Mmap::map', 'parallel::TmpNodes::<DE>::into_bytes_reader'): 'read-only map of the anonymous temp file',
    ('memmap2::Mmap::advise', 'parallel::TmpNodes::<DE>::into_bytes_reader'): 'madvise on that map',
}


def effect_scan(ctx, rule, table, allow=ALLOW, fns=None, what=''):
    """Report every use of a callee from `table` outside its allowed callers.
    Returns (#bodies scanned, #allowed uses seen)."""
    F = ctx.F
    fns = fns if fns is not None else F.lib_fns()
    allowed_seen = 0
    for f in fns:
        for name, resolved, span, kind in callee_names(f):
            for prefix, reason in table:
                if name.startswith(prefix) or resolved.startswith(prefix):
                    owner = f.path.split('::{closure')[0]
                    okk = None
                    for (ap, caller), why in allow.items():
                        if not (name.startswith(ap) and (name == ap or not name[len(ap)].isalnum() and name[len(ap)] != '_')):
                            continue
                        if caller == '@tmpnodes-ctor':
                            of = F.fn(owner)
                            if owner.startswith('parallel::TmpNodes::') and of is not None and ('TmpNodes<' in of.ret_ty() or 'fs::File' in of.ret_ty()):
                                okk = why
                        elif owner.endswith(caller):
                            okk = why
                    key = '%s/%s' % (owner, name.split('::<')[0])
                    if okk:
                        allowed_seen += 1
                        ctx.ok(rule, key, sp(span), 'allowed: ' + okk)
                    else:
                        ctx.bad(rule, key, sp(span), '%s `%s` in `%s`: %s' % (kind, name, f.path, reason))
                    break
    ctx.ok(rule, 'scan/' + (what or rule), '', '%d bodies scanned against %d table rows' % (len(fns), len(table)), nontrivial=False)
    return len(fns), allowed_seen


def root(t):
    """innermost base of a place-like term"""
    while True:
        t = strip(t)
        if t[0] in ('field', 'downcast', 'index', 'cindex', 'subslice'):
            t = t[1]
        elif t[0] == 'call' and t[2] and ('remap_' in t[1] or 'as_ref' in t[1] or 'as_mut' in t[1] or 'reborrow' in t[1]):
            t = t[2][0]
        else:
            return t


def is_param_rooted(f, t):
    """value reached from a parameter (or closure capture) of `f` by refs/fields only"""
    r = root(t)
    return r[0] == 'arg'


def owner_path(f):
    return f.path.split('::{closure')[0]


# --------------------------------------------------------------------------- keys
KEY_CTORS = {'key::Key::item': 'item', 'key::Key::tree': 'tree', 'key::Key::updated': 'updated',
             'key::Key::metadata': 'metadata', 'key::Key::version': 'version', 'key::Key::new': 'new',
             'key::Prefix::item': 'p-item', 'key::Prefix::tree': 'p-tree', 'key::Prefix::updated': 'p-updated',
             'key::Prefix::all': 'p-all'}


NODEID_CTORS = {'node_id::NodeId::item': 'item', 'node_id::NodeId::tree': 'tree', 'node_id::NodeId::updated': 'updated',
                'node_id::NodeId::metadata': 'metadata', 'node_id::NodeId::version': 'version'}


import threading

_TLS = threading.local()


class _Cur:
    """facts of the configuration being analysed by the current thread"""

    def __getitem__(self, i):
        return getattr(_TLS, 'F', None)


CURRENT_F = _Cur()


def set_facts(F):
    _TLS.F = F


def subst(t, mapping):
    """replace ('arg', n, ..) leaves of a callee's term by the caller's argument terms"""
    if not isinstance(t, tuple) or not t:
        return t
    if t[0] == 'arg':
        return mapping.get(t[1], ('unknown', 'arg'))
    out = []
    for x in t:
        if isinstance(x, tuple):
            out.append(subst(x, mapping))
        elif isinstance(x, list):
            out.append([subst(y, mapping) if isinstance(y, tuple) and y and isinstance(y[0], str) else
                        ((y[0], subst(y[1], mapping)) if isinstance(y, tuple) and len(y) == 2 and isinstance(y[1], tuple) else y) for y in x])
        else:
            out.append(x)
    return tuple(out)


def inline_helper(t, depth=0):
    """when `t` is a call to a small in-crate function with a single, loop-free return, the returned term with the
    arguments substituted (so `self.item_key(id)` is seen as `Key::item(self.index, id)`); else None"""
    F = CURRENT_F[0]
    if F is None or depth > 2:
        return None
    t0 = strip(t)
    if t0[0] != 'call' or t0[1] not in F.fns or t0[1] in KEY_CTORS:
        return None
    g = F.fns[t0[1]]
    if g.n > 14 or g.in_test:
        return None
    import paths
    rets = [(b, k, rt) for b, k, rt in paths.ret_assigns(g)]
    if len(rets) != 1 or rets[0][1] in ('err', 'residual'):
        return None
    rt = rets[0][2]
    if rt[0] == 'call' and rets[0][1] == 'call':
        pass
    mapping = {i + 1: a for i, a in enumerate(t0[2])}
    return subst(rt, mapping)


def key_info(t, _depth=0):
    """(kind, index_term, id_term|None) when `t` is built by a Key/Prefix constructor, else None.
    Looks through refs, single-definition temporaries and small in-crate helper functions."""
    t = strip(t)
    if t[0] == 'call' and t[1] not in KEY_CTORS and _depth < 2:
        it = inline_helper(t, _depth)
        if it is not None:
            return key_info(it, _depth + 1)
    if t[0] == 'call' and t[1] in KEY_CTORS:
        kind = KEY_CTORS[t[1]]
        idx = t[2][0] if t[2] else None
        idt = t[2][1] if len(t[2]) > 1 else None
        if kind == 'new' and idt is not None:
            n = strip(idt)
            if n[0] == 'call' and n[1] in NODEID_CTORS:
                return (NODEID_CTORS[n[1]], idx, n[2][0] if n[2] else None)
        return (kind, idx, idt)
    if t[0] == 'agg' and t[1] == 'key::Key':
        d = dict(t[3])
        return ('agg', d.get('index'), d.get('node'))
    return None


def same(a, b):
    return strip_all(a) == strip_all(b)


def strip_all(t):
    """canonical, hashable form: refs/derefs/`?`/value-preserving wrappers removed everywhere,
    call-site identities dropped (so two spellings of one pure expression compare equal)"""
    t = strip(t)
    k = t[0]
    if k == 'arg':
        return ('arg', t[1])
    if k == 'var':
        return ('var', t[1])
    if k == 'const':
        if isinstance(t[2], str) and '::promoted[' in t[2]:
            return ('const', 'promoted:' + t[1])
        return ('const', t[2])
    if k == 'fn':
        return t
    if k == 'field':
        return ('field', strip_all(t[1]), t[2])
    if k == 'downcast':
        return ('downcast', strip_all(t[1]), t[2])
    if k in ('index', 'discr'):
        return (k, strip_all(t[1]))
    if k in ('cindex', 'subslice'):
        return (k, strip_all(t[1])) + tuple(t[2:])
    if k == 'call':
        return ('call', t[1], tuple(strip_all(a) for a in t[2]))
    if k == 'cast':
        return ('cast', strip_all(t[2]), t[3])
    if k == 'binop':
        return ('binop', t[1], strip_all(t[2]), strip_all(t[3]))
    if k == 'unop':
        return ('unop', t[1], strip_all(t[2]))
    if k == 'agg':
        return ('agg', t[1], t[2], tuple((f, strip_all(a)) for f, a in t[3]))
    if k in ('tuple', 'array'):
        return (k, tuple(strip_all(a) for a in t[1]))
    if k == 'closure':
        return ('closure', t[1])
    if k == 'phi':
        return ('phi', t[1])
    return ('unknown',)


def is_self_index(f, t):
    """`self.index` of a method, or a parameter/field named index"""
    t = strip(t)
    return t[0] == 'field' and t[2] == 'index' and strip(t[1])[0] == 'arg' and strip(t[1])[1] == 1


def is_public(f):
    return f.vis == 'Public'


def some_arm(fn, next_call):
    """block at which the element produced by `next_call` is in hand (the Some arm, after an optional `.transpose()?`)"""
    import paths
    cur = next_call.target
    for _ in range(12):
        if cur is None or cur < 0:
            return None
        sw = paths.switch_at(fn, cur)
        if sw is not None:
            d = fn.term(sw['discr'])
            if d[0] == 'discr' and paths.mentions_call(d[1], next_call.bb):
                # type of the discriminated place
                ty = ''
                if sw['discr']['k'] in ('copy', 'move'):
                    for dd in fn.defs().get(sw['discr']['place']['l'], []):
                        if dd[0] == 'assign' and dd[3]['k'] == 'discr':
                            pl = dd[3]['place']
                            if not pl['p']:
                                ty = fn.local_ty(pl['l'])
                tg = {int(v): t for v, t in sw['targets']}
                if ty.startswith('std::option::Option'):
                    return tg.get(1, sw['otherwise'])
                cur = tg.get(0)
                continue
            return None
        ss = fn.succ(cur)
        if len(ss) != 1:
            return None
        cur = ss[0]
    return None


def loop_every_iteration(fn, next_call, must_block):
    """every element obtained from `next_call` is processed by `must_block`: from the Some arm, every path that
    either asks for the next element or reaches a success return passes `must_block` (error returns excepted)"""
    import paths
    start = some_arm(fn, next_call)
    if start is None:
        return False
    goals = [next_call.bb] + [b for b, k, t in paths.ret_assigns(fn) if k in ('ok', 'call', 'other')]
    return paths.must_pass(fn, start, goals, [must_block])


def cursor_root_call(fn, t):
    """the prefix_iter(_mut) call a cursor term derives from"""
    for s in walk(t):
        if s[0] == 'call' and ('prefix_iter' in s[1]):
            return s
    return None


def full_kind_range(t):
    """(kind, index_term) when `t` is the inclusive range Key::k(idx, 0) ..= Key::k(idx, u32::MAX) of one index and kind"""
    ctors = [x for x in walk(t) if x[0] == 'call' and x[1] in KEY_CTORS]
    incl = any((x[0] == 'call' or x[0] == 'agg') and 'RangeInclusive' in x[1] for x in walk(t))
    if len(ctors) != 2 or not incl:
        return None
    a, b = ctors
    if a[1] != b[1] or len(a[2]) < 2 or len(b[2]) < 2 or not same(a[2][0], b[2][0]):
        return None
    lo, hi = strip(a[2][1]), strip(b[2][1])
    if lo[0] == 'const' and lo[2] == 0 and hi[0] == 'const' and hi[2] == 0xFFFFFFFF:
        return (KEY_CTORS[a[1]], a[2][0])
    return None


# --------------------------------------------------------------------------- NodeId mode refinement
NODE_MODES = ('Metadata', 'Updated', 'Tree', 'Item')


def mode_facts(f, b):
    """facts about NodeId modes that hold whenever block b executes:
    [(canonical term of the NodeId, variant name, holds)] from edge-dominating tests
    `match n.mode {..}` (discriminant switch) and `n.mode == NodeMode::V` / `!=`"""
    import paths
    out = []
    for s, x, e in paths.controlling_conds(f, b):
        if not paths.edge_dominates(f, s, x, b):
            continue
        if e[0] == 'disc' and e[1][0] == 'discr':
            m = strip(e[1][1])
            if m[0] == 'field' and m[2] == 'mode':
                owner = strip_all(m[1])
                if e[2] and not e[3]:
                    for v in e[2]:
                        if 0 <= v < 4:
                            out.append((owner, NODE_MODES[v], True))
                else:
                    # otherwise-edge: every explicitly listed value is excluded
                    sw = paths.switch_at(f, s)
                    for v, tg in sw['targets']:
                        if tg != x and 0 <= int(v) < 4:
                            out.append((owner, NODE_MODES[int(v)], False))
        elif e[0] == 'bool':
            c = strip(e[1])
            if c[0] == 'call' and c[1].endswith(('PartialEq::eq', 'PartialEq::ne')) and len(c[2]) == 2:
                a, bb = strip(c[2][0]), strip(c[2][1])
                var = None
                if bb[0] == 'agg' and bb[1].endswith('NodeMode'):
                    var, m = bb[2], a
                elif a[0] == 'agg' and a[1].endswith('NodeMode'):
                    var, m = a[2], bb
                elif bb[0] == 'const' and isinstance(bb[2], str) and 'NodeMode::' in bb[2]:
                    var, m = bb[2].split('NodeMode::')[-1].strip(), a
                if var and m[0] == 'field' and m[2] == 'mode':
                    is_eq = c[1].endswith('::eq')
                    holds = e[2] if is_eq else (not e[2])
                    out.append((strip_all(m[1]), var, holds))
    return out


def key_kind_at(f, c, k):
    """kind of the key argument k of call c, refined by the mode tests dominating the call:
    'item' | 'tree' | ... | 'not-item' | 'new' (unknown)"""
    t = c.arg_term(k)
    fr = full_kind_range(t)
    if fr:
        return fr[0]
    ki = key_info(t)
    if not ki:
        return None
    if ki[0] != 'new' or ki[2] is None:
        return ki[0]
    n = strip_all(ki[2])
    facts = mode_facts(f, c.bb)
    for owner, var, holds in facts:
        if owner == n and holds:
            return var.lower()
    if any(owner == n and var == 'Item' and not holds for owner, var, holds in facts):
        return 'not-item'
    return 'new'


def every_u16(f, t):
    """`t` ranges over every u16 exactly once: the variable of `for i in 0..=u16::MAX`, or a counter started at 0 and
    advanced by `checked_add(1)` whose overflow (None) leaves the loop"""
    import paths
    t0 = strip(t)
    for s in walk(t0):
        if s[0] == 'call' and s[1].endswith('RangeInclusive::<Idx>::new') and len(s[2]) == 2:
            if const_eval(s[2][0]) == 0 and const_eval(s[2][1]) == 65535:
                return True
    if t0[0] == 'phi':
        l = t0[1]
        if f.local_ty(l) != 'u16':
            return False
        zero = False
        step = None
        other = False
        for alt in t0[2]:
            a = strip(alt)
            if const_eval(a) == 0:
                zero = True
            elif a[0] == 'field' and a[2] == '0' and strip(a[1])[0] == 'downcast' and strip(a[1])[2] == 'Some':
                c = strip(strip(a[1])[1])
                if c[0] == 'call' and c[1].endswith('<impl u16>::checked_add') and len(c[2]) == 2 and const_eval(c[2][1]) == 1 \
                        and strip(c[2][0])[0] in ('phi', 'var') and strip(c[2][0])[1] == l:
                    step = c
                else:
                    other = True
            else:
                other = True
        if zero and step is not None and not other:
            cc = f.call_at(step[3])
            # the None edge of the overflow test leaves the loop: it cannot come back to the increment
            for b in f.live_blocks():
                sw = paths.switch_at(f, b)
                if sw is None:
                    continue
                d = f.term(sw['discr'])
                if d[0] == 'discr' and strip(d[1])[0] == 'call' and strip(d[1])[3] == cc.bb:
                    for x in f.succ(b):
                        e = paths.edge_cond(f, b, x)
                        if e and e[0] == 'disc' and 0 in e[2] and not e[3]:
                            return cc.bb not in f.reachable(x)
    return False


def nonempty_of(t):
    """the collection term X when `t` is a non-emptiness test of X: !X.is_empty(), X.len() > 0, X.len() != 0, X.len() >= 1"""
    t0 = strip(t)
    if t0[0] == 'unop' and t0[1] == 'Not':
        x = strip(t0[2])
        if x[0] == 'call' and x[1].endswith('::is_empty') and x[2]:
            return x[2][0]
        return None
    if t0[0] == 'binop' and t0[1] in ('Gt', 'Ne', 'Ge'):
        a = strip(t0[2])
        k = const_eval(t0[3])
        if a[0] == 'call' and a[1].endswith('::len') and a[2] and ((t0[1] in ('Gt', 'Ne') and k == 0) or (t0[1] == 'Ge' and k == 1)):
            return a[2][0]
    if t0[0] == 'binop' and t0[1] in ('Lt', 'Ne', 'Le'):
        b = strip(t0[3])
        k = const_eval(t0[2])
        if b[0] == 'call' and b[1].endswith('::len') and b[2] and ((t0[1] in ('Lt', 'Ne') and k == 0) or (t0[1] == 'Le' and k == 1)):
            return b[2][0]
    return None


def r_setters(ctx, prefixes, rule='R-SETTER'):
    """Option setters of the builder types are faithful: `b.opt(x)` replaces exactly that one option by the caller's value,
    on every path, and leaves every other option of the builder as it was (so the order in which options are given does not
    matter and no value of an option is silently reinterpreted)."""
    F = ctx.F
    n = 0
    owner_fields = {}
    for f in F.lib_fns():
        if not f.path.startswith(prefixes) or '{closure' in f.path or f.arg_count != 2:
            continue
        if not f.local_ty(1).startswith('&mut ') or not f.ret_ty().startswith('&mut '):
            continue
        n += 1
        stores = []   # (block, field path tuple, type of the assigned place, value term)
        for bi, blk in enumerate(f.blocks):
            if blk['cleanup']:
                continue
            for si, st in enumerate(blk['stmts']):
                pl = st['place']
                if pl['l'] == 1 and pl['p'] and pl['p'][0]['k'] == 'deref':
                    path = tuple(e.get('n') for e in pl['p'][1:] if e['k'] == 'field')
                    ty = [e.get('ty') for e in pl['p'] if e['k'] == 'field'][-1:] or ['?']
                    rv = st['rv']
                    val = f.term(rv['o']) if rv['k'] == 'use' else f._def_term(('assign', bi, si, rv, []), 0, frozenset())
                    stores.append((bi, path, ty[0], val))
            t = blk['term']
            if t['k'] == 'call' and t['dest']['l'] == 1 and t['dest']['p'] and t['dest']['p'][0]['k'] == 'deref':
                path = tuple(e.get('n') for e in t['dest']['p'][1:] if e['k'] == 'field')
                ty = [e.get('ty') for e in t['dest']['p'] if e['k'] == 'field'][-1:] or ['?']
                c = f.call_at(bi)
                stores.append((bi, path, ty[0], ('call', c.callee, [c.arg_term(i) for i in range(len(c.args))], bi)))
            # `self.opt.replace(x)` / `self.opt.insert(x)` / `mem::replace(&mut self.opt, x)`: a store through a `&mut` to the field
            if t['k'] == 'call' and (t.get('callee') or '').endswith(('Option::<T>::replace', 'Option::<T>::insert', 'mem::replace')) and len(t['args']) == 2:
                c = f.call_at(bi)
                a0 = strip(c.arg_term(0))
                base = a0
                names = []
                while base[0] in ('ref', 'deref', 'field'):
                    if base[0] == 'field':
                        names.append(base[2])
                    base = strip(base[1])
                if base[0] == 'arg' and base[1] == 1 and names:
                    fty = f.local_ty(t['args'][0]['place']['l']) if t['args'][0].get('k') in ('copy', 'move') else ''
                    fty = fty[len('&mut '):] if fty.startswith('&mut ') else fty
                    val = c.arg_term(1)
                    if not t['callee'].endswith('mem::replace'):
                        val = ('agg', 'std::option::Option', 'Some', [('0', val)])
                    stores.append((bi, tuple(reversed(names)), fty, val))
        # `helper(|opts| opts.x = Some(v))` (helper virtually inlined): the store sits in a local closure applied to `&mut self.<prefix>`
        for bi, blk in enumerate(f.blocks):
            t = blk['term']
            if blk['cleanup'] or t['k'] != 'call' or not (t.get('callee') or '').endswith(('FnOnce::call_once', 'FnMut::call_mut', 'Fn::call')):
                continue
            c = f.call_at(bi)
            clo = strip(c.arg_term(0))
            while clo[0] in ('ref', 'deref'):
                clo = strip(clo[1])
            tup = strip(c.arg_term(1)) if len(c.args) > 1 else ('unknown',)
            if clo[0] != 'closure' or F.fn(clo[1]) is None or tup[0] != 'tuple' or len(tup[1]) != 1:
                continue
            base = strip(tup[1][0])
            prefix = []
            while base[0] in ('ref', 'deref', 'field'):
                if base[0] == 'field':
                    prefix.append(base[2])
                base = strip(base[1])
            if not (base[0] == 'arg' and base[1] == 1):
                continue
            g = F.fn(clo[1])
            caps = list(clo[2]) if len(clo) > 2 else []
            from reader_rules import closure_subst
            for gi, gblk in enumerate(g.blocks):
                if gblk['cleanup']:
                    continue
                for si, st in enumerate(gblk['stmts']):
                    pl = st['place']
                    if pl['l'] == 2 and pl['p'] and pl['p'][0]['k'] == 'deref':
                        path = tuple(reversed(prefix)) + tuple(e.get('n') for e in pl['p'][1:] if e['k'] == 'field')
                        ty = [e.get('ty') for e in pl['p'] if e['k'] == 'field'][-1:] or ['?']
                        rv = st['rv']
                        val = g.term(rv['o']) if rv['k'] == 'use' else g._def_term(('assign', gi, si, rv, []), 0, frozenset())
                        val = closure_subst(val, caps)
                        # only unconditional inside the closure as well
                        blk_ok = all(g.dominates(gi, r) for r in g.return_blocks())
                        stores.append((bi if blk_ok else -1, path, ty[0], val))
        name = f.path.rsplit('::', 1)[1]
        paths_set = {p for b, p, ty, v in stores}
        why = None
        if len(paths_set) != 1:
            why = 'it assigns %s' % (sorted('.'.join(map(str, p)) for p in paths_set) or 'nothing')
        else:
            rets = f.return_blocks()
            for b, p, ty, v in stores:
                base_ty = (ty or '').split('<')[0]
                a = F.adts.get(base_ty)
                if a is not None and a.get('kind') == 'Struct' and sum(len(vv.get('fields', [])) for vv in a.get('variants', [])) > 1 and not base_ty.startswith(('std::', 'core::', 'alloc::')):
                    why = 'it replaces the whole `%s` (every other option is reset)' % base_ty
                    break
                v0 = strip(v)
                if not any(y[0] == 'arg' and y[1] == 2 for y in walk(v0)):
                    why = 'the stored value does not come from the argument'
                    break
                if any(y[0] == 'phi' for y in walk(v0)):
                    why = 'the stored value depends on a condition (%s)' % show(v0)[:60]
                    break
                if (ty or '').startswith(('std::option::Option', 'core::option::Option')) and not (v0[0] == 'agg' and v0[2] == 'Some'):
                    why = 'the option is not set to Some(argument) (%s)' % show(v0)[:60]
                    break
                if b < 0 or not all(f.dominates(b, r) for r in rets):
                    why = 'the store does not happen on every path'
                    break
        if why is None and len(paths_set) == 1:
            owner_fields.setdefault(next(iter(paths_set)), []).append(f.path)
        ctx.check(why is None, rule, f.path.split('::<')[0].split('::')[-2].split('<')[0] + '::' + name if False else '%s' % f.path, f.loc(),
                  'sets exactly its own option to the caller\'s value, unconditionally',
                  'the setter `%s` is not a plain "replace this one option by the argument": %s -- other options given before it, or particular values of this one, would be lost or reinterpreted' % (f.path, why))
    # every setter has an option of its own: two setters storing the same field means one of them sets the wrong option
    for fld, setters in owner_fields.items():
        ctx.check(len(setters) == 1, rule, 'distinct/' + '.'.join(map(str, fld)), '', 'one setter per option',
                  'the option `%s` is stored by %d setters (%s): one of them sets another option than the one it is named after' % ('.'.join(map(str, fld)), len(setters), sorted(setters)))
    return n
