"""Regenerate MANIFEST.json from the table below (kept next to the rules it describes)."""
import json
import os

VERIF = os.path.dirname(os.path.dirname(os.path.abspath(__file__)))

ENGINE = 'MIR fact extractor (driver/) + Python rule engine (sa/)'
BASE_NOTE = ('Trusted: rustc nightly front end and MIR construction (dev-profile MIR of the real build, host x86_64), '
             'Instance::try_resolve, heed 0.22 / LMDB semantics, roaring/bytemuck/byteorder/tempfile/memmap2 as documented, '
             'the frozen idiom and effect tables in sa/. Only the clauses listed in the text are decided; ')

CHECKS = {
    'C06': dict(
        technique='CFG must-pass-through / dominance rules + finite-domain truth table over MIR',
        text='Static path rules on the type-checked MIR: updated mark after every effective item write and only then (all public Writer mutators), three correctly-polarised gates dominating Ok(Reader) in Reader::open, need_build truth table, build consumes every mark and publishes Metadata{distance: D::name()} on every success path, clear wipes the whole prefix, metric names distinct. Universally quantified over histories/positions because it is a fact about every control-flow path, which the test suite can only sample.',
        design='DESIGN.md §4 C06',
        note='LMDB call semantics trusted; nothing structural left undecided.'),
    'C08': dict(
        technique='effect tables (who-may-call) + transaction provenance over resolved MIR callees',
        text='Decides the code-anchored necessary condition "arroy adds no side channel around the caller\'s transaction": zero transaction/environment calls or fn-pointer uses in the library, every heed operation takes the caller\'s transaction, no global mutable state, Reader/Writer free of interior mutability, unsafe Sync impls audited. LMDB\'s MVCC itself is trusted, not verified. "Exactly one committed version, complete and searchable" also needs what a writer leaves in its transaction to be servable: the C01 forest rules and the C06 staleness rules are re-evaluated here.',
        design='DESIGN.md §4 C08/C09',
        note='NOT decided: visibility at commit and snapshot stability under thread schedules (LMDB).'),
    'C09': dict(
        technique='effect tables (who-may-call) over resolved MIR callees',
        text='Decides "no durability side channel": the library never commits/aborts/syncs/opens environments, all writes go through the caller\'s transaction, the only filesystem effects are anonymous temp files in the TmpNodes constructors, no global state. Crash atomicity itself is LMDB\'s and is trusted. The state a crash can expose is what a writer leaves in its transaction: the C01 forest rules and the C06 staleness rules are re-evaluated here.',
        design='DESIGN.md §4 C08/C09',
        note='NOT decided: the set of crash states LMDB can expose.'),
}

CHECKS.update({
    'C07': dict(
        technique='index-provenance dataflow over MIR origin terms + whole-database effect table',
        text='Every Key/Prefix constructor call in the library takes the function\'s own index (self.index, a u16 parameter fed by induction over the call graph, or the per-index upgrade loop variable); every heed operation\'s key/prefix/range is built by such a constructor; ranges are the inclusive full id range of one kind of one index; cursor writes use the yielded key; whole-database operations only in upgrade/n_nodes. Holds for every pair of index numbers and ids at once because it is a fact about the code, not about sampled indexes. The key codec clause of C16 is re-evaluated (the index must survive decode/encode of cursor-based rewrites) and the whole-database count accessor has no caller inside the library.',
        design='DESIGN.md §4 C07',
        note='NOT decided: heed\'s prefix iteration itself; byte-for-byte equality is implied by, not checked beyond, key provenance.'),
    'C10': dict(
        technique='error-discipline (Result consumption) dataflow over MIR locals + effect tables + finite-domain evaluation of the cancel poll',
        text='Every Result carrying heed::Error/io::Error/arroy::Error anywhere in the library (incl. every cancellation poll and iterator item) is propagated by an accepted idiom; swallowing consumers, Err arms reaching success, rewrapped cancellation errors, leak primitives, internal commits and non-owning temp-file handles are violations naming the site. Covers every fault position at once, which fault-injection tests can only sample. Temporary node files are created in the configured directory whenever one is configured, and a writer derived from a writer keeps it (R-TMPDIR: an unusable temp directory surfaces as an IO error).',
        design='DESIGN.md §4 C10',
        note='NOT decided: Option unwraps guarded by structural invariants; LMDB abort semantics; non-monotone callbacks.'),
    'C19': dict(
        technique='CFG dominance of the length gate over all effects and success returns + match-arm analysis of the append mapping + sibling agreement',
        text='The exact length comparison dominates every database effect and every success return in add_item/append_item/by_vector and its failing edge returns InvalidVecDimension{expected, received}; append maps exactly Mdb(KeyExist) to InvalidItemAppend, propagates other errors and marks only on Ok; add/append write identical keys and leaf; del_item writes nothing and returns false on absence.',
        design='DESIGN.md §4 C19',
        note='NOT decided: LMDB\'s own MDB_APPEND ordering check.'),
})

CHECKS.update({
    'C05': dict(
        technique='byte-copy audit of the f32 codec + key discipline + must-pass-through write rule + truncation (sibling) rule + effect table over the build call graph',
        text='No float arithmetic and one endianness class in the f32 codec; every item API addresses Key::item(self.index, item); every success return of add/append follows the item put; every vector decoded from a stored leaf and returned or re-encoded is truncated to the declared dimension; iterators scan exactly the item prefix pairing id and vector of the same entry; del_item returns the answer of its own delete on each side (R-DEL); clear removes every key; nothing reachable from the build writes an item key except the header-only preprocess rewrite; metadata.items is the live item scan; every success path of a build publishes the metadata (R-PUBLISH); the quantised codec clauses of C12 (packer, iterator) are re-evaluated because the item store goes through them. Stored leaf = caller vector with its own header in both entry points (R-LEAF).',
        design='DESIGN.md §4 C05',
        note='NOT decided: heed/LMDB get/put fidelity; bit-exactness beyond "no arithmetic between API and store".'),
    'C13': dict(
        technique='typestate/RMW discipline over MIR: atomic-field access table, provenance of returned ids, constructor dataflow, Sync audit, closure-capture audit',
        text='Uniqueness of ids under every schedule follows from RMW atomicity alone once: every counter access is a single fetch_add(..,1), every returned id is that fetch_add result or select() at it, the flag is monotone, the free pool is (0..last_id) minus used with the fresh counter starting at max(used)+1, the used set is the scan of the index own tree prefix, no &mut path to the generator exists, and rayon workers capture only shared references. These are facts about the code, so they cover all interleavings and thread counts. The C01 forest rules are re-evaluated (the ids allocated must also be stored and linked).',
        design='DESIGN.md §4 C13',
        note='NOT decided: rayon / std atomics themselves (trusted); that the forest built in parallel satisfies C01 beyond id uniqueness.'),
    'C16': dict(
        technique='wire-schema extraction from encoder/decoder MIR (ordered append events, slice-offset chains) compared with a reference layout table; byte-layout expressions (array literals, concat, to_vec, in-place filled arrays) evaluated to the same rows',
        text='Encoder rows = decoder rows = reference rows for KeyCodec, PrefixCodec, NodeId, NodeCodec (per variant, tags), MetadataCodec, VersionCodec, RoaringBitmapCodec; NodeMode discriminants and TryFrom table; metric names; header sizes/fields; native-endian element encoding on both sides; quantised packer emits one NE u64 per chunk of 64. A consistent encoder+decoder change, invisible to round-trip tests, is reported.',
        design='DESIGN.md §4 C16',
        note='NOT decided: roaring serialisation; decoding of real golden fixtures (needs data); NE vs LE not distinguished on this little-endian host.'),
    'C17': dict(
        technique='table extraction from MIR assignments + control dependence (post-dominators), write/read role provenance, per-element loop rule',
        text='Old->new kind tables for key/left/right extracted and compared; all writes go to the destination under the re-tagged key, all reads from the source; one Updated key per pending element; metadata renamed on every path; the 0.5->0.6 step writes only Key::version(i) guarded (edge-dominated) by metadata presence of the same i over 0..=65535.',
        design='DESIGN.md §4 C17',
        note='NOT decided: that real v0.4 data decodes (needs data).'),
    'C18': dict(
        technique='edge dominance of the TypeId test over all writes + must-pass-through / per-element loop rules + truncation rule',
        text='Same metric => no write; on a real change every path deletes the metadata, deletes every tree node and re-encodes every item in place from its own truncated vector with the new metric header/codec; no item is deleted; handle keeps index/dimensions; keys carry the own index; open refuses a different stored name. The C01 forest rules are re-evaluated (the rebuild after a change must wipe and rewrite the forest).',
        design='DESIGN.md §4 C18',
        note='NOT decided: validity/searchability after the rebuild beyond C01/C02 clauses.'),
})

CHECKS.update({
    'C01': dict(
        technique='bounded interprocedural kind inference with mode refinement + L/R tag propagation + must-pass-through / per-element loop rules over MIR',
        text='Necessary local disciplines of the forest invariant, each decided on every path: no tree id reaches an item sink or vice versa (with `n.item` refined by dominating mode tests; re-tagging needs a mode test), children of every constructed split derive from their own side, both children get the same operations, every fresh id is stored and linked, bucket rewrites are `|= to_insert` / `-= to_delete` under their own id, no stale item lookup is fatal, the shortcut wipes the tree range, metadata publishes the threaded roots vector and the live item scan, every TmpNodesReader is applied, the batch selector partitions its input; a parent is re-linked whenever either child id changed (whole-id comparison); RoaringBitmap::push only receives ascending values; merged buckets are exactly the union of both sides. `a successful build` premise: no storage error or cancellation is swallowed anywhere (C10 R-ERR / R-CANCEL re-evaluated); the metric-change clauses of C18 are part of the shared premises.',
        design='DESIGN.md §4 C01',
        note='NOT decided: that the local disciplines compose into the global invariant for all histories (a proof-family job); remap across batches; split_after changing between builds.'),
    'C02': dict(
        technique='loop-exit enumeration, must-pass-through and dataflow-provenance rules on the traversal function\'s MIR',
        text='Given C01 and C11, exactness under an unlimited budget reduces to the traversal\'s shape: only exits are budget/queue-empty/error, all roots seeded, both children pushed on every path, buckets contribute all ids, sort+dedup, each candidate scored against its live leaf in the caller txn, min-first bounded output with the entry\'s own normalized distance. The premises are not assumed: the C01 forest rules and the C11 kernel-shape rules are re-evaluated by this check, so a change that breaks exactness through the forest or a kernel is reported here too.',
        design='DESIGN.md §4 C02',
        note='NOT decided: numerical truth of distances (C11); forest completeness (C01).'),
    'C03': dict(
        technique='edge-dominance filter rule, loop-exit enumeration, def-use audit of the budget, formula extraction, per-metric header field read/write sets',
        text='Every id entering the candidate list is filtered or under the no-filter branch; the budget only gates the loop and is (search_k or count x n_trees) x (oversampling or DEFAULT) with saturating arithmetic; bounded distinct ordered output; by_item and by_vector share the traversal, unknown id => Ok(None); per metric the query path reads no header field that only the build-time preprocess fills. The C11 kernel-shape rules and the forest / staleness premises (C01, C06 rule sets) are re-evaluated. Every QueryBuilder setter replaces exactly its own option by the caller value on every path (R-SETTER); by_item answers None only on the None arm of the item lookup.',
        design='DESIGN.md §4 C03',
        note='NOT decided: distance truth (C11); monotonicity is a consequence of the checked premises, not checked on values.'),
    'C04': dict(
        technique='finite sign-domain abstract interpretation (incl. NaN) of side/pq_distance + L/R tag propagation + pairing rules',
        text='margin>0 => Right, <0 => Left; pq_distance keeps the routed side positive and the other negative (default methods and every override); margin_no_header impls forward both args to one symmetric kernel; every split construction pairs children with sides; reader pushes left with Side::Left; max-heap; random children <=> zeroed normal; centroid / normalisation guards keep NaN out of split normals; the forest / staleness premises (C01, C06 rule sets) are re-evaluated (an overwritten vector must leave its old position and be re-routed). A null margin caps the priority at zero on both sides and a negative priority stays negative (pq table incl. zero/negative rows); is_zero of every vector codec is `every element is 0` over the whole vector.',
        design='DESIGN.md §4 C04',
        note='NOT decided: nothing structural; exactly-zero margins exempt by the property.'),
    'C11': dict(
        technique='SIMD kernel shape extraction from MIR (load offsets, strides, accumulators, tail) + target-feature guard dominance + formula/interval checks',
        text='Structural clauses only: lane tiling/pairing/accumulator/horizontal-sum/remainder shape of all 4 x86 kernels, scalar loops, dispatch to kernels of the right kind, every target-feature call guarded, per-metric formula shapes incl. Cosine in [0,1] by interval evaluation and its vanishing-norm guard. The leaf stored by add_item/append_item is Leaf{header: D::new_header(&v), vector: v} of the caller vector (R-LEAF).',
        design='DESIGN.md §4 C11',
        note='NOT decided: rounding error and last-ulp agreement (a statement about values); simple_neon.rs not compiled on this host. One known finding (SSE4.1 intrinsic behind an sse check) is listed in known_findings.json.'),
    'C12': dict(
        technique='coefficient extraction (linear form in the popcount), finite-domain evaluation of the bit->value map, state-machine and mask-table extraction from MIR',
        text='4h/d and 2h/d by construction (constant coefficient x popcount(u xor v) / declared dimension); quantised dot product and cosine form; decoder maps bit1->+1, bit0->-1 LSB-first reloading every 64; packer puts component i at bit i with 1 = positive sign bit, one NE word per 64, padding bits 0 on both entry points; SSE mask/lane/group/store table; feature guards; truncation; every D::normalized_distance call passes the declared dimension; the quantised cosine quotient is guarded by its own denominator; C18\'s metric-change rules are re-evaluated (the stored norm header). The quantised leaf stored by the item API is built from the caller vector as is (R-LEAF).',
        design='DESIGN.md §4 C12',
        note='NOT decided: bit-exact round trip for all patterns/dimensions; NEON paths. Known finding shared with C11.'),
    'C14': dict(
        technique='loop-exit enumeration with progress guard, conservation (must-pass-through) rules on the batch selector, worklist rules, forward def-use closure of the memory option',
        text='A non-empty input always yields a non-empty batch (break needs >= K>=1 selected); the examined id is moved as a whole or not at all; the selected half is routed, the remainder re-examined or passed on, over-full results re-queued, worklist pops what it examines; the memory hint reaches only the selector; re-splitting an over-full bucket from a partial batch can never hand back a single bucket (Q-PROGRESS: the worklist drains). The C01 forest rules are re-evaluated. The remainder is re-inserted below the examined bucket id (where the rebuilt subtree was stored, remap direction checked); C15 capacity gate re-evaluated (every over-full bucket queued under its own id).',
        design='DESIGN.md §4 C14',
        note='NOT decided: termination when re-splitting does not shrink (C20); time.'),
    'C15': dict(
        technique='edge-dominance capacity gate on every bucket write, dominance of the worklist drain over the metadata put, formula/loop rules for the tree count',
        text='fit_in_descendant is n <= split_after.unwrap_or(dimensions); every bucket write is under it, or queued for re-splitting, or a shrunk copy, or in a function only called under it; worklist drained before metadata; explicit Some(n) used unchanged, surplus roots removed with their trees deleted, exactly target - roots.len() roots created; the forest / staleness premises (C01, C06 rule sets) are re-evaluated. A merged bucket (union of two sub-trees) is never a shrunk copy; every id put on a worklist parameter is the id of a bucket written there. The automatic tree count is bounded below by 1 (interval evaluation of the automatic arm; the pinned tree returned 0 for one-dimensional indexes -- repaired by a fix: commit). Every ArroyBuilder setter replaces exactly its own option (R-SETTER: the order of the options does not matter).',
        design='DESIGN.md §4 C15',
        note='NOT decided: arithmetic of the automatic tree count (0 for dimensions = 1 -- observed, value-level, never reported); numeric equality roots.len() == n.'),
    'C20': dict(
        technique='type audit of ordered containers, sign-domain totality of side(), bounded-loop (strictly decreasing counter / constant range) rules, guard dominance rules',
        text='No ordering on bare floats and no unwrap of float partial_cmp; side() total on NaN/0; split retries bounded by a strictly decreasing counter with a random fallback paired with a zero normal; no 0/0 in the imbalance; two-means bounded with NaN/non-positive norm guards; normalisation only under norm > 0; Cosine 0 for vanishing norms; the search path is value-independent in shape; the worklist of over-full buckets drains (C14 progress rules); the forest / staleness premises (C01, C06 rule sets) are re-evaluated.',
        design='DESIGN.md §4 C20',
        note='NOT decided: termination of the recursion on all-duplicate sets (probabilistic); bounded time; invariant-guarded unwraps.'),
})

NOT_YET = {}


def main():
    props = [json.loads(l) for l in open(os.path.join(VERIF, 'properties.jsonl'))]
    checks = []
    na = []
    for p in props:
        pid = p['id']
        if pid in CHECKS and os.path.exists(os.path.join(VERIF, 'sa', 'props', pid + '.py')):
            c = CHECKS[pid]
            checks.append({
                'property_id': pid,
                'quick_cmd': './check %s --tier quick' % pid,
                'thorough_cmd': './check %s --tier thorough' % pid,
                'evidence_file': 'evidence/%s.json' % pid,
                'replay_cmd_template': './check replay {path}',
                'engine': ENGINE,
                'level_claimed': {'category': 'other', 'text': c['text'], 'design_ref': c['design']},
                'level_note': BASE_NOTE + c['note'],
                'technique': 'static analysis: ' + c['technique'],
            })
        else:
            na.append({'property_id': pid, 'reason': NOT_YET.get(pid, 'static rules for this property are not wired yet in this commit (see DESIGN.md §8 build order); not claimed until they are')})
    m = {
        'version': 1,
        'setup_cmd': 'python3 sa/setup.py',
        'hooks': {'guard': 'arroy_verif', 'enable': 'none needed: the analysis instruments nothing (no cfg-guarded code in /repo)',
                  'baseline_off_cmd': 'cd /repo && cargo test --workspace --no-fail-fast --offline', 'source_commits': [], 'add_only': True},
        'engines': [{'name': 'arroy-facts-driver', 'path': 'driver/', 'serves_properties': [c['property_id'] for c in checks],
                     'kind_free_text': 'rustc_private driver dumping MIR/type/impl facts of /repo as JSON on every run'},
                    {'name': 'rule engine', 'path': 'sa/', 'serves_properties': [c['property_id'] for c in checks],
                     'kind_free_text': 'CFG/dominator/def-use/origin-term analyses and per-property rules (Python, stdlib only)'}],
        'checks': checks,
        'not_applicable': na,
        'notes': 'Technique family: static analysis only. Every verdict is computed from MIR facts re-extracted from /repo on each run; nothing under test is executed.',
    }
    json.dump(m, open(os.path.join(VERIF, 'MANIFEST.json'), 'w'), indent=1)
    print('checks', len(checks), 'not_applicable', len(na))


if __name__ == '__main__':
    main()
