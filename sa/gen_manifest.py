"""Regenerate MANIFEST.json from the table below (kept next to the rules it describes)."""
import json
import os

VERIF = os.path.dirname(os.path.dirname(os.path.abspath(__file__)))

ENGINE = 'MIR fact extractor (driver/) + Python rule engine (sa/)'
BASE_NOTE = ('Trusted: rustc nightly front end and MIR construction (dev-profile MIR of the real build, host x86_64), '
             'Instance::try_resolve, heed 0.22 / LMDB semantics, roaring/bytemuck/byteorder/tempfile/memmap2 as documented, '
             'the frozen idiom and effect tables in sa/. Only the clauses listed in the text are decided; ')

CHECKS = {
    'C06': dict(
        technique='CFG must-pass-through / dominance rules + finite-domain truth table over MIR',
        text='Static path rules on the type-checked MIR: updated mark after every effective item write and only then (all public Writer mutators), three correctly-polarised gates dominating Ok(Reader) in Reader::open, need_build truth table, build consumes every mark and publishes Metadata{distance: D::name()} on every success path, clear wipes the whole prefix, metric names distinct. Universally quantified over histories/positions because it is a fact about every control-flow path, which the test suite can only sample.',
        design='DESIGN.md §4 C06',
        note='LMDB call semantics trusted; nothing structural left undecided.'),
    'C08': dict(
        technique='effect tables (who-may-call) + transaction provenance over resolved MIR callees',
        text='Decides the code-anchored necessary condition "arroy adds no side channel around the caller\'s transaction": zero transaction/environment calls or fn-pointer uses in the library, every heed operation takes the caller\'s transaction, no global mutable state, Reader/Writer free of interior mutability, unsafe Sync impls audited. LMDB\'s MVCC itself is trusted, not verified.',
        design='DESIGN.md §4 C08/C09',
        note='NOT decided: visibility at commit and snapshot stability under thread schedules (LMDB).'),
    'C09': dict(
        technique='effect tables (who-may-call) over resolved MIR callees',
        text='Decides "no durability side channel": the library never commits/aborts/syncs/opens environments, all writes go through the caller\'s transaction, the only filesystem effects are anonymous temp files in the TmpNodes constructors, no global state. Crash atomicity itself is LMDB\'s and is trusted.',
        design='DESIGN.md §4 C08/C09',
        note='NOT decided: the set of crash states LMDB can expose.'),
}

NOT_YET = {}


def main():
    props = [json.loads(l) for l in open(os.path.join(VERIF, 'properties.jsonl'))]
    checks = []
    na = []
    for p in props:
        pid = p['id']
        if pid in CHECKS and os.path.exists(os.path.join(VERIF, 'sa', 'props', pid + '.py')):
            c = CHECKS[pid]
            checks.append({
                'property_id': pid,
                'quick_cmd': './check %s --tier quick' % pid,
                'thorough_cmd': './check %s --tier thorough' % pid,
                'evidence_file': 'evidence/%s.json' % pid,
                'replay_cmd_template': './check replay {path}',
                'engine': ENGINE,
                'level_claimed': {'category': 'other', 'text': c['text'], 'design_ref': c['design']},
                'level_note': BASE_NOTE + c['note'],
                'technique': 'static analysis: ' + c['technique'],
            })
        else:
            na.append({'property_id': pid, 'reason': NOT_YET.get(pid, 'static rules for this property are not wired yet in this commit (see DESIGN.md §8 build order); not claimed until they are')})
    m = {
        'version': 1,
        'setup_cmd': 'python3 sa/setup.py',
        'hooks': {'guard': 'arroy_verif', 'enable': 'none needed: the analysis instruments nothing (no cfg-guarded code in /repo)',
                  'baseline_off_cmd': 'cd /repo && cargo test --workspace --no-fail-fast --offline', 'source_commits': [], 'add_only': True},
        'engines': [{'name': 'arroy-facts-driver', 'path': 'driver/', 'serves_properties': [c['property_id'] for c in checks],
                     'kind_free_text': 'rustc_private driver dumping MIR/type/impl facts of /repo as JSON on every run'},
                    {'name': 'rule engine', 'path': 'sa/', 'serves_properties': [c['property_id'] for c in checks],
                     'kind_free_text': 'CFG/dominator/def-use/origin-term analyses and per-property rules (Python, stdlib only)'}],
        'checks': checks,
        'not_applicable': na,
        'notes': 'Technique family: static analysis only. Every verdict is computed from MIR facts re-extracted from /repo on each run; nothing under test is executed.',
    }
    json.dump(m, open(os.path.join(VERIF, 'MANIFEST.json'), 'w'), indent=1)
    print('checks', len(checks), 'not_applicable', len(na))


if __name__ == '__main__':
    main()
