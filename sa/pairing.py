"""A4 -- Left/Right pairing by tag propagation over MIR locals.

Seeds: values pushed/inserted into a container under the `Side::Left` (resp. Right) edge of a switch on the
result of `Distance::side` / `Side::random` tag that container L (resp. R); reads of the `left` / `right` field of a split
node are L / R; the constant `Side::Left` is L.  Tags flow through assignments (tuple fields tracked positionally),
from call arguments to call results, and through `&mut` out-parameters by a per-callee summary.
Check: in every `SplitPlaneNormal { left: a, right: b, .. }` aggregate, tag(a) = {L} and tag(b) = {R}."""
import paths
from facts import strip, show, walk, short


def root_local(op):
    if op.get('k') in ('copy', 'move'):
        return op['place']['l']
    return None


class Tags:
    def __init__(self, F, f, summaries=None):
        self.F = F
        self.f = f
        self.t = {}  # (local, idx|None) -> set
        self.summaries = summaries or {}
        self.seed_sites = []
        self.seeded = {}   # container local -> item-side tags it receives directly (Side arms, out-parameter summaries)
        self.run()

    # -------------------------------------------------------------- store
    # keys are (local, path) with path = tuple of field indices (derefs and downcasts are transparent); a tag stored at a
    # path holds for everything below it, and reading a place collects the tags at, above and below its path
    def add(self, l, path, tags):
        if not tags:
            return False
        if path is None:
            path = ()
        elif isinstance(path, int):
            path = (path,)
        k = (l, tuple(path))
        cur = self.t.setdefault(k, set())
        n = len(cur)
        cur |= tags
        return len(cur) != n

    @staticmethod
    def place_path(pl):
        """(field-index path, exact) -- exact is False when the projection contains an index/subslice"""
        path = []
        for e in pl['p']:
            if e['k'] == 'field':
                try:
                    path.append(int(e['i']))
                except Exception:
                    return tuple(path), False
            elif e['k'] in ('deref', 'downcast'):
                continue
            else:
                return tuple(path), False
        return tuple(path), True

    def subtree(self, l, path):
        """{relative path: tags} of everything stored at or below (l, path), plus the tags of the enclosing prefixes at ()"""
        out = {}
        n = len(path)
        for (ll, p), tg in self.t.items():
            if ll != l:
                continue
            if p[:n] == path:
                out.setdefault(p[n:], set()).update(tg)
            elif path[:len(p)] == p:
                out.setdefault((), set()).update(tg)
        return out

    def read_place(self, pl):
        # a child link has its own side, whatever the container's tags
        for e in pl['p']:
            if e['k'] == 'field' and e['n'] in ('left', 'right') and 'NodeId' in e.get('ty', ''):
                return {'Ll' if e['n'] == 'left' else 'Rl'}
        path, _exact = self.place_path(pl)
        out = set()
        for tg in self.subtree(pl['l'], path).values():
            out |= tg
        return out

    def read_op(self, op):
        if op.get('k') in ('copy', 'move'):
            return self.read_place(op['place'])
        if op.get('k') == 'const':
            txt = op['c'].get('text', '')
            if 'Side::Left' in txt:
                return {'Li'}
            if 'Side::Right' in txt:
                return {'Ri'}
        return set()

    def copy_tree(self, dl, dpath, op):
        """field-sensitive copy of an operand into (dl, dpath)"""
        changed = False
        if op.get('k') in ('copy', 'move'):
            pl = op['place']
            for e in pl['p']:
                if e['k'] == 'field' and e['n'] in ('left', 'right') and 'NodeId' in e.get('ty', ''):
                    return self.add(dl, dpath, {'Ll' if e['n'] == 'left' else 'Rl'})
            sp, _exact = self.place_path(pl)
            for rest, tg in self.subtree(pl['l'], sp).items():
                changed |= self.add(dl, tuple(dpath) + rest, set(tg))
            return changed
        return self.add(dl, dpath, self.read_op(op))

    # -------------------------------------------------------------- seeds
    def side_edges(self):
        """[(switch block, successor, tag)] for switches on a Side value"""
        f = self.f
        out = []
        for b in f.live_blocks():
            sw = paths.switch_at(f, b)
            if sw is None:
                continue
            d = f.term(sw['discr'])
            if d[0] != 'discr':
                continue
            src = strip(d[1])
            is_side = False
            if src[0] == 'call' and (src[1].endswith('Distance::side') or src[1].endswith('Side::random')):
                is_side = True
            elif src[0] in ('arg', 'var') and 'internals::Side' in f.local_ty(src[1]):
                is_side = True
            if not is_side:
                continue
            listed = {int(v): t for v, t in sw['targets']}
            for v, t in listed.items():
                if v in (0, 1):
                    out.append((b, t, 'Li' if v == 0 else 'Ri'))
            if len(listed) == 1:
                v = list(listed)[0]
                out.append((b, sw['otherwise'], 'Ri' if v == 0 else 'Li'))
        return out

    def run(self):
        f = self.f
        F = self.F
        # seeds from Side arms
        arm_tag = {}
        for s, x, tag in self.side_edges():
            # blocks edge-dominated by (s -> x) and directly control dependent on it
            for b in f.reachable(x):
                if paths.edge_dominates(f, s, x, b) and s in [e[0] for e in paths.controlling_edges(f, b, transitive=False)] or b == x and paths.edge_dominates(f, s, x, b):
                    arm_tag.setdefault(b, set()).add(tag)
        for b, tags in arm_tag.items():
            if len(tags) != 1:
                continue
            c = f.call_at(b)
            if c is None:
                continue
            if c.callee.endswith(('::push', '::insert', '::push_back', '::extend')) and c.args:
                a0 = c.args[0]
                # receiver is `&mut C`: find C
                cl = self._deref_root(a0)
                if cl is not None:
                    self.add(cl, None, set(tags))
                    self.seed_sites.append((c, list(tags)[0], cl))
                    self.seeded.setdefault(cl, set()).update(tags)
        changed = True
        it = 0
        while changed and it < 50:
            changed = False
            it += 1
            for bi, blk in enumerate(f.blocks):
                if blk['cleanup']:
                    continue
                for st in blk['stmts']:
                    dest = st['place']
                    rv = st['rv']
                    k = rv['k']
                    dl = dest['l']
                    dpath, exact = self.place_path(dest)
                    if dest['p'] and dest['p'][0]['k'] == 'deref':
                        dl2 = self._ptr_target(dl)
                        dl = dl2 if dl2 is not None else dl
                    if not exact:
                        changed |= self.add(dl, dpath, self._rv_tags(rv))
                        continue
                    if k == 'agg' and rv.get('agg') in ('tuple', 'adt') and not rv.get('adt', '').endswith('internals::Side'):
                        for i, o in enumerate(rv['ops']):
                            changed |= self.copy_tree(dl, dpath + (i,), o)
                    elif k == 'use':
                        changed |= self.copy_tree(dl, dpath, rv['o'])
                    else:
                        changed |= self.add(dl, dpath, self._rv_tags(rv))
                t = blk['term']
                if t['k'] == 'call':
                    c = f.call_at(bi)
                    tg = set()
                    for a in t['args']:
                        tg |= self.read_op(a)
                    if c.callee.endswith(('::len', '::is_empty', '::contains', 'split_imbalance', '::cancelled', 'fit_in_descendant')):
                        tg = set()
                    if c.callee.endswith(('Try::branch', 'Result::<T, E>::unwrap', 'Option::<T>::unwrap', 'Result::<T, E>::expect', 'Option::<T>::expect',
                                          'Result::<T, E>::map_err', 'From::from', 'Into::into')) and t['args'] and not t['dest']['p']:
                        # value-preserving wrappers keep the field structure of their payload
                        if c.callee.endswith(('::unwrap', '::expect')):
                            a0 = t['args'][0]
                            if a0.get('k') in ('copy', 'move'):
                                sp, _e = self.place_path(a0['place'])
                                for rest, tgs in self.subtree(a0['place']['l'], sp + (0,)).items():
                                    changed |= self.add(t['dest']['l'], rest, set(tgs))
                        else:
                            changed |= self.copy_tree(t['dest']['l'], (), t['args'][0])
                    elif not t['dest']['p']:
                        changed |= self.add(t['dest']['l'], None, tg)
                    # &mut out-parameters
                    summ = None
                    for g in F.resolve_call(c):
                        summ = self.summaries.get(g.path)
                    if summ:
                        for i, tags in summ.items():
                            if i < len(t['args']):
                                cl = self._deref_root(t['args'][i])
                                if cl is not None:
                                    changed |= self.add(cl, None, set(tags))
                                    self.seeded.setdefault(cl, set()).update(tags)
                    # receiver mutated by push/insert/extend with tagged values (outside Side arms): container takes the value's tags
                    if c.callee.endswith(('::push', '::insert', '::extend', '::bitor_assign', '::push_back')) and len(t['args']) >= 2:
                        cl = self._deref_root(t['args'][0])
                        if cl is not None and bi not in arm_tag:
                            changed |= self.add(cl, None, self.read_op(t['args'][1]))

    def _rv_tags(self, rv):
        k = rv['k']
        tg = set()
        if k == 'use':
            tg |= self.read_op(rv['o'])
        elif k in ('ref', 'rawptr', 'discr'):
            tg |= self.read_place(rv['place'])
        elif k == 'cast':
            tg |= self.read_op(rv['a'])
        elif k == 'agg':
            if rv.get('adt', '').endswith('internals::Side'):
                tg.add('Li' if rv['variant'] == 'Left' else 'Ri')
            for o in rv['ops']:
                tg |= self.read_op(o)
        elif k == 'binop':
            pass
        return tg

    def _ptr_target(self, l):
        """local a reference local points to (single `&mut X` / `&X` definition)"""
        ds = [d for d in self.f.defs().get(l, []) if not d[-1]]
        if len(ds) == 1 and ds[0][0] == 'assign' and ds[0][3]['k'] in ('ref', 'rawptr'):
            pl = ds[0][3]['place']
            if all(e['k'] == 'deref' for e in pl['p']):
                if not pl['p']:
                    return pl['l']
                inner = self._ptr_target(pl['l'])
                return inner if inner is not None else pl['l']
        return None

    def _deref_root(self, op):
        l = root_local(op)
        if l is None:
            return None
        seen = 0
        while seen < 6:
            seen += 1
            t = self._ptr_target(l)
            if t is None:
                # a parameter of reference type: the parameter itself stands for the container
                return l
            l = t
        return l


def side_of(tags):
    """'L' / 'R' when every tag (links `*l`, routed items `*i`) agrees on one side, else None"""
    sides = {t[0] for t in tags}
    return list(sides)[0] if len(sides) == 1 else None


def out_param_summary(F, g):
    """{arg index: tags} for &mut parameters of g that receive values under Side arms"""
    tg = Tags(F, g)
    out = {}
    for c, tag, cl in tg.seed_sites:
        if 1 <= cl <= g.arg_count and g.local_ty(cl).startswith('&mut'):
            out.setdefault(cl - 1, set()).add(tag)
    return out


def split_aggregates(f):
    out = []
    for bi, blk in enumerate(f.blocks):
        if blk['cleanup']:
            continue
        for st in blk['stmts']:
            rv = st['rv']
            if rv['k'] == 'agg' and rv.get('adt') == 'node::SplitPlaneNormal':
                d = dict(zip(rv['fields'], rv['ops']))
                out.append((bi, st, d))
    return out


def check_pairing(ctx, rule, fns=None):
    """R-LINK(i): left/right of every constructed split come from the left/right side respectively"""
    F = ctx.F
    fns = fns if fns is not None else [f for f in F.lib_fns() if f.path.startswith('writer::')]
    summaries = {}
    for g in F.lib_fns():
        if g.path.startswith('writer::') and any(g.local_ty(l).startswith('&mut roaring') or g.local_ty(l).startswith('&mut std::vec') for l in g.arg_locals()):
            s = out_param_summary(F, g)
            if s:
                summaries[g.path] = s
    n = 0
    for f in fns:
        aggs = split_aggregates(f)
        if not aggs:
            continue
        tg = Tags(F, f, summaries)
        # a container is filled from one side only: the same local receiving items under a Left arm here and under a Right
        # arm (or through a helper's Right out-parameter) there is a dispatch bug whatever happens to it afterwards
        for cl, tgs in sorted(tg.seeded.items()):
            sides = {t[0] for t in tgs}
            ctx.check(len(sides) <= 1, rule, '%s/one-side-per-container/%s' % (f.path, f.local_name(cl) or cl), f.loc(), 'container `%s` only receives %s items' % (f.local_name(cl) or cl, sorted(tgs)),
                      'in `%s` the container `%s` receives items routed to both sides (%s): items sent Left and items sent Right end up under the same child' % (f.path, f.local_name(cl) or cl, sorted(tgs)))
        for bi, st, d in aggs:
            n += 1
            lt = tg.read_op(d['left'])
            rt = tg.read_op(d['right'])
            key = '%s/split#%d' % (f.path, n)
            where = '%s:%d' % (st['span']['file'], st['span']['line'])
            # two families of evidence: the stored links the children derive from (`*l`) and the side the routed items were
            # sent to (`*i`).  A family that says the wrong side only is a definite mis-pairing; a family that is mixed on a
            # side (values travelling through containers / closures the propagation cannot separate) is undecided and left
            # to the other family and to the symmetric rules; at least one family must decide each side.
            wrong = []
            decided = {'left': False, 'right': False}
            for fam, what in (('l', 'stored link'), ('i', 'routed items')):
                lf = {t for t in lt if t.endswith(fam)}
                rf = {t for t in rt if t.endswith(fam)}
                if lf and 'L' + fam not in lf:
                    wrong.append('left child built from the right %s' % what)
                if rf and 'R' + fam not in rf:
                    wrong.append('right child built from the left %s' % what)
                decided['left'] = decided['left'] or lf == {'L' + fam}
                decided['right'] = decided['right'] or rf == {'R' + fam}
            good = not wrong and decided['left'] and decided['right']
            if not wrong and not good and lt and rt:
                # evidence present but mixed on both families: undecided here (no definite mis-pairing)
                ctx.ok(rule, key, where, 'undecided by tag propagation (left from %s, right from %s): no definite mis-pairing' % (sorted(lt), sorted(rt)))
                continue
            ctx.check(good, rule, key, where, 'left child derives from the Left side only, right child from the Right side only',
                      'in `%s` the children of the split node built at line %d are not paired with their sides (left derives from %s, right from %s%s): items routed Left would be stored under the right child (or vice versa) and searches descend into the wrong subtree' % (
                          f.path, st['span']['line'], sorted(lt) or 'nothing known', sorted(rt) or 'nothing known', ('; ' + '; '.join(wrong)) if wrong else ''))
    return n, summaries
