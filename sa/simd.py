"""A9 -- SIMD kernel shape + R-FEATURE (target-feature guarded dispatch)."""
import re

import paths
from facts import strip, show, walk, short, const_eval
from rules import root, sp, strip_all, callee_names

BASELINE = None


def baseline(F):
    return {c.split('=', 1)[1] for c in F.cfg if c.startswith('target_feature=')}


def kernels(F):
    """functions of the spaces module compiled with #[target_feature] that take two vectors and return f32"""
    out = []
    for f in F.lib_fns():
        if f.path.startswith('spaces::') and f.feats and f.ret_ty() == 'f32' and f.arg_count == 2 and f.kind == 'Fn' and not f.in_test:
            out.append(f)
    return out


def lanes(callee):
    n = short(callee)
    if n.startswith('_mm256_'):
        return 8
    if n.startswith('_mm512_'):
        return 16
    if n.startswith('_mm_'):
        return 4
    return None


def load_info(f, t):
    """(base param local, offset, lanes) when t is a vector load from `param.as_ptr() [+ stride*k] + offset`"""
    t0 = strip(t)
    if t0[0] != 'call' or 'loadu_ps' not in t0[1]:
        return None
    w = lanes(t0[1])
    p = strip(t0[2][0])
    off = 0
    if p[0] == 'call' and p[1].endswith('::add') and len(p[2]) == 2:
        off = const_eval(p[2][1])
        p = strip(p[2][0])
    base = ptr_base(f, p)
    return (base, off, w)


def ptr_base(f, p):
    """the vector parameter a (loop-advanced) pointer term derives from"""
    for s in walk(p):
        if s[0] == 'call' and s[1].endswith('UnalignedVector::<Codec>::as_ptr') and s[2]:
            a = strip(s[2][0])
            if a[0] == 'arg':
                return a[1]
    return None


def ptr_stride(f, p):
    """constant S such that the pointer is advanced by add(ptr, S) around the loop"""
    p0 = strip(p)
    outs = set()
    if p0[0] == 'phi':
        for alt in p0[2]:
            a = strip(alt)
            if a[0] == 'call' and a[1].endswith('::add') and len(a[2]) == 2:
                outs.add(const_eval(a[2][1]))
    return outs


def round_down(t):
    """(n term, S) when `t` rounds n down to a multiple of the constant S:
    n - n % S  |  n / S * S  |  n & !(S - 1)  |  n - (n & (S - 1))"""
    m = strip(t)
    if m[0] == 'field' and strip(m[1])[0] == 'binop':
        m = strip(m[1])
    if m[0] != 'binop':
        return None
    op = m[1]
    a, b = strip(m[2]), strip(m[3])

    def unfield(x):
        x = strip(x)
        return strip(x[1]) if x[0] == 'field' and strip(x[1])[0] == 'binop' else x
    a, b = unfield(a), unfield(b)
    if op.startswith('Sub') and b[0] == 'binop' and b[1] == 'Rem' and strip_all(b[2]) == strip_all(a):
        S = const_eval(b[3])
        return (a, S) if S else None
    if op.startswith('Sub') and b[0] == 'binop' and b[1] == 'BitAnd' and strip_all(b[2]) == strip_all(a):
        k = const_eval(b[3])
        if k is not None and (k + 1) & k == 0 and k > 0:
            return (a, k + 1)
    if op.startswith('Mul') and a[0] == 'binop' and a[1] == 'Div':
        S = const_eval(b)
        if S and const_eval(a[3]) == S:
            return (strip(a[2]), S)
    if op == 'BitAnd':
        k = const_eval(b)
        if k is None and b[0] == 'unop' and b[1] == 'Not':
            low = const_eval(b[2])
            if low is not None:
                k = ~low & 0xFFFFFFFFFFFFFFFF
        if k is not None:
            low = ~k & 0xFFFFFFFFFFFFFFFF
            if low > 0 and (low + 1) & low == 0:
                return (a, low + 1)
    return None


def counter_step(t):
    """constant k when the phi term t is a counter advanced by `+ k` around a loop (with its start value), else None"""
    i = strip(t)
    step = None
    start = None
    if i[0] != 'phi':
        return None
    for alt in i[2]:
        a = strip(alt)
        if a[0] == 'field' and strip(a[1])[0] == 'binop' and strip(a[1])[1].startswith('Add'):
            step = const_eval(strip(a[1])[3])
        elif a[0] == 'binop' and a[1].startswith('Add'):
            step = const_eval(a[3])
        elif const_eval(a) is not None:
            start = const_eval(a)
    return (start, step) if step else None


def analyse_kernel(ctx, f, rule='R-SIMD'):
    F = ctx.F
    name = f.path
    loads = []
    for c in f.calls():
        if 'loadu_ps' in c.callee:
            li = load_info(f, ('call', c.callee, [c.arg_term(0)], c.bb))
            loads.append((c, li))
    if not ctx.need(len(loads) >= 2, rule, 'vector loads in ' + name):
        return
    p1, p2 = 1, 2
    w = loads[0][1][2]
    offs = {p1: sorted(li[1] for c, li in loads if li[0] == p1), p2: sorted(li[1] for c, li in loads if li[0] == p2)}
    nacc = len(offs[p1])
    S = w * nacc if w else None
    tile = [w * i for i in range(nacc)] if w else None
    ctx.check(w is not None and offs[p1] == offs[p2] == tile and all(li[2] == w for c, li in loads), rule, name + '/tiling', f.loc(),
              'both inputs are loaded at offsets %s (width %s): a full, duplicate-free tiling of the %s-element step' % (tile, w, S),
              '`%s` loads v1 at %s and v2 at %s (lane width %s): the paired loads must tile [0, step) exactly, identically for both inputs -- a lane would be dropped, read twice, or paired with the wrong lane' % (name, offs[p1], offs[p2], w))
    # stride of both pointers, of the counter and of the rounding of n
    strides = set()
    for c, li in loads:
        p = strip(c.arg_term(0))
        if p[0] == 'call' and p[1].endswith('::add'):
            p = strip(p[2][0])
        strides |= ptr_stride(f, p)
    # counter and bound from the loop condition
    cond = None
    for b in f.live_blocks():
        if paths.switch_at(f, b) is None:
            continue
        for s in f.succ(b):
            e = paths.edge_cond(f, b, s)
            if e and e[0] == 'bool' and e[2]:
                c0 = strip(e[1])
                if c0[0] == 'binop' and c0[1] == 'Lt' and round_down(c0[3]) is not None:
                    cond = c0
    istep = None
    mod = None
    bound_ok = False
    if cond is not None:
        cs = counter_step(cond[2])
        if cs and cs[0] == 0:
            istep = cs[1]
        lenarg, mod = round_down(cond[3])
        bound_ok = lenarg[0] == 'call' and lenarg[1].endswith('::len')
    ctx.check(strides == {S} and istep == S and mod == S and bound_ok, rule, name + '/stride', f.loc(),
              'pointer stride = counter step = modulus of `n - n %% S` = %s' % S,
              '`%s`: pointer stride %s, counter step %s, rounding modulus %s must all equal lanes x accumulators = %s (bound n - n %% S: %s)' % (name, sorted(strides), istep, mod, S, bound_ok))
    # per-accumulator pairing
    is_euclid = any('sub_ps' in c.callee for c in f.calls())
    accs = [c for c in f.calls() if 'fmadd_ps' in c.callee or ('add_ps' in c.callee and any('mul_ps' in short(x[1]) for x in walk(c.arg_term(0)) if x[0] == 'call'))]
    good = len(accs) == nacc
    seen_offs = []
    detail = []
    for c in accs:
        if 'fmadd_ps' in c.callee:
            a, b, acc = c.arg_term(0), c.arg_term(1), c.arg_term(2)
        else:
            mul = [x for x in walk(c.arg_term(0)) if x[0] == 'call' and 'mul_ps' in x[1]][0]
            a, b, acc = mul[2][0], mul[2][1], c.arg_term(1)
        if is_euclid:
            sa, sb = strip(a), strip(b)
            same_sub = sa[0] == 'call' and 'sub_ps' in sa[1] and sb[0] == 'call' and sa[3] == sb[3]
            la = load_info(f, sa[2][0]) if same_sub else None
            lb = load_info(f, sa[2][1]) if same_sub else None
            okp = same_sub and la and lb and {la[0], lb[0]} == {p1, p2} and la[1] == lb[1]
        else:
            la, lb = load_info(f, a), load_info(f, b)
            okp = la is not None and lb is not None and {la[0], lb[0]} == {p1, p2} and la[1] == lb[1]
        if okp:
            seen_offs.append(la[1])
        # accumulator updated from its own previous value
        ac = strip(acc)
        own = ac[0] == 'phi' and any(strip(x)[0] == 'call' and strip(x)[3] == c.bb for x in ac[2]) and any(strip(x)[0] == 'call' and 'setzero' in strip(x)[1] for x in ac[2])
        good = good and bool(okp) and own
        detail.append((la, lb, own))
    good = good and sorted(seen_offs) == tile
    ctx.check(good, rule, name + '/accumulators', f.loc(),
              '%d accumulators, each updated from its own previous value with the %s of the lanes loaded at one offset from v1 and v2' % (nacc, 'squared difference' if is_euclid else 'product'),
              '`%s`: an accumulator is not fed from its own previous value with the %s of the paired lanes of v1 and v2 at one offset (%s)' % (name, 'squared difference' if is_euclid else 'product', detail))
    # horizontal sums: each accumulator exactly once
    hs = [c for c in f.calls() if 'hsum' in short(c.callee)]
    acc_sites = sorted(c.bb for c in accs)
    hs_sites = []
    for c in hs:
        a = strip(c.arg_term(0))
        if a[0] == 'phi':
            for x in a[2]:
                xx = strip(x)
                if xx[0] == 'call' and xx[3] in acc_sites:
                    hs_sites.append(xx[3])
    # the scalar result: sum of all hsum results, then the remainder
    res_terms = [t for b, k, t in paths.ret_assigns(f)]
    used = set()
    for t in res_terms:
        for x in walk(t):
            if x[0] == 'call' and 'hsum' in short(x[1]):
                used.add(x[3])
    ctx.check(sorted(hs_sites) == acc_sites and used == {c.bb for c in hs}, rule, name + '/horizontal-sum', f.loc(),
              'every accumulator reaches the final sum exactly once', '`%s`: accumulators summed %s times, hsum results used %s of %s' % (name, sorted(hs_sites), len(used), len(hs)))
    # remainder loop
    reads = [c for c in f.calls() if c.callee.endswith('read_unaligned')]
    okr = len(reads) == 2
    bases = set()
    idxs = set()
    for c in reads:
        p = strip(c.arg_term(0))
        if p[0] == 'call' and p[1].endswith('::add'):
            base = strip(p[2][0])
            bases.add(ptr_base(f, base))
            advanced = S in ptr_stride(f, base) or any(S in ptr_stride(f, x) for x in walk(base) if x[0] == 'phi')
            okr = okr and advanced
            nx = [x for x in walk(p[2][1]) if x[0] == 'call' and x[1].endswith('Iterator::next')]
            idxs |= {x[3] for x in nx}
            rng = [x for x in walk(p[2][1]) if x[0] == 'agg' and x[1].endswith('ops::Range')]

            def is_tail_len(t):
                # n - m with m the rounded-down length
                end = strip(t)
                ee = strip(end[1]) if end[0] == 'field' and strip(end[1])[0] == 'binop' else end
                return ee[0] == 'binop' and ee[1].startswith('Sub') and strip(ee[2])[0] == 'call' and strip(ee[2])[1].endswith('::len') and round_down(ee[3]) is not None \
                    and round_down(ee[3])[1] == S
            if rng:
                d = dict(rng[0][3])
                okr = okr and const_eval(d['start']) == 0 and is_tail_len(d['end'])
            else:
                # `let mut i = 0; while i < n - m { .. i += 1 }`
                cs = counter_step(p[2][1])
                bounded = False
                for s0, x0, e in paths.controlling_conds(f, c.bb):
                    if e[0] == 'bool' and e[2] and paths.edge_dominates(f, s0, x0, c.bb):
                        cc = strip(e[1])
                        if cc[0] == 'binop' and cc[1] == 'Lt' and strip_all(cc[2]) == strip_all(p[2][1]) and is_tail_len(cc[3]):
                            bounded = True
                if cs == (0, 1) and bounded:
                    idxs.add(('counter', strip(p[2][1])[1]))
                else:
                    okr = False
        else:
            okr = False
    okr = okr and bases == {p1, p2} and len(idxs) == 1
    # the scalar op
    if is_euclid:
        sc = [c for c in f.calls() if c.callee.endswith('::powi') and const_eval(c.arg_term(1)) == 2 and strip(c.arg_term(0))[0] == 'binop' and strip(c.arg_term(0))[1] == 'Sub']
        sc_ok = bool(sc) and {x[3] for x in walk(sc[0].arg_term(0)) if x[0] == 'call' and x[1].endswith('read_unaligned')} == {c.bb for c in reads}
    else:
        sc_ok = False
        for blk in f.blocks:
            for st in blk['stmts']:
                rv = st['rv']
                if rv['k'] == 'binop' and rv['op'] == 'Mul':
                    t = f._def_term(('assign', 0, 0, rv, []), 0, frozenset())
                    if {x[3] for x in walk(t) if x[0] == 'call' and x[1].endswith('read_unaligned')} == {c.bb for c in reads}:
                        sc_ok = True
    ctx.check(okr and sc_ok, rule, name + '/remainder', f.loc(), 'the tail loop runs n - m times from the advanced pointers over both inputs with one index and adds the scalar %s' % ('squared difference' if is_euclid else 'product'),
              '`%s`: the remainder loop does not cover exactly the last n - m elements of both inputs with the scalar %s' % (name, 'squared difference' if is_euclid else 'product'))


def r_feature(ctx, rule='R-FEATURE'):
    """a function compiled for target features may only be called where those features are known to be available"""
    F = ctx.F
    base = baseline(F)
    n = 0
    for f in F.lib_fns():
        have = set(f.feats) | base
        for c in f.calls():
            need = set(c.feats) - have
            if not c.feats:
                continue
            n += 1
            if not need:
                continue
            # runtime detection dominating the call
            detected = set()
            for s, x, e in paths.controlling_conds(f, c.bb):
                if e[0] == 'bool' and e[2] and paths.edge_dominates(f, s, x, c.bb):
                    for y in walk(e[1]):
                        if y[0] == 'call' and '__is_feature_detected::' in y[1]:
                            detected.add(y[1].rsplit('::', 1)[1].replace('_', '.') if y[1].rsplit('::', 1)[1] in ('sse4_1', 'sse4_2') else y[1].rsplit('::', 1)[1])
            # ... or established on every *feasible* path: the detection may sit in a helper (virtually inlined) whose boolean
            # answer is tested by the caller -- then the call is unreachable once the true edge of the detection is cut
            for b in f.live_blocks():
                t = f.blocks[b]['term']
                if t['k'] != 'call' or '__is_feature_detected::' not in (t.get('callee') or ''):
                    continue
                feat = t['callee'].rsplit('::', 1)[1]
                feat = feat.replace('_', '.') if feat in ('sse4_1', 'sse4_2') else feat
                if feat in detected or t['t'] < 0:
                    continue
                sw = t['t']
                for x in f.succ(sw):
                    e = paths.edge_cond(f, sw, x)
                    if e and e[0] == 'bool' and e[2] and any(y[0] == 'call' and y[1] == t['callee'] for y in walk(e[1])):
                        if c.bb not in paths.feasible_reach(f, 0, avoid=[x]):
                            detected.add(feat)
            # a detected feature implies the features it implies
            implied = set(detected)
            IMPL = {'avx2': {'avx'}, 'avx': {'sse4.2'}, 'sse4.2': {'sse4.1'}, 'sse4.1': {'ssse3'}, 'ssse3': {'sse3'}, 'sse3': {'sse2'}, 'sse2': {'sse'}, 'fma': {'avx'}}
            changed = True
            while changed:
                changed = False
                for d in list(implied):
                    for i in IMPL.get(d, ()):
                        if i not in implied:
                            implied.add(i)
                            changed = True
            missing = need - implied
            key = '%s/%s' % (f.path, short(c.callee))
            ctx.check(not missing, rule, key, c.loc(), 'features %s established by %s' % (sorted(need), 'the enclosing #[target_feature]' if not detected else 'runtime detection of %s' % sorted(detected)),
                      '`%s` calls `%s`, compiled for %s, where only %s is known to be available (enclosing features %s, runtime checks %s): on a CPU without %s this is undefined behaviour / SIGILL' % (
                          f.path, short(c.callee), sorted(set(c.feats) - base), sorted((set(f.feats) | detected) - base) or 'the baseline', sorted(set(f.feats)), sorted(detected), sorted(missing)))
    ctx.floor(rule, 'calls to target-feature functions', n, 60)
