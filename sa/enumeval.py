"""A9 -- finite-domain forward evaluation of enum variants and small integers over the MIR of one function.

The abstract state maps access paths (local, projection) to finite sets of scalar values: the discriminant value of an
enum stored there, or an integer.  A missing path is "unknown".  Assignments of aggregates, moves/copies, `discriminant()`
reads, integer casts and comparisons are interpreted; `switchInt` follows only the edges compatible with the state and
refines it; calls to small in-crate functions are evaluated recursively (bounded), `?` (Try::branch) and the
map/map_err adaptors keep the variant and the Ok payload.  Joins are unions (path missing on one side = unknown), so the
analysis is a plain monotone dataflow and terminates on loops.

`assume` pins the value read from given source places (by their printed text, derefs ignored), which is how a rule asks
"what does this function do when `key.node.mode` holds the byte 2?".  The result records, for every assignment to a
watched place that is reachable under the assumption, the set of values assigned."""
from facts import show, const_eval

TOP = None
MAX_DEPTH = 4
_MEMO = {}


def reset():
    _MEMO.clear()


def _proj(place):
    out = []
    for e in place['p']:
        k = e['k']
        if k == 'deref':
            continue
        if k == 'field':
            out.append(e['n'])
        elif k == 'downcast':
            out.append('@' + e['n'])
        elif k == 'cindex':
            out.append('[%d]' % e['o'])
        else:
            out.append('[?]')
    return tuple(out)


def _key(place):
    return (place['l'], _proj(place))


class Eval:
    def __init__(self, F, f, assume=None, watch=None, params=None, depth=0, call_hook=None):
        self.F = F
        self.f = f
        self.assume = {k.replace('*', '').replace('(', '').replace(')', ''): v for k, v in (assume or {}).items()}
        self.watch = watch or (lambda text: False)
        self.params = params or {}
        self.depth = depth
        self.call_hook = call_hook   # (Eval, Fn, call terminator dict, block) -> value tree or None
        self.ret_trees = {}          # return block -> value tree of local 0 (as of the last visit)
        self.assigned = {}       # (block, index, place text) -> frozenset values | None  (as of the last visit)
        self.ret = None          # joined state subtree of local 0 at the returns
        self.reached = set()
        self._text = {}

    # ------------------------------------------------------------------ helpers
    def place_text(self, place):
        # a place reached through a reference local (`link = &mut split.left; (*link).mode`) is named after its target
        hops = 0
        while place['p'] and place['p'][0]['k'] == 'deref' and (place['l'], ()) in getattr(self, 'alias_place', {}) and hops < 4:
            tgt = self.alias_place[(place['l'], ())]
            place = {'l': tgt['l'], 'p': list(tgt['p']) + list(place['p'][1:])}
            hops += 1
        k = (place['l'], tuple((e['k'], e.get('n'), e.get('o')) for e in place['p']))
        if k not in self._text:
            t = show(self.f.place_term(place)).replace('*', '').replace('(', '').replace(')', '')
            self._text[k] = t
        return self._text[k]

    def discr_of_variant(self, adt, vidx):
        a = self.F.adts.get(adt)
        if a and vidx < len(a.get('variants', [])):
            try:
                return int(a['variants'][vidx]['discr'])
            except (KeyError, ValueError, TypeError):
                return vidx
        return vidx

    def read(self, st, place):
        key = _key(place)
        if key in st:
            return st[key]
        # a shorter prefix that was assigned as a whole and is unknown below: unknown
        txt = self.place_text(place)
        if txt in self.assume:
            return frozenset([self.assume[txt]])
        # keys starting with '.' are suffix patterns: '.left.mode' pins every place whose printed path ends that way
        for k, v in self.assume.items():
            if k.startswith('.') and (txt.endswith(k) or '.' + txt == k):
                return frozenset([v])
        return TOP

    def subtree(self, st, key):
        l, pr = key
        return {(k[1][len(pr):]): v for k, v in st.items() if k[0] == l and k[1][:len(pr)] == pr}

    def kill(self, st, key):
        l, pr = key
        for k in [k for k in st if k[0] == l and k[1][:len(pr)] == pr]:
            del st[k]

    def write_tree(self, st, key, tree):
        self.kill(st, key)
        for rest, v in tree.items():
            if v is not TOP:
                st[(key[0], key[1] + rest)] = v

    def operand_tree(self, st, o):
        """{relative path: values} of an operand"""
        if o['k'] in ('copy', 'move'):
            key = _key(o['place'])
            tree = self.subtree(st, key)
            if () not in tree:
                v = self.read(st, o['place'])
                if v is not TOP:
                    tree[()] = v
            return tree
        if o['k'] == 'const':
            c = o['c']
            try:
                return {(): frozenset([int(c['bits'])])}
            except (KeyError, ValueError, TypeError):
                return {}
        return {}

    def operand_val(self, st, o):
        t = self.operand_tree(st, o)
        if () in t:
            return t[()]
        v = const_eval(self.f.term(o))
        if v is not None:
            return frozenset([v])
        return TOP

    # ------------------------------------------------------------------ transfer
    def stmt(self, st, b, si, s):
        place, rv = s['place'], s['rv']
        key = _key(place)
        k = rv['k']
        tree = {}
        if k == 'use':
            tree = self.operand_tree(st, rv['o'])
            o = rv['o']
            if o.get('k') in ('copy', 'move') and not o['place']['p'] and not place['p'] and (o['place']['l'], ()) in self.alias:
                # a reference moved into another local (e.g. into the parameter of an inlined helper) keeps its target
                self.alias[key] = self.alias[(o['place']['l'], ())]
                if (o['place']['l'], ()) in self.alias_place:
                    self.alias_place[key] = self.alias_place[(o['place']['l'], ())]
        elif k == 'discr':
            v = self.read(st, rv['place'])
            if v is not TOP:
                tree = {(): v}
            self.src[key] = _key(rv['place'])
        elif k == 'cast':
            v = self.operand_val(st, rv['a'])
            if v is not TOP and 'Int' in rv.get('ck', ''):
                tree = {(): v}
            if rv['a']['k'] in ('copy', 'move') and _key(rv['a']['place']) in self.src:
                self.src[key] = self.src[_key(rv['a']['place'])]
        elif k == 'binop' and rv['op'] in ('Eq', 'Ne', 'Lt', 'Le', 'Gt', 'Ge'):
            a, bb = self.operand_val(st, rv['a']), self.operand_val(st, rv['b'])
            if a is not TOP and bb is not TOP:
                import operator
                fn = {'Eq': operator.eq, 'Ne': operator.ne, 'Lt': operator.lt, 'Le': operator.le, 'Gt': operator.gt, 'Ge': operator.ge}[rv['op']]
                tree = {(): frozenset(int(fn(x, y)) for x in a for y in bb)}
            # remember `tmp = (src == const)` so that a branch on tmp refines src
            for x, y in ((rv['a'], rv['b']), (rv['b'], rv['a'])):
                if x['k'] in ('copy', 'move') and rv['op'] in ('Eq', 'Ne'):
                    cv = self.operand_val(st, y)
                    sk = self.src.get(_key(x['place']), _key(x['place']))
                    if cv is not TOP and len(cv) == 1:
                        self.cmp[key] = (sk, list(cv)[0], rv['op'] == 'Eq')
        elif k == 'unop' and rv['op'] == 'Not':
            a = self.operand_val(st, rv['a'])
            if a is not TOP and a <= frozenset([0, 1]):
                tree = {(): frozenset(1 - x for x in a)}
        elif k == 'agg' and rv.get('agg') == 'adt':
            d = self.discr_of_variant(rv['adt'], rv['vidx'])
            a = self.F.adts.get(rv['adt'])
            is_enum = a is None or a.get('kind') == 'enum' or len(a.get('variants', [])) > 1
            std_enum = rv['adt'].endswith(('result::Result', 'option::Option', 'ops::ControlFlow'))
            pre = ('@' + rv['variant'],) if (is_enum and (std_enum or (a and len(a.get('variants', [])) > 1))) else ()
            if pre:
                tree[()] = frozenset([d])
            for name, o in zip(rv.get('fields', []), rv['ops']):
                for rest, v in self.operand_tree(st, o).items():
                    tree[pre + (name,) + rest] = v
        elif k == 'agg' and rv.get('agg') == 'tuple':
            for i, o in enumerate(rv['ops']):
                for rest, v in self.operand_tree(st, o).items():
                    tree[(str(i),) + rest] = v
        elif k == 'agg' and rv.get('agg') == 'closure':
            g = self.F.fns.get(rv['closure'])
            names = [u.get('name') for u in (g.j.get('upvars') or [])] if g is not None else []
            for i, o in enumerate(rv['ops']):
                for rest, v in self.operand_tree(st, o).items():
                    tree[(str(i),) + rest] = v
                    if i < len(names) and names[i]:
                        tree[(names[i],) + rest] = v
            self.closures[key] = rv['closure']
        elif k == 'ref':
            # a reference is transparent for value tracking: reads through it use the same access path only when the
            # reference is to a whole local; otherwise unknown
            tree = dict(self.subtree(st, _key(rv['place'])))
            if () not in tree:
                v = self.read(st, rv['place'])
                if v is not TOP:
                    tree[()] = v
            self.alias[key] = _key(rv['place'])
            if not place['p']:
                self.alias_place[key] = rv['place']
        self.write_tree(st, key, tree)
        # writes through a reference also update what it points to
        if place['p'] and place['p'][0]['k'] == 'deref' and (place['l'], ()) in self.alias:
            tgt = self.alias[(place['l'], ())]
            self.write_tree(st, (tgt[0], tgt[1] + key[1]), tree)
        if place['p'] and place['p'][-1]['k'] == 'field':
            txt = self.place_text(place)
            if self.watch(txt):
                self.assigned[(b, si, txt)] = tree.get((), TOP)

    def call(self, st, b, t):
        dest = _key(t['dest'])
        callee = t.get('callee') or ''
        tree = {}
        args = t['args']
        hooked = self.call_hook(self, self.f, t, b) if self.call_hook else None
        if hooked is not None:
            tree = dict(hooked)
        elif callee.endswith('Try::branch') and args:
            src = self.operand_tree(st, args[0])
            if () in src:
                tree[()] = src[()]          # Ok=0 -> Continue=0, Err=1 -> Break=1
            for rest, v in src.items():
                if rest[:1] == ('@Ok',) or rest[:1] == ('@Some',):
                    tree[('@Continue',) + rest[1:]] = v
                # the residual keeps the whole failed value: Break(Err(e)) / Break(None)
                if rest[:1] in (('@Err',), ('@None',)) or rest == ():
                    tree[('@Break', '0') + rest] = v
        elif callee.endswith('Iterator::find') and len(args) == 2:
            tree = self.model_find(st, b, t) or {}
        elif callee.endswith('FromResidual::from_residual') and args:
            # Err(e) -> Err(From::from(e)): the variant of an error that converts into itself is kept
            tree = dict(self.operand_tree(st, args[0]))
        elif callee.endswith(('Option::<T>::is_some', 'Option::<T>::is_none', 'Result::<T, E>::is_ok', 'Result::<T, E>::is_err')) and args:
            src = self.operand_tree(st, args[0])
            if () in src:
                one = 1 if callee.endswith(('is_some', 'is_err')) else 0
                tree[()] = frozenset(int(x == one) for x in src[()])
        elif callee.endswith(('Result::<T, E>::map_err', 'Result::<T, E>::inspect_err', 'Result::<T, E>::or_else')) and args:
            src = self.operand_tree(st, args[0])
            if () in src:
                tree[()] = src[()]
            for rest, v in src.items():
                if rest[:1] == ('@Ok',):
                    tree[rest] = v
        elif callee.endswith(('Result::<T, E>::ok',)) and args:
            src = self.operand_tree(st, args[0])
            if () in src:
                tree[()] = frozenset(1 - x for x in src[()])   # Ok(0) -> Some(1), Err(1) -> None(0)
            for rest, v in src.items():
                if rest[:1] == ('@Ok',):
                    tree[('@Some',) + rest[1:]] = v
        elif callee.endswith(('Option::<T>::ok_or', 'Option::<T>::ok_or_else')) and args:
            src = self.operand_tree(st, args[0])
            if () in src:
                tree[()] = frozenset(1 - x for x in src[()])
            for rest, v in src.items():
                if rest[:1] == ('@Some',):
                    tree[('@Ok',) + rest[1:]] = v
            if callee.endswith('ok_or') and len(args) > 1:
                for rest, v in self.operand_tree(st, args[1]).items():
                    tree[('@Err', '0') + rest] = v
        elif callee.endswith(('Result::<T, E>::unwrap', 'Result::<T, E>::expect', 'Option::<T>::unwrap', 'Option::<T>::expect')) and args:
            src = self.operand_tree(st, args[0])
            for rest, v in src.items():
                if rest[:1] in (('@Ok',), ('@Some',)) and rest[1:2] == ('0',):
                    tree[rest[2:]] = v
        elif callee.endswith(('From::from', 'Into::into', 'Clone::clone', 'ToOwned::to_owned')) and len(args) == 1 and (t.get('resolved') or '').startswith(('<T as std::convert::From<T>>', '<T as std::convert::Into<U>>')):
            tree = self.operand_tree(st, args[0])
        else:
            g = None
            for name in (t.get('resolved'), callee):
                if name and name in self.F.fns:
                    g = self.F.fns[name]
                    break
            if g is not None and self.depth < MAX_DEPTH and g.path != self.f.path and g.n <= 120 and not g.in_test:
                params = {}
                for i, a in enumerate(args):
                    tr = self.operand_tree(st, a)
                    if tr:
                        params[i + 1] = tr
                mk = (g.path, tuple(sorted((l, tuple(sorted(tr.items()))) for l, tr in params.items())))
                if mk not in _MEMO:
                    _MEMO[mk] = None  # recursion guard
                    sub = Eval(self.F, g, assume=None, params=params, depth=self.depth + 1, call_hook=self.call_hook)
                    sub.run()
                    _MEMO[mk] = dict(sub.ret) if sub.ret else None
                if _MEMO[mk]:
                    tree = dict(_MEMO[mk])
        self.write_tree(st, dest, tree)
        if t['dest']['p'] and t['dest']['p'][-1]['k'] == 'field':
            txt = self.place_text(t['dest'])
            if self.watch(txt):
                self.assigned[(b, -1, txt)] = tree.get((), TOP)

    def model_find(self, st, b, t):
        """`ARRAY.into_iter().find(closure)` over an array of known enum values / integers: the first element for which the
        closure evaluates to true"""
        from facts import strip, walk
        c = self.f.call_at(b)
        if c is None:
            return None
        arr = None
        for x in walk(c.arg_term(0)):
            if x[0] == 'array':
                arr = x
                break
        clo = strip(c.arg_term(1))
        if arr is None or clo[0] != 'closure' or clo[1] not in self.F.fns:
            return None
        g = self.F.fns[clo[1]]
        elems = []
        for e in arr[1]:
            e0 = strip(e)
            if e0[0] == 'agg' and len(e0) > 2:
                vidx = None
                a = self.F.adts.get(e0[1])
                if a:
                    for i, v in enumerate(a.get('variants', [])):
                        if v['name'] == e0[2]:
                            vidx = i
                if vidx is None:
                    return None
                elems.append(self.discr_of_variant(e0[1], vidx))
            elif e0[0] == 'const' and isinstance(e0[2], int):
                elems.append(e0[2])
            else:
                return None
        # the captures of the closure value passed as second argument
        env = {}
        a1 = t['args'][1]
        if a1.get('k') in ('copy', 'move'):
            for rest, v in self.subtree(st, _key(a1['place'])).items():
                env[rest] = v
        for d in elems:
            params = {1: dict(env), 2: {(): frozenset([d])}}
            sub = Eval(self.F, g, params=params, depth=self.depth + 1, call_hook=self.call_hook)
            sub.run()
            r = (sub.ret or {}).get(())
            if r == frozenset([1]):
                return {(): frozenset([1]), ('@Some', '0'): frozenset([d])}
            if r != frozenset([0]):
                return None
        return {(): frozenset([0])}

    # ------------------------------------------------------------------ driver
    def run(self):
        f = self.f
        self.src = {}     # temp holding discriminant/cast -> key of the place it was read from
        self.cmp = {}     # temp holding (src == const) -> (src key, const, is_eq)
        self.alias = {}   # reference local -> key of the place it points to
        self.alias_place = {}
        self._text = {}
        self.closures = {}   # local holding a closure value -> closure path
        init = {}
        for l, tree in self.params.items():
            for rest, v in tree.items():
                init[(l, rest)] = v
        states = {0: init}
        work = [0]
        rets = []
        steps = 0
        while work and steps < 20000:
            steps += 1
            b = work.pop()
            st = dict(states[b])
            blk = f.blocks[b]
            if blk['cleanup']:
                continue
            self.reached.add(b)
            for si, s in enumerate(blk['stmts']):
                self.stmt(st, b, si, s)
            t = blk['term']
            k = t['k']
            outs = []
            if k == 'goto' or k == 'drop' or k == 'assert':
                outs.append((t['t'], st))
            elif k == 'call':
                self.call(st, b, t)
                if t['t'] >= 0:
                    outs.append((t['t'], st))
            elif k == 'return':
                rets.append(self.subtree(st, (0, ())))
                self.ret_trees[b] = self.subtree(st, (0, ()))
            elif k == 'switch':
                o = t['discr']
                vals = self.operand_val(st, o)
                okey = _key(o['place']) if o['k'] in ('copy', 'move') else None
                listed = [int(v) for v, _ in t['targets']]
                for v, tgt in t['targets']:
                    v = int(v)
                    if vals is not TOP and v not in vals:
                        continue
                    outs.append((tgt, self.refine(st, okey, frozenset([v]))))
                rest = None if vals is TOP else frozenset(x for x in vals if x not in listed)
                if t['otherwise'] is not None and t['otherwise'] >= 0 and (vals is TOP or rest):
                    ob = f.blocks[t['otherwise']]
                    if not (ob['term']['k'] == 'unreachable' and not ob['stmts']):
                        outs.append((t['otherwise'], self.refine(st, okey, rest, exclude=listed)))
            for tgt, s2 in outs:
                if tgt not in states:
                    states[tgt] = s2
                    work.append(tgt)
                else:
                    old = states[tgt]
                    new = {}
                    for key, v in old.items():
                        if key in s2:
                            new[key] = v | s2[key]
                    if new != old:
                        states[tgt] = new
                        work.append(tgt)
        # join of the return subtrees
        if rets:
            out = dict(rets[0])
            for r in rets[1:]:
                out = {k: v | r[k] for k, v in out.items() if k in r}
            self.ret = out
        return self

    def refine(self, st, okey, vals, exclude=None):
        s2 = dict(st)
        if okey is None:
            return s2
        if vals is not None:
            s2[okey] = vals
        src = self.src.get(okey)
        if src is not None and vals is not None:
            s2[src] = vals
        cm = self.cmp.get(okey)
        if cm is not None and vals is not None and len(vals) == 1:
            sk, cv, is_eq = cm
            truth = list(vals)[0] == 1
            if truth == is_eq:
                s2[sk] = frozenset([cv])
            elif sk in s2 and s2[sk] is not TOP:
                s2[sk] = frozenset(x for x in s2[sk] if x != cv)
        return s2
