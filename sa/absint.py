"""A7 -- small finite-domain abstract interpreter for short pure scalar functions.

Sign domain for f32: 'neg', 'zero', 'pos', 'nan' (infinities fold into neg/pos).  A function is explored
path-by-path; a branch whose condition is a comparison of abstract values is decided, anything else forks."""
import paths
from facts import strip, show, walk, const_eval

SIGNS = ('neg', 'zero', 'pos', 'nan')


def f32_const_sign(t):
    t = strip(t)
    if t[0] == 'const' and isinstance(t[2], int):
        bits = t[2]
        if t[1] == 'f32':
            if bits & 0x7FFFFFFF == 0:
                return 'zero'
            if (bits & 0x7F800000) == 0x7F800000 and (bits & 0x7FFFFF):
                return 'nan'
            return 'neg' if bits >> 31 else 'pos'
        if t[1] == 'f64':
            if bits & 0x7FFFFFFFFFFFFFFF == 0:
                return 'zero'
            return 'neg' if bits >> 63 else 'pos'
        return 'zero' if bits == 0 else 'pos'
    return None


def cmp_signs(op, a, b):
    """truth of `a op b` for abstract signs, None when undetermined"""
    if a == 'nan' or b == 'nan':
        return op == 'Ne'
    order = {'neg': -1, 'zero': 0, 'pos': 1}
    x, y = order[a], order[b]
    if x != y:
        lt = x < y
        return {'Lt': lt, 'Le': lt, 'Gt': not lt, 'Ge': not lt, 'Eq': False, 'Ne': True}[op]
    if a == 'zero':
        return {'Lt': False, 'Le': True, 'Gt': False, 'Ge': True, 'Eq': True, 'Ne': False}[op]
    return None  # two values of the same non-zero sign


def sign_of(t, env):
    """abstract sign of a float term under env: {canonical term text -> sign}"""
    t0 = strip(t)
    key = show(t0)
    if key in env:
        return env[key]
    c = f32_const_sign(t0)
    if c:
        return c
    if t0[0] == 'unop' and t0[1] == 'Neg':
        s = sign_of(t0[2], env)
        return {'neg': 'pos', 'pos': 'neg', 'zero': 'zero', 'nan': 'nan', None: None}[s]
    if t0[0] == 'call' and t0[1].endswith(('f32>::min', 'f32>::max')) and len(t0[2]) == 2:
        a, b = sign_of(t0[2][0], env), sign_of(t0[2][1], env)
        if a is None or b is None:
            return None
        # f32::min/max ignore a NaN operand
        if a == 'nan':
            return b
        if b == 'nan':
            return a
        order = {'neg': -1, 'zero': 0, 'pos': 1}
        pick = min if t0[1].endswith('min') else max
        return pick([a, b], key=lambda s: order[s])
    if t0[0] == 'call' and t0[1].endswith('f32>::abs') and t0[2]:
        s = sign_of(t0[2][0], env)
        return {'neg': 'pos', 'pos': 'pos', 'zero': 'zero', 'nan': 'nan', None: None}[s]
    if t0[0] == 'binop' and t0[1] == 'Mul':
        a, b = sign_of(t0[2], env), sign_of(t0[3], env)
        if a in ('neg', 'pos') and b in ('neg', 'pos'):
            return 'pos' if a == b else 'neg'
    return None


def explore(fn, env, max_paths=500):
    """all (path conditions decided under env) outcomes: list of return terms reached.
    Unknown boolean conditions fork; `?` error edges are followed too."""
    outs = []
    forks = []
    count = [0]

    def go(b, seen):
        count[0] += 1
        if count[0] > max_paths or b in seen:
            return
        seen = seen | {b}
        blk = fn.blocks[b]
        t = blk['term']
        if t['k'] == 'return':
            for rb, k, rt in paths.ret_assigns(fn):
                if rb in seen:
                    pass
            # the last assignment to _0 on this path
            last = None
            for rb, k, rt in paths.ret_assigns(fn):
                if rb in seen:
                    last = (k, rt) if last is None or True else last
            cands = [(rb, k, rt) for rb, k, rt in paths.ret_assigns(fn) if rb in seen]
            if cands:
                outs.append(cands[-1][1:])
            return
        if t['k'] == 'switch':
            ss = fn.succ(b)
            decided = None
            for s in ss:
                e = paths.edge_cond(fn, b, s)
                if e and e[0] == 'bool':
                    c = strip(e[1])
                    if c[0] == 'binop' and c[1] in ('Lt', 'Le', 'Gt', 'Ge', 'Eq', 'Ne'):
                        a, bb = sign_of(c[2], env), sign_of(c[3], env)
                        if a is not None and bb is not None:
                            tr = cmp_signs(c[1], a, bb)
                            if tr is not None:
                                if tr == e[2]:
                                    decided = s
                                continue
                    if c[0] == 'call' and c[1].endswith('f32>::is_nan') and c[2]:
                        a = sign_of(c[2][0], env)
                        if a is not None:
                            if (a == 'nan') == e[2]:
                                decided = s
                            continue
                    forks.append(show(c)[:80])
                    decided = 'fork'
                    break
                else:
                    decided = 'fork'
                    break
            if decided == 'fork' or decided is None:
                for s in ss:
                    go(s, seen)
            else:
                go(decided, seen)
            return
        for s in fn.succ(b):
            go(s, seen)

    go(0, frozenset())
    return outs, forks
