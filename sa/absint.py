"""A7 -- small finite-domain abstract interpreter for short pure scalar functions.

Sign domain for f32: 'neg', 'zero', 'pos', 'nan' (infinities fold into neg/pos).  A function is explored
path-by-path; a branch whose condition is a comparison of abstract values is decided, anything else forks."""
import paths
from facts import strip, show, walk, const_eval

SIGNS = ('neg', 'zero', 'pos', 'nan')


def f32_const_sign(t):
    t = strip(t)
    if t[0] == 'const' and isinstance(t[2], int):
        bits = t[2]
        if t[1] == 'f32':
            if bits & 0x7FFFFFFF == 0:
                return 'zero'
            if (bits & 0x7F800000) == 0x7F800000 and (bits & 0x7FFFFF):
                return 'nan'
            return 'neg' if bits >> 31 else 'pos'
        if t[1] == 'f64':
            if bits & 0x7FFFFFFFFFFFFFFF == 0:
                return 'zero'
            return 'neg' if bits >> 63 else 'pos'
        return 'zero' if bits == 0 else 'pos'
    return None


def cmp_signs(op, a, b):
    """truth of `a op b` for abstract signs, None when undetermined"""
    if a == 'nan' or b == 'nan':
        return op == 'Ne'
    order = {'neg': -1, 'zero': 0, 'pos': 1}
    x, y = order[a], order[b]
    if x != y:
        lt = x < y
        return {'Lt': lt, 'Le': lt, 'Gt': not lt, 'Ge': not lt, 'Eq': False, 'Ne': True}[op]
    if a == 'zero':
        return {'Lt': False, 'Le': True, 'Gt': False, 'Ge': True, 'Eq': True, 'Ne': False}[op]
    return None  # two values of the same non-zero sign


def sign_of(t, env):
    """abstract sign of a float term under env: {canonical term text -> sign}"""
    t0 = strip(t)
    key = show(t0)
    if key in env:
        return env[key]
    c = f32_const_sign(t0)
    if c:
        return c
    if t0[0] == 'unop' and t0[1] == 'Neg':
        s = sign_of(t0[2], env)
        return {'neg': 'pos', 'pos': 'neg', 'zero': 'zero', 'nan': 'nan', None: None}[s]
    if t0[0] == 'call' and t0[1].endswith(('f32>::min', 'f32>::max')) and len(t0[2]) == 2:
        a, b = sign_of(t0[2][0], env), sign_of(t0[2][1], env)
        if a is None or b is None:
            return None
        # f32::min/max ignore a NaN operand
        if a == 'nan':
            return b
        if b == 'nan':
            return a
        order = {'neg': -1, 'zero': 0, 'pos': 1}
        pick = min if t0[1].endswith('min') else max
        return pick([a, b], key=lambda s: order[s])
    if t0[0] == 'call' and t0[1].endswith('f32>::abs') and t0[2]:
        s = sign_of(t0[2][0], env)
        return {'neg': 'pos', 'pos': 'pos', 'zero': 'zero', 'nan': 'nan', None: None}[s]
    if t0[0] == 'binop' and t0[1] == 'Mul':
        a, b = sign_of(t0[2], env), sign_of(t0[3], env)
        if a in ('neg', 'pos') and b in ('neg', 'pos'):
            return 'pos' if a == b else 'neg'
    return None


def _order(a, b):
    """-1 / 0 / 1 / None(undetermined) / 'nan' for abstract signs"""
    if a == 'nan' or b == 'nan':
        return 'nan'
    rank = {'neg': -1, 'zero': 0, 'pos': 1}
    x, y = rank[a], rank[b]
    if x != y:
        return -1 if x < y else 1
    if a == 'zero':
        return 0
    return None


def resolve_phis(t, defs_env):
    """replace ('phi', l, ..) / ('var', l, ..) leaves by the definition that reached the end of the path"""
    if not isinstance(t, tuple) or not t:
        return t
    if t[0] in ('phi', 'var') and t[1] in defs_env:
        return resolve_phis(defs_env[t[1]], {k: v for k, v in defs_env.items() if k != t[1]})
    out = []
    for x in t:
        if isinstance(x, tuple):
            out.append(resolve_phis(x, defs_env))
        elif isinstance(x, list):
            out.append([resolve_phis(y, defs_env) if isinstance(y, tuple) and y and isinstance(y[0], str) else
                        ((y[0], resolve_phis(y[1], defs_env)) if isinstance(y, tuple) and len(y) == 2 and isinstance(y[1], tuple) else y) for y in x])
        else:
            out.append(x)
    return tuple(out)


def explore(fn, env, max_paths=800):
    """Path-by-path evaluation under the abstract environment `env`:
         env[<text of a float term>] = sign        env['disc:<param name>'] = discriminant value of an enum parameter
    Branches decided by the environment are followed on their live edge only (float comparisons with constants,
    is_nan, partial_cmp + Ordering matches, matches on an enum parameter); anything else forks.
    Returns ([(kind, return term with the path's own definitions substituted)], [undecided condition texts])."""
    outs = []
    forks = []
    count = [0]
    multi = {l for l, ds in fn.defs().items() if len([d for d in ds if not d[-1]]) >= 2}

    def int_of(t):
        t0 = strip(t)
        if t0[0] == 'arg' and ('int:%s' % t0[2]) in env:
            return env['int:%s' % t0[2]]
        if t0[0] == 'cast':
            return int_of(t0[2])
        from facts import const_eval
        return const_eval(t0)

    def decide(b, s):
        e = paths.edge_cond(fn, b, s)
        if e is None:
            return None
        if e[0] == 'disc' and e[1][0] == 'arg' and ('int:%s' % e[1][2]) in env:
            sw = paths.switch_at(fn, b)
            listed = [int(v) for v, t in sw['targets']]
            v = env['int:%s' % e[1][2]]
            return (v in e[2]) or (e[3] and v not in listed)
        if e[0] == 'bool':
            c = strip(e[1])
            if c[0] == 'binop' and c[1] in ('Lt', 'Le', 'Gt', 'Ge', 'Eq', 'Ne'):
                x, y = int_of(c[2]), int_of(c[3])
                if x is not None and y is not None and (any(k.startswith('int:') for k in env)):
                    tr = {'Lt': x < y, 'Le': x <= y, 'Gt': x > y, 'Ge': x >= y, 'Eq': x == y, 'Ne': x != y}[c[1]]
                    return tr == e[2]
            if c[0] == 'binop' and c[1] in ('Lt', 'Le', 'Gt', 'Ge', 'Eq', 'Ne'):
                a, bb = sign_of(c[2], env), sign_of(c[3], env)
                if a is not None and bb is not None:
                    tr = cmp_signs(c[1], a, bb)
                    if tr is not None:
                        return tr == e[2]
            if c[0] == 'call' and c[1].endswith('f32>::is_nan') and c[2]:
                a = sign_of(c[2][0], env)
                if a is not None:
                    return (a == 'nan') == e[2]
            forks.append(show(c)[:80])
            return None
        if e[0] == 'disc' and e[1][0] == 'discr':
            x = strip(e[1][1])
            vals, other = e[2], e[3]
            sw = paths.switch_at(fn, b)
            listed = [int(v) for v, t in sw['targets']]

            def takes(v):
                return (v in vals) or (other and v not in listed)
            if x[0] == 'arg' and ('disc:%s' % x[2]) in env:
                return takes(env['disc:%s' % x[2]])
            if x[0] == 'call' and x[1].endswith('PartialOrd::partial_cmp') and len(x[2]) == 2:
                a, bb = sign_of(x[2][0], env), sign_of(x[2][1], env)
                if a is not None and bb is not None:
                    o = _order(a, bb)
                    if o == 'nan':
                        return takes(0)
                    return takes(1)
            if x[0] == 'field' and strip(x[1])[0] == 'downcast' and strip(strip(x[1])[1])[0] == 'call' and strip(strip(x[1])[1])[1].endswith('PartialOrd::partial_cmp'):
                pc = strip(strip(x[1])[1])
                a, bb = sign_of(pc[2][0], env), sign_of(pc[2][1], env)
                if a is not None and bb is not None:
                    o = _order(a, bb)
                    if o in (-1, 0, 1):
                        return takes({-1: 255, 0: 0, 1: 1}[o])
                    if o == 'nan':
                        return False
            return None
        return None

    def go(b, seen, defs_env):
        count[0] += 1
        if count[0] > max_paths or b in seen:
            return
        seen = seen | {b}
        d2 = defs_env
        for l, t in fn.defs_in_block(b):
            if l in multi:
                if d2 is defs_env:
                    d2 = dict(defs_env)
                d2[l] = t
        blk = fn.blocks[b]
        t = blk['term']
        if t['k'] == 'return':
            val = fn.local_term_in_env(0, d2)
            kind = 'other'
            if val[0] == 'call':
                kind = 'call'
            outs.append((kind, resolve_phis(val, d2)))
            return
        if t['k'] == 'switch':
            ss = fn.succ(b)
            dec = {s: decide(b, s) for s in ss}
            if any(v is True for v in dec.values()):
                for s, v in dec.items():
                    if v is True:
                        go(s, seen, d2)
            else:
                for s, v in dec.items():
                    if v is not False:
                        go(s, seen, d2)
            return
        for s in fn.succ(b):
            go(s, seen, d2)

    go(0, frozenset(), {})
    return outs, forks
