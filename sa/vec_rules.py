"""Rules on the vector codecs shared by C05 / C12 / C16."""
import paths
from facts import strip, show, walk, const_eval, short


def bq_packer(ctx, rule):
    """the scalar packer emits exactly one native-endian u64 word per chunk of 64 components, nothing else"""
    F = ctx.F
    f = F.fn('unaligned_vector::binary_quantized::from_slice_non_optimized')
    if not ctx.need(f is not None, rule, 'from_slice_non_optimized'):
        return
    # the output buffer: local returned
    outs = [t for b, k, t in paths.ret_assigns(f)]
    key = 'from_slice_non_optimized'
    out_t = strip(outs[0]) if outs else ('unknown',)
    # 1. starts empty
    start_ok = False
    start = None
    if out_t[0] in ('var', 'phi', 'call'):
        l = out_t[1] if out_t[0] in ('var', 'phi') else None
        ds = [d for d in f.defs().get(l, []) if not d[-1]] if l is not None else []
        for d in ds:
            if d[0] == 'call':
                start = d[2].callee
        if out_t[0] == 'call':
            start = out_t[1]
        start_ok = start is not None and start.endswith(('Vec::<T>::new', 'Vec::<T>::with_capacity'))
    ctx.check(start_ok, rule, key + '/starts-empty', f.loc(), 'output starts as an empty Vec (%s)' % (short(start) if start else '?'),
              'the quantised packer does not start from an empty buffer (%s): the number of stored words would no longer be ceil(dimensions/64)' % (start or show(out_t)))
    # 2. chunks(slice, 64) drives the loop, one extend_from_slice(to_ne_bytes(u64)) per iteration, no other write
    chunk_calls = [c for c in f.calls() if c.callee.endswith('::chunks') or c.callee.endswith('::chunks_exact')]
    good_chunks = len(chunk_calls) == 1 and chunk_calls[0].callee.endswith('::chunks') and const_eval(chunk_calls[0].arg_term(1)) == 64
    ctx.check(good_chunks, rule, key + '/chunks-of-64', f.loc(), 'iterates slice.chunks(64) (keeps the trailing partial chunk)',
              'the packer no longer iterates `slice.chunks(64)`: %s' % [(c.callee, const_eval(c.arg_term(1))) for c in chunk_calls])
    writes = [c for c in f.calls() if c.callee.endswith(('Vec::<T, A>::extend_from_slice', 'Vec::<T, A>::push', 'Vec::<T, A>::extend', 'Vec::<T, A>::resize',
                                                         'Vec::<T, A>::insert', 'copy_from_slice', 'Vec::<T, A>::truncate', 'Vec::<T, A>::pop'))]
    ok_w = len(writes) == 1 and writes[0].callee.endswith('extend_from_slice')
    if ok_w:
        src = strip(writes[0].arg_term(1))
        while src[0] == 'cast':
            src = strip(src[2])
        ok_w = src[0] == 'call' and src[1].endswith('<impl u64>::to_ne_bytes')
        # once per outer iteration: every path from the outer `next` back to itself passes the write
        def recv_ty(c):
            a0 = c.args[0] if c.args else None
            return f.local_ty(a0['place']['l']) if a0 and a0.get('k') in ('copy', 'move') else ''
        # the `next` of the chunk iterator itself (by receiver type), not of an iterator over one chunk's components
        outer = [c for c in f.calls() if c.callee.endswith('Iterator::next') and any(s[0] == 'call' and s[1].endswith('::chunks') for s in walk(c.arg_term(0)))
                 and 'Chunks<' in recv_ty(c)]
        if len(outer) == 1:
            ok_w = ok_w and paths.must_pass(f, outer[0].target, [outer[0].bb], [writes[0].bb])
            # and the write is not inside the inner (per-component) loop: the inner `next` does not reach it and come back without the outer
            inner = [c for c in f.calls() if c.callee.endswith('Iterator::next') and c is not outer[0]]
            for ic in inner:
                if writes[0].bb in f.reachable(ic.target, avoid=[outer[0].bb]) and ic.bb in f.reachable(writes[0].target, avoid=[outer[0].bb]):
                    ok_w = False
        else:
            ok_w = False
    ctx.check(ok_w, rule, key + '/one-word-per-chunk', writes[0].loc() if writes else f.loc(), 'exactly one extend_from_slice(u64::to_ne_bytes(word)) per chunk',
              'the packer does not append exactly one native-endian u64 word per chunk of 64 components (writes: %s)' % [short(c.callee) for c in writes])


def bq_entry_points(ctx, rule):
    """BinaryQuantized::from_slice / from_vec hand exactly the caller's components to the packer (no padding values)"""
    F = ctx.F
    BQ = 'unaligned_vector::binary_quantized::BinaryQuantized'
    for meth, callee_suffix in (('from_slice', 'from_slice_non_optimized'), ('from_vec', '::from_slice')):
        f = F.impl_method('UnalignedVectorCodec', BQ, meth)
        if not ctx.need(f is not None, rule, 'BinaryQuantized::' + meth):
            continue
        calls = [c for c in f.calls() if c.callee.endswith(callee_suffix)]
        good = len(calls) >= 1
        for c in calls:
            a = strip(c.arg_term(0))
            while a[0] == 'call' and a[1].endswith(('Deref::deref', 'Vec::<T, A>::as_slice', 'AsRef::as_ref', 'Borrow::borrow')):
                a = strip(a[2][0])
            good = good and a[0] == 'arg' and a[1] == 1
        muts = [short(c.callee) for c in f.calls() if c.callee.endswith(('Vec::<T, A>::resize', 'Vec::<T, A>::push', 'Vec::<T, A>::extend', 'Vec::<T, A>::truncate', 'Vec::<T, A>::insert',
                                                                        'Vec::<T, A>::extend_from_slice', 'Vec::<T, A>::resize_with', 'Vec::<T, A>::append', 'Vec::<T, A>::pop', 'Vec::<T, A>::clear'))]
        ctx.check(good and not muts, rule, 'BinaryQuantized::' + meth, f.loc(), 'quantises exactly the caller\'s components (padding bits stay 0)',
                  'BinaryQuantized::%s does not hand the caller\'s components unchanged to the packer (%s): padding components would set padding bits, which count as differing signs against vectors quantised through the other path' % (meth, muts or 'argument is not the parameter'))


def is_dimensions(t):
    """the declared dimension of the handle: a `dimensions` field or `dimensions()` call rooted at a parameter/capture"""
    from rules import root
    t0 = strip(t)
    if t0[0] == 'field' and t0[2] == 'dimensions':
        return root(t0[1])[0] == 'arg'
    if t0[0] == 'call' and t0[1].endswith('::dimensions') and t0[2]:
        return root(t0[2][0])[0] == 'arg'
    return False


def trunc_rule(ctx, rule, only=None):
    """R-TRUNC: a Vec<f32> obtained by to_vec() from a stored leaf's vector, outside the distance/codec internals,
    is truncated to the declared dimension on every path before it leaves the function or is re-encoded"""
    F = ctx.F
    n = 0
    for f in F.lib_fns():
        if f.path.startswith(('distance::', 'unaligned_vector::', '<unaligned_vector::')):
            continue  # centroid arithmetic and the codec itself: vectors neither returned nor stored
        if only is not None and not any(o in f.path for o in only):
            continue
        if f.path in {h for _c, h in getattr(F, 'inlined', [])}:
            continue  # a new helper: its code is checked where it is (virtually) inlined, with the caller's arguments
        for c in f.calls():
            if not c.callee.endswith('UnalignedVector::<Codec>::to_vec'):
                continue
            n += 1
            key = '%s/to_vec#%d' % (f.path, n)
            truncs = [t for t in f.calls() if t.callee.endswith('Vec::<T, A>::truncate')
                      and paths.mentions_call(t.arg_term(0), c.bb) and is_dimensions(t.arg_term(1))]
            exits = [b for b in f.return_blocks()]
            # `if v.len() > dims { v.truncate(dims) }`: skipping the call when the vector is already short enough is the same
            through = [t.bb for t in truncs]
            for t in truncs:
                for s0, x0, e in paths.controlling_conds(f, t.bb, transitive=False):
                    if e[0] != 'bool':
                        continue
                    c0 = strip(e[1])
                    if c0[0] == 'binop' and c0[1] in ('Gt', 'Ge', 'Lt', 'Le', 'Ne'):
                        a, b2 = strip(c0[2]), strip(c0[3])
                        len_side, dim_side = (a, b2) if (a[0] == 'call' and a[1].endswith('::len')) else (b2, a)
                        if len_side[0] == 'call' and len_side[1].endswith('::len') and paths.mentions_call(len_side, c.bb) and is_dimensions(dim_side):
                            longer = (c0[1] in ('Gt', 'Ge', 'Ne') and len_side is a) or (c0[1] in ('Lt', 'Le', 'Ne') and len_side is b2)
                            if longer and e[2]:
                                # the other edge of this test means "not longer than the declared dimension"
                                through += [y for y in f.succ(s0) if y != x0]
            good = bool(truncs) and paths.must_pass(f, c.target, exits, through)
            # error exits between to_vec and truncate do not count
            ctx.check(good, rule, key, c.loc(), 'truncated to the declared dimension before use',
                      'the vector decoded by to_vec() in `%s` is used at the codec\'s padded length (not truncated to the declared dimension): quantised vectors come back as multiples of 64 components' % f.path)
    return n


def f32_codec_is_bytecopy(ctx, rule):
    """no floating-point arithmetic inside the f32 vector codec"""
    F = ctx.F
    n = 0
    for meth in ('from_bytes', 'from_slice', 'from_vec', 'to_vec', 'iter', 'len'):
        f = F.impl_method('UnalignedVectorCodec', 'f32', meth)
        if not ctx.need(f is not None, rule, 'f32 codec method ' + meth):
            continue
        bad = []
        for g in F.family(f):
            for blk in g.blocks:
                if blk['cleanup']:
                    continue
                for st in blk['stmts']:
                    rv = st['rv']
                    if rv['k'] in ('binop', 'unop'):
                        for key in ('a', 'b'):
                            o = rv.get(key)
                            if o and o.get('k') in ('copy', 'move') and not o['place']['p'] and g.local_ty(o['place']['l']) in ('f32', 'f64'):
                                bad.append(rv['op'])
                            if o and o.get('k') == 'const' and o['c']['ty'] in ('f32', 'f64'):
                                bad.append(rv['op'])
                    if rv['k'] == 'cast' and rv['ck'].startswith(('FloatTo', 'IntToFloat')):
                        bad.append(rv['ck'])
            for c in g.calls():
                if c.callee.startswith(('core::f32::', 'std::f32::')) and not c.callee.endswith(('to_ne_bytes', 'from_ne_bytes', 'to_bits', 'from_bits')):
                    bad.append(short(c.callee))
        n += 1
        ctx.check(not bad, rule, 'f32-codec/' + meth, f.loc(), 'no floating-point operation (bit patterns, NaN payloads and -0.0 survive)',
                  'the f32 vector codec method `%s` computes on the values (%s): stored vectors are no longer returned bit-for-bit' % (meth, sorted(set(bad))))
    return n
