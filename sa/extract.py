"""Run the rustc_private fact extractor over /repo's current working tree.

Every call re-analyses the `arroy` crate: the crate's cargo fingerprints are
deleted first and the fact file carries a per-run nonce, so cargo's freshness
cache can never turn into a stale (vacuous) pass."""
import fcntl
import json
import os
import shutil
import subprocess
import sys
import time
import uuid

VERIF = os.path.dirname(os.path.dirname(os.path.abspath(__file__)))
REPO = os.environ.get("VERIF_REPO", "/repo")
CACHE = os.path.join(VERIF, ".cache")
DRIVER_DIR = os.path.join(VERIF, "driver")
DRIVER_BIN = os.path.join(DRIVER_DIR, "target", "debug", "arroy-facts-driver")

CONFIGS = {
    "default": [],
    "plot": ["--features", "plot"],
    "validity": ["--features", "assert-reader-validity"],
    "all-features": ["--features", "plot,assert-reader-validity"],
}


class ExtractError(Exception):
    pass


def _env():
    env = dict(os.environ)
    env["CARGO_NET_OFFLINE"] = "true"
    env.pop("RUSTC_WRAPPER", None)
    return env


def sysroot():
    out = subprocess.run(["rustc", "+nightly", "--print", "sysroot"], capture_output=True, text=True, env=_env())
    if out.returncode != 0:
        raise ExtractError("nightly toolchain missing: " + out.stderr)
    return out.stdout.strip()


def build_driver(force=False):
    srcs = [os.path.join(DRIVER_DIR, "src", "main.rs"), os.path.join(DRIVER_DIR, "Cargo.toml")]
    if (not force and os.path.exists(DRIVER_BIN)
            and all(os.path.getmtime(DRIVER_BIN) >= os.path.getmtime(s) for s in srcs)):
        return DRIVER_BIN
    r = subprocess.run(["cargo", "+nightly", "build", "--offline"], cwd=DRIVER_DIR,
                       capture_output=True, text=True, env=_env())
    if r.returncode != 0 or not os.path.exists(DRIVER_BIN):
        raise ExtractError("driver build failed:\n" + r.stderr[-4000:])
    return DRIVER_BIN


def extract(config="default", repo=None, target_dir=None, crate="arroy", manifest_dir=None):
    """Return the fact dictionary for `crate` in `repo` under `config`."""
    repo = repo or REPO
    manifest_dir = manifest_dir or repo
    os.makedirs(CACHE, exist_ok=True)
    target_dir = target_dir or os.path.join(CACHE, "target")
    os.makedirs(target_dir, exist_ok=True)
    lock = open(os.path.join(CACHE, "extract.lock"), "w")
    fcntl.flock(lock, fcntl.LOCK_EX)
    try:
        drv = build_driver()
        nonce = uuid.uuid4().hex
        out = os.path.join(CACHE, "facts-%s-%s-%s.json" % (crate, config, nonce[:8]))
        fp = os.path.join(target_dir, "debug", ".fingerprint")
        if os.path.isdir(fp):
            for d in os.listdir(fp):
                if d.startswith(crate.replace("_", "-") + "-") or d.startswith(crate + "-"):
                    shutil.rmtree(os.path.join(fp, d), ignore_errors=True)
        env = _env()
        env["LD_LIBRARY_PATH"] = sysroot() + "/lib" + (":" + env["LD_LIBRARY_PATH"] if env.get("LD_LIBRARY_PATH") else "")
        env["RUSTFLAGS"] = "-Zmir-opt-level=0 -Awarnings"
        env["RUSTC_WORKSPACE_WRAPPER"] = drv
        env["CARGO_TARGET_DIR"] = target_dir
        env["DRV_OUT"] = out
        env["DRV_NONCE"] = nonce
        env["DRV_CRATE"] = crate
        cmd = ["cargo", "+nightly", "check", "--offline", "--lib"] + CONFIGS[config]
        t0 = time.time()
        r = subprocess.run(cmd, cwd=manifest_dir, capture_output=True, text=True, env=env)
        if r.returncode != 0:
            raise ExtractError("cargo check failed under the extractor (config %s):\n%s" % (config, r.stderr[-6000:]))
        if not os.path.exists(out):
            raise ExtractError("extractor produced no fact file (config %s); cargo said:\n%s" % (config, r.stderr[-2000:]))
        with open(out) as f:
            facts = json.load(f)
        os.unlink(out)
        if facts.get("nonce") != nonce:
            raise ExtractError("stale fact file: nonce mismatch")
        facts["config"] = config
        facts["extract_s"] = round(time.time() - t0, 2)
        facts["repo"] = repo
        return facts
    finally:
        fcntl.flock(lock, fcntl.LOCK_UN)
        lock.close()


if __name__ == "__main__":
    cfg = sys.argv[1] if len(sys.argv) > 1 else "default"
    f = extract(cfg)
    out = sys.argv[2] if len(sys.argv) > 2 else os.path.join(CACHE, "facts-debug.json")
    json.dump(f, open(out, "w"))
    print("fns", len(f["fns"]), "adts", len(f["adts"]), "impls", len(f["impls"]), "statics", len(f["statics"]), "in", f["extract_s"], "s ->", out)
