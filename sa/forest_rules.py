"""Rules on the forest-building code (writer.rs / parallel.rs): id kinds, arm purity, symmetry, fresh ids,
bucket updates, stale lookups, batch selector, worklist.  Shared by C01, C14, C15, C20."""
import paths
import pairing
from facts import strip, show, walk, short, const_eval
from rules import (db_ops, cursor_ops, key_info, key_kind_at, mode_facts, same, strip_all, root, owner_path, sp,
                   heed_db_call, loop_every_iteration, some_arm, full_kind_range, KEY_CTORS)
from props import C06

# --------------------------------------------------------------------------- R-KIND
I_SINKS = {'key::Key::item': [1], 'node_id::NodeId::item': [0], 'key::Key::updated': [1], 'node_id::NodeId::updated': [0],
           "parallel::ImmutableLeafs::<'t, D>::get": [1], "parallel::ImmutableSubsetLeafs::<'t, D>::get": [1], 'reader::item_leaf': [3]}
T_SINKS = {'key::Key::tree': [1], 'node_id::NodeId::tree': [0], 'parallel::TmpNodes::<DE>::put': [1], 'parallel::TmpNodes::<DE>::remove': [1],
           'parallel::TmpNodes::<DE>::remap': [1, 2], "parallel::ImmutableTrees::<'t, D>::get": [1],
           "parallel::ImmutableTrees::<'t, D>::sub_tree_from_id": [3]}


class Kinds:
    """bounded, memoised kind evaluation of u32-carrying terms: subset of {'I','T','?'}"""

    def __init__(self, F):
        self.F = F
        self.memo = {}
        self.param_memo = {}
        self.ret_memo = {}
        self.callers = None

    def call_sites(self, g):
        if self.callers is None:
            self.callers = {}
            for f in self.F.lib_fns():
                for c in f.calls():
                    for h in self.F.resolve_call(c):
                        self.callers.setdefault(h.path, []).append((f, c))
        return self.callers.get(g.path, [])

    def of(self, f, t, b, depth=0):
        """kinds of term t evaluated in function f at block b"""
        if depth > 14:
            return {'?'}
        t0 = strip(t)
        k = t0[0]
        if k == 'const':
            return set()  # literal ids (0, MAX) carry no kind
        if k == 'cast':
            return self.of(f, t0[2], b, depth + 1)
        if k == 'call':
            n = t0[1]
            if n.endswith('ConcurrentNodeIds::next'):
                return {'T'}
            if n.endswith('NodeId::unwrap_tree'):
                return {'T'}
            if n.endswith('NodeId::unwrap_item'):
                return {'I'}
            if n.endswith(('RoaringBitmap>::min', 'RoaringBitmap>::max', 'RoaringBitmap>::select', 'Option::<T>::unwrap', '::expect', 'Iterator::next',
                           'IntoIterator::into_iter', 'RoaringBitmap>::iter', '::copied', '::cloned', 'Deref::deref', '::into_owned', '::iter', '::first', '::last')):
                return self.of(f, t0[2][0], b, depth + 1) if t0[2] else {'?'}
            if n.endswith('ItemIds::<\'a>::iter') or n.endswith('ItemIds::iter'):
                return self.of(f, t0[2][0], b, depth + 1)
            # in-crate function returning an id: union over its returns
            for g in self.F.resolve_call(f.call_at(t0[3])) if f.call_at(t0[3]) else []:
                return self.ret_kinds(g, depth + 1)
            return {'?'}
        if k == 'field':
            name = t0[2]
            base = strip(t0[1])
            if name == 'item':
                # NodeId.item: refined by the mode tests dominating b, or by how the NodeId was built
                if base[0] == 'call' and base[1] in ('node_id::NodeId::tree',):
                    return {'T'}
                if base[0] == 'call' and base[1] in ('node_id::NodeId::item',):
                    return {'I'}
                if base[0] == 'agg' and base[1].endswith('NodeId'):
                    md = dict(base[3]).get('mode')
                    if md and strip(md)[0] == 'agg':
                        return {'T'} if strip(md)[2] == 'Tree' else ({'I'} if strip(md)[2] == 'Item' else {'?'})
                owner = strip_all(base)
                for o, var, holds in mode_facts(f, b):
                    if o == owner and holds:
                        return {'T'} if var == 'Tree' else ({'I'} if var == 'Item' else {'?'})
                # key.node.item of a key yielded by a prefix scan
                for s in walk(base):
                    if s[0] == 'call' and 'prefix_iter' in s[1] and len(s[2]) > 2:
                        ki = key_info(s[2][2])
                        if ki and ki[0] == 'p-tree':
                            return {'T'}
                        if ki and ki[0] in ('p-item', 'p-updated'):
                            return {'I'}
                return {'D'}  # depends on its own mode: compatible with everything
            if name in ('descendants', 'items'):
                return {'I'}
            if name == 'roots':
                return {'T'}
            if name.isdigit() or name in ('0', '1'):
                return self.of(f, t0[1], b, depth + 1)
            return {'?'}
        if k == 'downcast':
            return self.of(f, t0[1], b, depth + 1)
        if k in ('index', 'cindex', 'subslice'):
            return self.of(f, t0[1], b, depth + 1)
        if k == 'tuple':
            out = set()
            for x in t0[1][:1]:
                out |= self.of(f, x, b, depth + 1)
            return out
        if k == 'arg':
            return self.param_kinds(f, t0[1], depth + 1)
        if k in ('var', 'phi'):
            l = t0[1]
            out = set()
            ds = [d for d in f.defs().get(l, []) if not d[-1]]
            if not ds:
                return {'?'}
            for d in ds[:6]:
                dt = f._def_term(d, 0, frozenset([l]))
                if dt[0] in ('var', 'phi') and dt[1] == l:
                    continue
                out |= self.of(f, dt, d[1], depth + 2)
            # containers: what is inserted into them
            ty = f.local_ty(l)
            if 'RoaringBitmap' in ty or 'Vec<u32>' in ty:
                for c in f.calls():
                    if c.callee.endswith(('::insert', '::push', '::bitor_assign', '::extend')) and len(c.args) >= 2:
                        r = root(c.arg_term(0))
                        if r[0] in ('var', 'phi') and r[1] == l:
                            out |= self.of(f, c.arg_term(1), c.bb, depth + 2)
            return out or {'?'}
        if k == 'agg':
            if t0[1].endswith('Option') and t0[3]:
                return self.of(f, t0[3][0][1], b, depth + 1)
            return {'?'}
        if k == 'array':
            out = set()
            for x in t0[1]:
                out |= self.of(f, x, b, depth + 1)
            return out
        return {'?'}

    def param_kinds(self, f, l, depth):
        key = (f.path, l)
        if key in self.param_memo:
            return self.param_memo[key]
        self.param_memo[key] = {'?'}  # recursion guard
        name = f.local_name(l)
        out = set()
        if f.kind == 'Closure':
            # closure parameters: elements of what is iterated; unknown here
            self.param_memo[key] = {'?'}
            return {'?'}
        sites = self.call_sites(f)
        if not sites or depth > 10:
            r = {'?'}
        else:
            for g, c in sites:
                if g.path == f.path:
                    continue  # recursive call: parameters fed from the function's own values
                if l - 1 < len(c.args):
                    out |= self.of(g, c.arg_term(l - 1), c.bb, depth + 1)
            r = out or {'?'}
        self.param_memo[key] = r
        return r

    def ret_kinds(self, g, depth):
        if g.path in self.ret_memo:
            return self.ret_memo[g.path]
        self.ret_memo[g.path] = set()
        out = set()
        for b, k, t in paths.ret_assigns(g):
            if k in ('err', 'residual'):
                continue
            tt = t
            if t[0] == 'agg' and t[1].endswith('result::Result') and t[3]:
                tt = t[3][0][1]
            if k == 'call':
                c = g.call_at(t[3])
                hs = self.F.resolve_call(c) if c else []
                if hs and hs[0].path != g.path:
                    out |= self.ret_kinds(hs[0], depth + 1)
                continue
            s = strip(tt)
            if s[0] == 'tuple' and s[1]:
                s = s[1][0]
            out |= self.of(g, s, b, depth + 1)
        self.ret_memo[g.path] = out or {'?'}
        return self.ret_memo[g.path]


def r_kind(ctx, rule='R-KIND'):
    F = ctx.F
    K = Kinds(F)
    n = 0
    src = 0
    for f in F.lib_fns():
        if not f.path.startswith(('writer::', 'parallel::', 'reader::', 'upgrade::')):
            continue
        for c in f.calls():
            if c.callee.endswith('ConcurrentNodeIds::next'):
                src += 1
            for table, want, other in ((I_SINKS, 'I', 'T'), (T_SINKS, 'T', 'I')):
                if c.callee in table:
                    for i in table[c.callee]:
                        if i >= len(c.args):
                            continue
                        n += 1
                        ks = K.of(f, c.arg_term(i), c.bb)
                        key = '%s/%s#%d' % (f.path, short(c.callee), n)
                        a0 = strip(c.arg_term(i))
                        core = strip(a0[1]) if a0[0] == 'field' else ('unknown',)
                        while core[0] in ('try', 'downcast') or (core[0] == 'field' and core[2] == '0'):
                            core = strip(core[1])
                        if core[0] == 'field':
                            # a named field of a value returned by a call (`make(..)?.root.item`) is a call result like `.0`
                            r0 = core
                            while r0[0] in ('field', 'downcast', 'try'):
                                r0 = strip(r0[1])
                            if r0[0] == 'call':
                                core = r0
                        if 'D' in ks and a0[0] == 'field' and a0[2] == 'item' and core[0] in ('var', 'phi', 'arg', 'field') and f.path.startswith(('writer::', 'parallel::')):
                            # `x.item` of a link whose kind is only known from `x.mode`: the sink needs a dominating test of that very node
                            ctx.bad(rule, key + '/unguarded', c.loc(), '`%s(%s)` in `%s` uses the id of a node link as %s id without a dominating test of that link\'s own mode: when the link is %s the wrong entry is addressed' % (
                                short(c.callee), show(a0)[:60], f.path, 'an item' if want == 'I' else 'a tree-node', 'a tree node' if want == 'I' else 'a bare item'))
                        ctx.check(other not in ks, rule, key, c.loc(), '%s-sink fed with kinds %s' % (want, sorted(ks)),
                                  '`%s` in `%s` expects %s id but may receive %s id: %s (a tree-node id used as an item id, or vice versa, corrupts the forest)' % (
                                      short(c.callee), f.path, 'an item' if want == 'I' else 'a tree-node', 'a tree-node' if want == 'I' else 'an item', show(c.arg_term(i))[:120]))
    # R-RETAG: building a NodeId/Key of a fixed kind from another node's `.item` needs a dominating test of that node's mode
    rt = 0
    for f in F.lib_fns():
        if not f.path.startswith(('writer::', 'parallel::')):
            continue
        for c in f.calls():
            want = {'node_id::NodeId::item': ('Item', 0), 'node_id::NodeId::tree': ('Tree', 0), 'key::Key::item': ('Item', 1), 'key::Key::tree': ('Tree', 1)}.get(c.callee)
            if not want:
                continue
            a = strip(c.arg_term(want[1]))
            if a[0] == 'field' and a[2] == 'item':
                base = strip(a[1])
                is_nodeid = False
                if base[0] in ('arg', 'var', 'phi'):
                    is_nodeid = 'NodeId' in f.local_ty(base[1])
                elif base[0] in ('field', 'call', 'downcast', 'try'):
                    is_nodeid = True
                if not is_nodeid:
                    continue
                if base[0] == 'field' and base[2] == 'node':
                    continue  # key.node.item of a typed key: kind known from the scan prefix (R-KIND)
                rt += 1
                owner = strip_all(base)
                facts = [(o, v, h) for o, v, h in mode_facts(f, c.bb) if o == owner]
                good = any(v == want[0] and h for o, v, h in facts)
                ctx.check(good, rule, '%s/retag-%s#%d' % (f.path, short(c.callee), rt), c.loc(), 'mode of the source node tested (%s)' % want[0],
                          '`%s(%s)` in `%s` re-tags the id of another node as %s without a dominating test that this node is %s: a tree-node id would be stored as an item id (or vice versa)' % (
                              short(c.callee), show(a), f.path, want[0], want[0]))
    ctx.floor(rule, 'id sinks with a fixed kind', n, 50)
    ctx.floor(rule, 'fresh-id sources', src, 3)
    return K


# --------------------------------------------------------------------------- arm purity / symmetry
def child_mode_switches(f):
    """[(switch block, 'left'|'right', {variant: successor})] for `match <split>.left.mode { .. }`"""
    out = []
    for b in f.live_blocks():
        sw = paths.switch_at(f, b)
        if sw is None:
            continue
        d = f.term(sw['discr'])
        if d[0] != 'discr':
            continue
        m = strip(d[1])
        if m[0] == 'field' and m[2] == 'mode':
            o = strip(m[1])
            if o[0] == 'field' and o[2] in ('left', 'right'):
                out.append((b, o[2], {int(v): t for v, t in sw['targets']}))
    return out


def r_arm_purity(ctx, rule='R-ARM-PURITY'):
    """inside the arm handling one child, only that child's link is read"""
    F = ctx.F
    n = 0
    for f in F.lib_fns():
        if not f.path.startswith(('writer::', 'parallel::')):
            continue
        for b, side, targets in child_mode_switches(f):
            other = 'right' if side == 'left' else 'left'
            for v, tgt in targets.items():
                region = [x for x in f.reachable(tgt) if paths.edge_dominates(f, b, tgt, x)]
                n += 1
                bad = []
                for x in region:
                    blk = f.blocks[x]
                    places = []
                    for st in blk['stmts']:
                        rv = st['rv']
                        for key in ('o', 'a', 'b'):
                            if key in rv and isinstance(rv[key], dict) and rv[key].get('k') in ('copy', 'move'):
                                places.append((rv[key]['place'], st['span']))
                        if 'place' in rv:
                            places.append((rv['place'], st['span']))
                        for o in rv.get('ops', []):
                            if o.get('k') in ('copy', 'move'):
                                places.append((o['place'], st['span']))
                    t = blk['term']
                    if t['k'] == 'call':
                        for a in t['args']:
                            if a.get('k') in ('copy', 'move'):
                                places.append((a['place'], t['span']))
                    for pl, span in places:
                        tt = strip(f.place_term(pl))
                        for s in walk(tt):
                            if s[0] == 'field' and s[2] == other and strip(s[1])[0] in ('downcast', 'field', 'call', 'var', 'arg') and 'NodeId' in _field_ty(pl, other):
                                bad.append(span['line'])
                key = '%s/%s-arm#%d' % (f.path, side, n)
                ctx.check(not bad, rule, key, '%s:%d' % (f.span['file'], paths.block_line(f, b)), 'the %s-child arm reads only the %s link' % (side, side),
                          'in `%s` the arm handling the %s child reads the %s child (line %s): a decision about one child is taken from its sibling' % (f.path, side, other, sorted(set(bad))))
    ctx.floor(rule, 'per-child arms', n, 4)


def _field_ty(pl, name):
    for e in pl['p']:
        if e['k'] == 'field' and e['n'] == name:
            return e.get('ty', '')
    return ''


def r_symmetry(ctx, rule='R-SYMMETRY'):
    """operations applied to a Left-derived value are applied to the Right-derived one as well"""
    F = ctx.F
    n = 0
    summaries = {}
    for f in F.lib_fns():
        if not f.path.startswith('writer::'):
            continue
        aggs = pairing.split_aggregates(f)
        if not aggs:
            continue
        tg = pairing.Tags(F, f, summaries)
        count = {'L': {}, 'R': {}}
        for c in f.calls():
            tags = set()
            for a in c.args:
                tags |= tg.read_op(a)
            if pairing.side_of(tags) is not None:
                side = pairing.side_of(tags)
                nm = short(c.callee)
                if nm in ('deref', 'clone', 'into', 'from', 'branch', 'from_residual', 'len', 'is_empty', 'eq', 'ne', 'drop'):
                    continue
                count[side][nm] = count[side].get(nm, 0) + 1
        n += 1
        ctx.check(count['L'] == count['R'], rule, f.path, f.loc(), 'same operations on the left- and right-derived values: %s' % count['L'],
                  'in `%s` the two children are not treated alike: operations on left-derived values %s, on right-derived values %s (a removal, rewrite or recursion is applied to one side only)' % (f.path, count['L'], count['R']))
    ctx.floor(rule, 'functions building split nodes', n, 3)
    # recursive walkers that take a stored split apart (tree deletion): the recursion visits both children -- a child may
    # only be skipped on a path where its own link was tested not to be a tree node
    for f in F.lib_fns():
        if not f.path.startswith('writer::') or pairing.split_aggregates(f):
            continue
        rec = [c for c in f.calls() if c.callee == f.path]
        if not rec:
            continue
        tg = pairing.Tags(F, f, summaries)
        by_side = {'L': [], 'R': []}
        for c in rec:
            tags = set()
            for a in c.args:
                tags |= tg.read_op(a)
            if pairing.side_of(tags) is not None:
                by_side[pairing.side_of(tags)].append(c)
        if not by_side['L'] and not by_side['R']:
            continue
        n += 1
        good = bool(by_side['L']) and bool(by_side['R'])
        why = 'recursion on %d left / %d right links' % (len(by_side['L']), len(by_side['R']))
        if good:
            first = min(c.bb for c in rec)
            starts = [b for b in f.dominators().get(first, ()) if all(f.dominates(b, c.bb) for c in rec)]
            # the innermost block dominating every recursive call: the start of the split arm
            arm = max(starts, key=lambda b: len(f.dominators().get(b, ()))) if starts else 0
            goals = [b for b, k, t in paths.ret_assigns(f) if k in ('ok', 'call', 'other') and b in f.reachable(arm)]
            for side, fld in (('L', 'left'), ('R', 'right')):
                skip_ok = set()
                for b in f.reachable(arm):
                    for o, var, holds in mode_facts(f, b):
                        if isinstance(o, tuple) and o and o[0] == 'field' and o[-1] == fld and ((var == 'Tree' and not holds) or (var in ('Item',) and holds)):
                            skip_ok.add(b)
                through = [c.bb for c in by_side[side]] + sorted(skip_ok)
                if goals and not paths.must_pass(f, arm, goals, through):
                    good = False
                    why = 'a path through the split arm returns without visiting the %s child (and without having seen that it is not a tree node)' % fld
        ctx.check(good, rule, f.path + '/walk', f.loc(), 'both children are visited by the recursion (%s)' % why,
                  'in `%s` the recursion over a stored split does not visit both children: %s -- the other sub-tree is left behind (unreferenced nodes) or never examined' % (f.path, why))


# --------------------------------------------------------------------------- R-RELINK
def r_relink(ctx, rule='R-RELINK'):
    """when the id returned by the recursion on a child differs from the stored link, the parent split is rewritten"""
    F = ctx.F
    n = 0
    for f in F.lib_fns():
        if not f.path.startswith('writer::'):
            continue
        aggs = pairing.split_aggregates(f)
        rec = [c for c in f.calls() if c.callee == f.path]
        if not aggs or not rec:
            continue
        # the put(s) storing a split built from the recursion results
        puts = []
        for c in f.calls():
            if c.callee == 'parallel::TmpNodes::<DE>::put' and paths.agg_fields(c.arg_term(2), 'node::SplitPlaneNormal') is not None:
                if any(paths.mentions_call(c.arg_term(2), r.bb) for r in rec):
                    puts.append(c)
        if not puts:
            continue
        # a parent rewritten after the recursion links what the recursion returned on *both* sides: a child field that is
        # still the link as it was read would drop whatever the recursion created or moved on that side
        for pc in puts:
            d = paths.agg_fields(pc.arg_term(2), 'node::SplitPlaneNormal')
            stale = [side for side in ('left', 'right') if d and side in d and not any(paths.mentions_call(d[side], r.bb) for r in rec)]
            ctx.check(not stale, rule, '%s/rewritten-parent-links-results' % f.path, pc.loc(), 'both children of the rewritten parent come from the recursion results',
                      'in `%s` the parent split is rewritten with its %s child still the link read before the recursion: a node the recursion created or moved on that side becomes unreachable' % (f.path, '/'.join(stale)))
        goals = [b for b, k, t in paths.ret_assigns(f) if k in ('ok', 'call', 'other')]
        for b in f.live_blocks():
            if paths.switch_at(f, b) is None:
                continue
            for x in f.succ(b):
                e = paths.edge_cond(f, b, x)
                if not e or e[0] != 'bool':
                    continue
                c0 = strip(e[1])
                differs = None
                if c0[0] == 'call' and c0[1].endswith(('PartialEq::ne', 'PartialEq::eq')) and len(c0[2]) == 2:
                    cc = f.call_at(c0[3])
                    if cc is None or 'node_id::NodeId as' not in cc.resolved:
                        continue
                    differs = e[2] if c0[1].endswith('::ne') else (not e[2])
                    a, bb = c0[2]
                elif c0[0] == 'binop' and c0[1] in ('Ne', 'Eq'):
                    differs = e[2] if c0[1] == 'Ne' else (not e[2])
                    a, bb = c0[2], c0[3]
                    sa_, sb_ = strip(a), strip(bb)
                    if sa_[0] == 'field' and sb_[0] == 'field' and sa_[2] == sb_[2] == 'item':
                        ra = [r for r in rec if paths.mentions_call(a, r.bb)]
                        rb = [r for r in rec if paths.mentions_call(bb, r.bb)]
                        if bool(ra) != bool(rb):
                            n += 1
                            ctx.bad(rule, '%s/id-only-comparison#%d' % (f.path, n), '%s:%d' % (f.span['file'], paths.block_line(f, b)),
                                    'in `%s` the new child is compared with the stored link by id only, ignoring the kind (line %d): a fresh tree node whose id equals the id of the item it replaces is taken for "unchanged" and the parent keeps pointing to the item' % (f.path, paths.block_line(f, b)))
                            continue
                else:
                    continue
                ma = [r for r in rec if paths.mentions_call(a, r.bb)]
                mb = [r for r in rec if paths.mentions_call(bb, r.bb)]
                if bool(ma) == bool(mb) or not differs:
                    continue
                # only comparisons of a new child id with the old link (not size tests etc.)
                tys = []
                for o in (a, bb):
                    r0 = root(o)
                    if r0[0] in ('arg', 'var', 'phi'):
                        tys.append(f.local_ty(r0[1]))
                n += 1
                good = paths.must_pass(f, x, goals, [p.bb for p in puts])
                ctx.check(good, rule, '%s/changed-child#%d' % (f.path, n), '%s:%d' % (f.span['file'], paths.block_line(f, b)),
                          'a changed child id always leads to the parent being rewritten',
                          'in `%s` the parent split can be left untouched although the id of one child changed (line %d): the new child node becomes unreachable and the old link dangles' % (f.path, paths.block_line(f, b)))
        # what the walker hands back to its parent is its own id or the id the recursion returned for the surviving child --
        # never the link as it was stored before the recursion (that node may just have been removed or replaced)
        removes = [c for c in f.calls() if c.callee == 'parallel::TmpNodes::<DE>::remove']
        nret = 0
        for b, k, t in (paths.ret_assigns(f) if removes else ()):
            if k != 'ok':
                continue
            nret += 1
            pay = strip(dict(strip(t)[3]).get('0', ('unknown',))) if strip(t)[0] == 'agg' else ('unknown',)
            if pay[0] != 'tuple' or not pay[1]:
                continue
            idt = pay[1][0]
            own = root(idt)[0] == 'arg' and not any(y[0] == 'call' for y in walk(idt))
            fresh = any(paths.mentions_call(idt, r.bb) for r in rec)
            ctx.check(own or fresh, rule, '%s/returned-id#%d' % (f.path, nret), '%s:%d' % (f.span['file'], paths.block_line(f, b)),
                      'returns its own id or the id returned by the recursion on the surviving child',
                      'in `%s` the id handed back to the parent (line %d) is a link read before the recursion, not the id the recursion returned: the parent would point to a node that was just removed or replaced' % (f.path, paths.block_line(f, b)))
    ctx.floor(rule, 'new-vs-old child comparisons', n, 2)


# --------------------------------------------------------------------------- R-PUSH-SORTED
def r_push_sorted(ctx, rule='R-PUSH-SORTED'):
    """RoaringBitmap::push silently ignores a value that is not above the current maximum: it may only be fed from an
    ascending source (iteration of a bitmap / of an LMDB prefix, select(0) loops) unless its boolean result is looked at"""
    F = ctx.F
    n = 0
    for f in F.lib_fns():
        if not f.path.startswith(('writer::', 'parallel::')):
            continue
        for c in f.calls():
            if not c.callee.endswith('RoaringBitmap>::push'):
                continue
            n += 1
            key = '%s/push#%d' % (f.path, n)
            used = any(u['k'] != 'drop' for u in f.uses(c.dest['l'])) if not c.dest['p'] else True
            v = c.arg_term(1)
            ascending = any(s[0] == 'call' and s[1].endswith('Iterator::next') for s in walk(v))
            # `while let Some(x) = b.select(0) / b.min() { .. b.remove_smallest(1) / b.remove(x) .. }` with nothing added to b: ascending too
            for s in walk(v):
                if s[0] == 'call' and ((s[1].endswith('RoaringBitmap>::select') and const_eval(s[2][1]) == 0) or s[1].endswith('RoaringBitmap>::min')):
                    src = root(s[2][0])
                    on_src = [x for x in f.calls() if x.args and root(x.arg_term(0)) == src]
                    removes = [x for x in on_src if (x.callee.endswith('RoaringBitmap>::remove_smallest') and const_eval(x.arg_term(1)) == 1) or
                               (x.callee.endswith('RoaringBitmap>::remove') and paths.mentions_call(x.arg_term(1), s[3]))]
                    adds = [x for x in on_src if x.callee.endswith(('RoaringBitmap>::insert', 'RoaringBitmap>::push', 'bitor_assign', 'Extend::extend', 'RoaringBitmap>::insert_range', 'bitxor_assign', 'RoaringBitmap>::append'))]
                    if removes and not adds:
                        ascending = True
            if not ascending and f.kind == 'Closure' and any(x[0] == 'arg' and x[1] >= 2 for x in walk(v)):
                # the element parameter of a closure folded over an ascending iteration (LMDB prefix scan / bitmap iteration)
                for g in F.lib_fns():
                    for x in g.calls():
                        if x.callee.endswith(('Iterator::try_fold', 'Iterator::fold', 'Iterator::for_each', 'Iterator::try_for_each')) and len(x.args) >= 2:
                            clo = strip(x.arg_term(len(x.args) - 1))
                            if clo[0] == 'closure' and clo[1] == f.path:
                                src = x.arg_term(0)
                                names = [y[1] for y in walk(src) if y[0] == 'call']
                                sorted_src = any('prefix_iter' in n or n.endswith(('RoaringBitmap>::iter', 'RoaringBitmap>::into_iter')) or ('range' in n and n.startswith('heed::')) for n in names)
                                lossy_order = any(n.endswith(('Iterator::rev', 'Iterator::chain', 'Iterator::flat_map', 'Iterator::flatten')) for n in names)
                                if sorted_src and not lossy_order:
                                    ascending = True
            if not ascending and not f.in_cycle(c.bb):
                # the first value pushed into a bitmap created empty in this function (`let mut b = RoaringBitmap::new(); b.push(x)`)
                recv = strip(c.arg_term(0))
                if recv[0] == 'call' and recv[1].endswith(('RoaringBitmap>::new', 'Default::default')) and isinstance(recv[3], int):
                    earlier = [x for x in f.calls() if x.bb != c.bb and x.args and strip(x.arg_term(0))[0] == 'call' and strip(x.arg_term(0))[3] == recv[3]
                               and x.callee.endswith(('RoaringBitmap>::insert', 'RoaringBitmap>::push', 'bitor_assign', 'Extend::extend', 'RoaringBitmap>::insert_range', 'RoaringBitmap>::append'))
                               and c.bb in f.reachable(x.target)]
                    if not earlier:
                        ascending = True
            ctx.check(used or ascending, rule, key, c.loc(), 'pushed value comes from an ascending iteration' if ascending else 'push result is checked',
                      '`RoaringBitmap::push` in `%s` is fed with %s, which is not taken from an ascending iteration, and its result is ignored: the value is silently dropped unless it is larger than everything already in the bitmap' % (f.path, show(v)[:80]))
    ctx.floor(rule, 'RoaringBitmap::push sites', n, 3)


# --------------------------------------------------------------------------- R-BATCH-SETS
def r_batch_sets(ctx, rule='R-BATCH-SETS'):
    """the id sets the build hands to its passes: removal gets every updated id (an overwritten item must leave its old
    bucket before it is inserted again), insertion gets live & updated, a tree created from scratch gets every live id"""
    F = ctx.F
    be = C06.build_entry(F)
    if not ctx.need(be is not None, rule, 'build entry'):
        return
    # roles: L = the live item scan, U = the updated-mark scan (the functions, found by what they do)
    Ls, Us = set(), set()
    for c in be.calls():
        for h in F.resolve_call(c):
            if h.path == be.path or not h.ret_ty().endswith('RoaringBitmap, error::Error>') and 'RoaringBitmap' not in h.ret_ty():
                continue
            fam = F.family(h)
            scans = [(key_info(x.arg_term(2)) or (None,))[0] for hh in fam for x in hh.calls() if 'prefix_iter' in x.callee]
            if scans == ['p-item']:
                Ls.add(h.path)
            if any(C06.scan_loops(F, hh, 'p-updated') for hh in fam):
                Us.add(h.path)
    if not ctx.need(len(Ls) == 1 and len(Us) == 1, rule, 'live-item scan and updated-mark scan called by the build entry (found %s / %s)' % (sorted(Ls), sorted(Us))):
        return
    L, U = list(Ls)[0], list(Us)[0]

    def setexpr(t):
        t0 = t if isinstance(t, tuple) else ('unknown',)
        if t0[0] == 'call':
            if t0[1] == L:
                return 'L'
            if t0[1] == U:
                return 'U'
            if t0[1].endswith('BitAnd::bitand') and len(t0[2]) == 2:
                return ('and', frozenset([setexpr(t0[2][0]), setexpr(t0[2][1])]))
            if t0[1].endswith('BitOr::bitor') and len(t0[2]) == 2:
                return ('or', frozenset([setexpr(t0[2][0]), setexpr(t0[2][1])]))
            if t0[1].endswith('ops::Sub::sub') and len(t0[2]) == 2:
                return ('sub', setexpr(t0[2][0]), setexpr(t0[2][1]))
        if t0[0] == 'agg' and t0[1].endswith('borrow::Cow') and t0[3]:
            return setexpr(t0[3][0][1])
        return ('?', repr(t0)[:80])

    def bitmap_args(c):
        g = F.fn(c.callee)
        out = []
        if g is None:
            return out
        for i in range(len(c.args)):
            if i + 1 < len(g.locals) and 'RoaringBitmap' in g.local_ty(i + 1) and 'ConcurrentNodeIds' not in g.local_ty(i + 1):
                out.append(setexpr(strip_all(c.arg_term(i))))
        return out
    dels = [c for c in be.calls() if c.callee.endswith('::delete_items_from_trees')]
    inss = [c for c in be.calls() if c.callee.endswith('::insert_items_in_current_trees')]
    if ctx.need(len(dels) == 1, rule, 'removal pass call in the build entry'):
        got = bitmap_args(dels[0])
        ctx.check(got == ['U'], rule, be.path + '/removal-set', dels[0].loc(), 'the removal pass receives every updated id',
                  'the removal pass of `%s` does not receive exactly the updated ids (%s): an overwritten or deleted item could stay in its old bucket (and be inserted a second time)' % (be.path, got))
    if ctx.need(len(inss) == 1, rule, 'insertion pass call in the build entry'):
        got = bitmap_args(inss[0])
        ctx.check(got == [('and', frozenset(['L', 'U']))], rule, be.path + '/insertion-set', inss[0].loc(), 'the insertion pass receives live & updated',
                  'the insertion pass of `%s` does not receive exactly the live updated ids (%s)' % (be.path, got))
    # trees created from scratch (in the build entry or in a closure it maps over the missing trees)
    n = 0
    clos = {}
    for c0 in be.calls():
        for i0 in range(len(c0.args)):
            for x in walk(c0.arg_term(i0)):
                if x[0] == 'closure' and len(x) > 2:
                    clos[x[1]] = list(x[2])
    scope = list(F.family(be)) + [F.fn(p0) for p0 in clos if F.fn(p0) is not None and F.fn(p0) not in F.family(be)]
    for (g0, c, op, w, k) in db_ops(F, scope):
        if op != 'put' or k is None:
            continue
        ki = key_info(c.arg_term(k))
        if not ki or ki[0] != 'tree' or not any(x[0] == 'call' and x[1].endswith('ConcurrentNodeIds::next') for x in walk(ki[2])):
            continue
        val = c.arg_term(3)
        if g0 is not be:
            if g0.path not in clos:
                continue
            from reader_rules import closure_subst
            val = closure_subst(val, clos[g0.path])
        d = paths.agg_fields(val, 'node::Descendants')
        if not d:
            continue
        n += 1
        got = setexpr(strip_all(d['descendants']))
        ctx.check(got == 'L', rule, be.path + '/new-tree-set', c.loc(), 'a tree created from scratch starts from every live id',
                  'a new tree created by `%s` does not start from the full live item set (%s): it would never cover the other items' % (be.path, got))
    ctx.floor(rule, 'from-scratch tree creations in the build entry', n, 1)


# --------------------------------------------------------------------------- R-FULL-SCAN
LOSSY_ADAPTORS = ('Iterator::take', 'Iterator::skip', 'Iterator::step_by', 'Iterator::take_while', 'Iterator::skip_while', 'Iterator::filter',
                  'Iterator::filter_map', 'Iterator::nth', 'Iterator::map_while', 'Iterator::scan', 'Iterator::peekable')


def r_full_scan(ctx, rule='R-FULL-SCAN'):
    """the scans the build relies on (tree-node snapshot, used ids, live items, updated marks, wipes, upgrades) visit every
    entry of their prefix: no truncating or filtering adaptor sits between the LMDB cursor and its consumer"""
    F = ctx.F
    n = 0
    for f in F.lib_fns():
        if not f.path.startswith(('writer::', 'parallel::', 'upgrade::', 'distance::')):
            continue
        for c in f.calls():
            if not c.args or not c.callee.endswith(('Iterator::next', 'Iterator::try_fold', 'Iterator::fold', 'Iterator::for_each', 'Iterator::try_for_each',
                                                    'Iterator::collect', 'Extend::extend', 'Iterator::count', 'Iterator::last')):
                continue
            t = c.arg_term(1) if c.callee.endswith('Extend::extend') and len(c.args) > 1 else c.arg_term(0)
            names = [x[1] for x in walk(t) if x[0] == 'call']
            if not any(nm.startswith('heed::') and ('prefix_iter' in nm or nm.endswith(('::iter', '::range', '::rev_range', '::iter_mut', '::range_mut', '::rev_iter'))) for nm in names):
                continue
            n += 1
            lossy = sorted({short(nm) for nm in names if nm.endswith(LOSSY_ADAPTORS)})
            ctx.check(not lossy, rule, '%s/scan#%d' % (f.path, n), c.loc(), 'the cursor is consumed entry by entry',
                      'the database scan in `%s` goes through %s: entries of the prefix can be skipped (a snapshot, id set or wipe built from it would be incomplete)' % (f.path, lossy))
    ctx.floor(rule, 'database scans in the writer / parallel / upgrade code', n, 8)


# --------------------------------------------------------------------------- R-FRESH
def r_fresh(ctx, rule='R-FRESH'):
    """every freshly allocated tree id is written under that id and linked, on every success path"""
    F = ctx.F
    n = 0
    for f in F.lib_fns():
        for c in f.calls():
            if not c.callee.endswith('ConcurrentNodeIds::next'):
                continue
            n += 1
            key = '%s/next#%d' % (f.path, n)
            arms = paths.result_arms(f, c)
            start = arms.get('ok')
            if start is None:
                ctx.bad(rule, key, c.loc(), 'the result of ConcurrentNodeIds::next() in `%s` is not unwrapped with `?`' % f.path)
                continue
            writes = []
            for x in f.calls():
                if x.callee == 'parallel::TmpNodes::<DE>::put' and paths.mentions_call(x.arg_term(1), c.bb):
                    writes.append(x)
                h = heed_db_call(x)
                if h and h[0] == 'put':
                    ki = key_info(x.arg_term(2))
                    if ki and ki[0] == 'tree' and paths.mentions_call(ki[2], c.bb):
                        writes.append(x)
            goals = [b for b, k, t in paths.ret_assigns(f) if k in ('ok', 'call', 'other')]
            # inside a loop the next iteration also counts as "going on"
            lp = [h for h in f.dominators().get(c.bb, ()) if c.bb in paths.natural_loop(f, h)]
            goals2 = goals + lp
            good_w = bool(writes) and paths.must_pass(f, start, goals2, [w.bb for w in writes])
            ctx.check(good_w, rule, key + '/written', c.loc(), 'a node is stored under the fresh id on every success path',
                      'in `%s` a freshly allocated tree id can be used without a node being stored under it (dangling link)' % f.path)
            linked = False
            for b, k, t in paths.ret_assigns(f):
                if k in ('ok', 'other') and paths.mentions_call(t, c.bb):
                    linked = True
            pushes = [x for x in f.calls() if x.callee.endswith(('Vec::<T, A>::push',)) and paths.mentions_call(x.arg_term(1), c.bb)]
            if pushes and paths.must_pass(f, start, goals2, [x.bb for x in pushes]):
                linked = True
            ctx.check(linked, rule, key + '/linked', c.loc(), 'the fresh id is returned to the parent or pushed to the roots',
                      'in `%s` a node is stored under a fresh id that nothing links to (unreferenced tree node left behind)' % f.path)
    ctx.floor(rule, 'fresh-id allocations', n, 3)


# --------------------------------------------------------------------------- R-BITMAP
def r_bitmap(ctx, rule='R-BITMAP'):
    """a bucket rewritten under its own id derives from the old bucket by `|= to_insert` / `-= to_delete` only"""
    F = ctx.F
    n = 0
    for f in F.lib_fns():
        if not f.path.startswith('writer::'):
            continue
        for c in f.calls():
            if c.callee != 'parallel::TmpNodes::<DE>::put':
                continue
            d = paths.agg_fields(c.arg_term(2), 'node::Descendants')
            if not d:
                continue
            bt = d['descendants']
            # the owned copy of an existing bucket: into_owned()/clone() of a `.descendants` field
            copies = [x for x in walk(bt) if x[0] == 'call' and x[1].endswith(('::into_owned', 'Clone::clone')) and x[2]
                      and any(y[0] == 'field' and y[2] == 'descendants' for y in walk(x[2][0]))
                      and not any(y[0] == 'call' and y[1].endswith(('BitOr::bitor', 'from_iter', 'from_sorted_iter')) for y in walk(x))]
            if not copies or any(y[0] == 'call' and y[1].endswith('BitOr::bitor') for y in walk(bt)):
                continue  # a brand-new or merged bucket (R-FRESH / capacity rules cover those)
            sites = [x[3] for x in copies]
            n += 1
            key = '%s/bucket-rewrite#%d' % (f.path, n)
            muts = []
            for x in f.calls():
                if x.args and x.bb not in sites and x.callee.endswith(('bitor_assign', 'sub_assign', 'bitand_assign', 'bitxor_assign', 'RoaringBitmap>::insert', 'RoaringBitmap>::remove',
                                                                  'RoaringBitmap>::push', 'RoaringBitmap>::clear', 'remove_smallest', 'remove_biggest', 'RoaringBitmap>::remove_range')):
                    if any(paths.mentions_call(x.arg_term(0), st) for st in sites):
                        muts.append((short(x.callee), strip(x.arg_term(1)) if len(x.args) > 1 else None, x))
            good = len(muts) == 1 and muts[0][1] is not None and muts[0][1][0] == 'arg' and 'RoaringBitmap' in f.local_ty(muts[0][1][1]) and (
                muts[0][0] in ('bitor_assign', 'sub_assign'))
            # stored back under the id it was read from
            same_id = False
            for g in [x for x in walk(bt) if x[0] == 'call' and x[1].endswith('::get') and x[2]]:
                last = g[2][-1]
                if same(last, c.arg_term(1)):
                    same_id = True
                ki = key_info(last)
                if ki and ki[2] is not None and same(ki[2], c.arg_term(1)):
                    same_id = True
            ctx.check(good and same_id, rule, key, c.loc(), 'old bucket %s, stored back under its own id' % ('%s %s' % (muts[0][0], show(muts[0][1])) if muts else '?'),
                      'in `%s` a bucket is rewritten from its old content by %s (expected exactly `|= to_insert` or `-= to_delete`, stored under the id it was read from: %s)' % (
                          f.path, [(m[0], show(m[1]) if m[1] else None) for m in muts], same_id))
    ctx.floor(rule, 'bucket rewrites', n, 2)


# --------------------------------------------------------------------------- R-MERGE / R-PARTITION
def r_merge(ctx, rule='R-MERGE'):
    """in the remover, the item set of a split (used for the merge decision, for the merged bucket and as the value
    returned to the parent) is the union of the survivors of BOTH children"""
    F = ctx.F
    n = 0
    for f in F.lib_fns():
        if not f.path.startswith('writer::'):
            continue
        rec = [c for c in f.calls() if c.callee == f.path]
        if not rec or not any(c.callee.endswith('sub_assign') for c in f.calls()):
            continue
        if not pairing.split_aggregates(f):
            continue
        tg = pairing.Tags(F, f, {})
        ors = [c for c in f.calls() if c.callee.endswith('BitOr::bitor') and len(c.args) == 2]
        unions = []
        for c in ors:
            ta, tb = tg.read_op(c.args[0]), tg.read_op(c.args[1])
            if {pairing.side_of(ta), pairing.side_of(tb)} == {'L', 'R'}:
                unions.append(c)
        n += 1
        ctx.check(len(unions) >= 1, rule, f.path + '/union', f.loc(), 'the survivors of the left and right child are united (|)',
                  'in `%s` the item set of a split is not the union of the survivors of its left and right child' % f.path)
        if not unions:
            continue
        u = unions[0]
        # every success return reached after the union returns it as the subtree's item set; merged buckets store it
        for b, k, t in paths.ret_assigns(f):
            if k != 'ok' or b not in f.reachable(u.target):
                continue
            tt = strip(dict(t[3])['0'])
            good = tt[0] == 'tuple' and len(tt[1]) == 2 and _is_exactly(tt[1][1], u.bb)
            ctx.check(good, rule, '%s/returns-union@L%d' % (f.path, paths.block_line(f, b)), '%s:%d' % (f.span['file'], paths.block_line(f, b)),
                      'the split arm returns the united item set to its parent',
                      'in `%s` a split returns to its parent an item set that is not the union of both children (line %d): the parent would merge or keep nodes on wrong counts and items are lost' % (f.path, paths.block_line(f, b)))
        for c in f.calls():
            if c.callee == 'parallel::TmpNodes::<DE>::put' and c.bb in f.reachable(u.target):
                d = paths.agg_fields(c.arg_term(2), 'node::Descendants')
                if d is not None:
                    ctx.check(_is_exactly(d['descendants'], u.bb), rule, '%s/merged-bucket' % f.path, c.loc(), 'the merged bucket holds the united item set',
                              'in `%s` the bucket that replaces a shrunk split does not hold the union of both children' % f.path)
    ctx.floor(rule, 'removers uniting two children', n, 1)


def _is_exactly(t, site):
    """t is the value produced at call site `site`, up to refs / clones / Cow wrappers (not a phi that merely contains it)"""
    t0 = strip(t)
    for _ in range(6):
        if t0[0] == 'agg' and t0[1].endswith('borrow::Cow') and t0[3]:
            t0 = strip(t0[3][0][1])
        elif t0[0] == 'call' and t0[2] and t0[1].endswith(('Clone::clone', '::into_owned', 'Deref::deref', 'ToOwned::to_owned')):
            t0 = strip(t0[2][0])
        else:
            break
    return t0[0] == 'call' and t0[3] == site


def r_partition(ctx, rule='R-PARTITION'):
    """when items are dispatched to the two sides of a plane, every item goes to exactly one side"""
    F = ctx.F
    n = 0
    for f in F.lib_fns():
        if not f.path.startswith('writer::'):
            continue
        tg = pairing.Tags(F, f, {})
        by_loop = {}
        for c, tag, cl in tg.seed_sites:
            nxt = [x for x in f.calls() if x.callee.endswith('Iterator::next') and paths.mentions_call(c.arg_term(1), x.bb)]
            if nxt:
                by_loop.setdefault(nxt[0].bb, (nxt[0], []))[1].append((c, tag))
        for hb, (nx, sites) in by_loop.items():
            n += 1
            tags = {t[0] for c, t in sites}
            ok_each = loop_every_iteration_any(f, nx, [c.bb for c, t in sites])
            twice = any(c2.bb in f.reachable(c1.target, avoid=[nx.bb]) for c1, t1 in sites for c2, t2 in sites if c1 is not c2)
            ctx.check(tags == {'L', 'R'} and ok_each and not twice, rule, '%s/dispatch@L%d' % (f.path, nx.span['line']), nx.loc(),
                      'every element is sent to exactly one of the two sides',
                      'in `%s` the dispatch of items to the two sides of a plane (line %d) can skip an item or send it to both sides' % (f.path, nx.span['line']))
    ctx.floor(rule, 'side-dispatch loops', n, 1)


def loop_every_iteration_any(fn, next_call, blocks):
    start = some_arm(fn, next_call)
    if start is None:
        return False
    goals = [next_call.bb] + [b for b, k, t in paths.ret_assigns(fn) if k in ('ok', 'call', 'other')]
    return paths.must_pass(fn, start, goals, blocks)


# --------------------------------------------------------------------------- R-STALE
STALE_ALLOWED = {
    "parallel::ImmutableLeafs::<'t, D>::new": 'the batch selector only receives live ids: the updated ids intersected with the live item scan, or bucket contents after the removal phase',
}


def r_stale(ctx, rule='R-STALE'):
    """no lookup of an item that may have been deleted turns absence into an error during a build"""
    F = ctx.F
    be = C06.build_entry(F)
    if not ctx.need(be is not None, rule, 'build entry'):
        return
    reach = F.reach([be])
    n = 0
    for g in reach.values():
        for (_g, c, op, w, k) in db_ops(F, [g]):
            if op != 'get' or k is None:
                continue
            kind = key_kind_at(g, c, k)
            if kind in ('tree', 'metadata', 'version', 'updated', 'not-item'):
                continue
            n += 1
            key = '%s/get-%s' % (owner_path(g), kind)
            why = STALE_ALLOWED.get(owner_path(g))
            # is absence fatal?  Some(..)/None handled softly when the Option is matched rather than unwrapped/ok_or'ed
            fatal = False
            for x in g.calls():
                if x.callee.endswith(('Option::<T>::unwrap', 'Option::<T>::expect', 'Option::<T>::ok_or', 'Option::<T>::ok_or_else')) and paths.mentions_call(x.arg_term(0), c.bb):
                    fatal = True
            if not fatal:
                ctx.ok(rule, key, c.loc(), 'absence of the item is handled without an error')
            elif why:
                ctx.ok(rule, key, c.loc(), 'allowed: ' + why)
            else:
                ctx.bad(rule, key, c.loc(), '`%s` looks up a key that may denote an already deleted item (kind %s) and turns its absence into an error/panic: deleting an item and rebuilding (e.g. with fewer trees) fails' % (g.path, kind))
    ctx.floor(rule, 'item lookups reachable from the build', n, 1)


# --------------------------------------------------------------------------- forest wipe / metadata roots
def r_forest_wipe(ctx, rule='R-FOREST-WIPE'):
    F = ctx.F
    be = C06.build_entry(F)
    if be is None:
        return
    reach = F.reach([be])
    found = 0
    for g in reach.values():
        drs = [(c, k) for (_g, c, op, w, k) in db_ops(F, [g]) if op == 'delete_range']
        for c, k in drs:
            fr = full_kind_range(c.arg_term(k))
            found += 1
            root_puts = []
            for (_g, x, op, w, kk) in db_ops(F, [g]):
                if op == 'put':
                    ki = key_info(x.arg_term(kk))
                    if ki and ki[0] == 'tree' and const_eval(ki[2]) == 0:
                        root_puts.append(x)
            good = fr is not None and fr[0] == 'tree' and bool(root_puts) and all(g.dominates(c.bb, x.bb) for x in root_puts)
            ctx.check(good, rule, g.path, c.loc(), 'the whole tree range of the index is deleted before root 0 is written',
                      'the single-bucket shortcut in `%s` does not wipe every tree node of the index before writing its only bucket (old nodes would be left behind)' % g.path)
            # roots = [0] iff a bucket was written
            pushes = [x for x in g.calls() if x.callee.endswith('Vec::<T, A>::push') and const_eval(x.arg_term(1)) == 0]
            goals = [b for b, k, t in paths.ret_assigns(g) if k in ('ok', 'call', 'other')]
            ok_push = bool(pushes) and all(g.dominates(rp.bb, p.bb) for p in pushes for rp in root_puts) and all(
                paths.must_pass(g, (paths.result_arms(g, rp).get('ok') or rp.target), goals, [p.bb for p in pushes]) for rp in root_puts)
            if not ok_push and root_puts:
                # the root list as a value chosen per path (`Ok(&[])` / `Ok(&[0])` returned by a helper): the alternative that
                # lists root 0 is defined only after the bucket was written, the empty one only where it was not
                for (_g2, mp, op2, w2, k2) in db_ops(F, [g]):
                    if op2 != 'put' or k2 is None:
                        continue
                    ki2 = key_info(mp.arg_term(k2))
                    if not ki2 or ki2[0] != 'metadata':
                        continue
                    dm = paths.agg_fields(mp.arg_term(3), 'metadata::Metadata')
                    if not dm:
                        continue
                    rt = dm['roots']
                    phis = [x for x in walk(rt) if x[0] == 'phi']
                    for ph in phis:
                        from reader_rules import phi_defs
                        defs = phi_defs(g, ph) or []
                        with0, empty, other = [], [], 0
                        for bdef, tdef in defs:
                            arrs = [x for x in walk(tdef) if x[0] == 'array']
                            if tdef[0] == 'call' and tdef[1].endswith('FromResidual::from_residual'):
                                continue
                            if arrs and len(arrs[0][1]) == 1 and const_eval(arrs[0][1][0]) == 0:
                                with0.append(bdef)
                            elif arrs and len(arrs[0][1]) == 0:
                                empty.append(bdef)
                            else:
                                other += 1
                        if with0 and empty and not other:
                            put_bbs = [rp.bb for rp in root_puts]
                            ok_push = all(paths.must_pass(g, 0, [b0], put_bbs) for b0 in with0) and \
                                all(not any(b0 in g.reachable(rp.target) for rp in root_puts) for b0 in empty)
            ctx.check(ok_push, rule, g.path + '/root-listed', c.loc(), 'root 0 is listed exactly when the bucket is written', 'the shortcut lists a root that was not written (or writes one it does not list)')
            # the bucket is written whenever there is at least one item: the only guard allowed on it is "items non-empty"
            for rp in root_puts:
                d = paths.agg_fields(rp.arg_term(3), 'node::Descendants')
                items_t = strip_all(d['descendants']) if d else None
                okg = True
                why = []
                for s0, x0, e in paths.controlling_conds(g, rp.bb):
                    if e[0] == 'disc':
                        # `?` continuations of earlier calls
                        continue
                    cnd = strip(e[1])
                    nonempty = False
                    if cnd[0] == 'call' and cnd[1].endswith('::is_empty') and not e[2]:
                        nonempty = True
                    elif cnd[0] == 'unop' and cnd[1] == 'Not' and strip(cnd[2])[0] == 'call' and strip(cnd[2])[1].endswith('::is_empty') and e[2]:
                        nonempty = True
                    elif cnd[0] == 'binop' and strip(cnd[2])[0] == 'call' and strip(cnd[2])[1].endswith('::len') and const_eval(cnd[3]) == 0 and (cnd[1], e[2]) in (('Gt', True), ('Ne', True), ('Eq', False), ('Le', False)):
                        nonempty = True
                    elif cnd[0] == 'binop' and strip(cnd[2])[0] == 'call' and strip(cnd[2])[1].endswith('::len') and const_eval(cnd[3]) == 1 and (cnd[1], e[2]) in (('Ge', True), ('Lt', False)):
                        nonempty = True
                    if not nonempty:
                        okg = False
                        why.append(show(cnd)[:60])
                ctx.check(okg, rule, g.path + '/bucket-when-nonempty', rp.loc(), 'the only bucket is written whenever the item set is non-empty',
                          'the single-bucket shortcut in `%s` skips its bucket under a condition other than "no items" (%s): live items would be in no tree' % (g.path, why))
    ctx.floor(rule, 'single-bucket shortcuts', found, 1)


def r_meta_roots(ctx, rule='R-META-ROOTS'):
    """the published roots are the roots vector that went through tree deletion, item removal and missing-tree creation"""
    F = ctx.F
    be = C06.build_entry(F)
    if be is None:
        return
    puts = []
    for (_g, c, op, w, k) in db_ops(F, [be]):
        if op == 'put' and k is not None:
            ki = key_info(c.arg_term(k))
            if ki and ki[0] == 'metadata':
                puts.append(c)
    if not ctx.need(len(puts) == 1, rule, 'metadata put of the full build path'):
        return
    c = puts[0]
    d = paths.agg_fields(c.arg_term(3), 'metadata::Metadata')
    site = None
    if d:
        for s in walk(strip(d['roots'])):
            if s[0] == 'call' and be.call_at(s[3]) is not None and 'Vec<u32>' in be.local_ty(be.call_at(s[3]).dest['l']) and site is None:
                site = s[3]
    if not ctx.need(site is not None, rule, 'roots vector feeding Metadata.roots', c.loc()):
        return
    # the same vector is handed (&mut) to the tree deleter and the remover and receives the new roots
    handed = []
    pushed = False
    for x in be.calls():
        if x.bb == site:
            continue
        for i, a in enumerate(x.args):
            t = x.arg_term(i)
            if not paths.mentions_call(t, site):
                continue
            if x.callee.endswith('Vec::<T, A>::push') and i == 0:
                nx = [s for s in walk(x.arg_term(1)) if s[0] == 'call' and s[1].endswith('ConcurrentNodeIds::next')]
                pushed = pushed or bool(nx)
            elif x.callee.endswith(('Extend::extend', 'Vec::<T, A>::append', 'Vec::<T, A>::extend_from_slice')) and i == 0 and len(x.args) > 1:
                # the new roots collected first (`(..).map(|_| { let id = ids.next()?; put(..); Ok(id) }).collect()`) and appended
                for y in walk(x.arg_term(1)):
                    if y[0] == 'closure' and F.fn(y[1]) is not None:
                        gcl = F.fn(y[1])
                        if any(z.callee.endswith('ConcurrentNodeIds::next') for z in gcl.calls()) and any(
                                k2 == 'ok' and paths.mentions_call(t2, [z.bb for z in gcl.calls() if z.callee.endswith('ConcurrentNodeIds::next')][0])
                                for b2, k2, t2 in paths.ret_assigns(gcl)):
                            pushed = True
            elif x.callee.startswith('writer::'):
                handed.append(short(x.callee))
    ctx.check(len(set(handed)) >= 3 and pushed, rule, be.path, c.loc(), 'roots threaded through %s and extended with the new roots' % sorted(set(handed)),
              'the roots published in the metadata of `%s` are not the vector updated by the tree deletion / item removal / insertion steps and extended with the newly created roots (%s, new roots pushed: %s)' % (be.path, sorted(set(handed)), pushed))
    # every root is replaced by the result of its removal pass
    def over_roots(g, x):
        # `roots.iter_mut()` on the `&mut [u32]` / `&mut Vec<u32>` of root ids (not any array walked mutably)
        a0 = x.args[0] if x.args else None
        if a0 is None or a0.get('k') not in ('copy', 'move'):
            return False
        ty = g.local_ty(a0['place']['l'])
        return 'u32' in ty and 'NodeId' not in ty and 'RoaringBitmap' not in ty
    rm = [g for g in F.reach([be]).values() if any(x.callee.endswith('::iter_mut') and over_roots(g, x) for x in g.calls()) and g.path.startswith('writer::')]
    # whichever way the per-root loop is spelled: while it runs, the root list is only updated in place -- sorting, swapping,
    # removing or inserting inside the loop shifts the slots under the loop's feet and a tree is visited twice or skipped
    for g in F.reach([be]).values():
        if not g.path.startswith('writer::'):
            continue
        roots_params = [l for l in g.arg_locals() if 'Vec<u32>' in g.local_ty(l) or g.local_ty(l).replace(' ', '') in ('&mut[u32]',)]
        walkers = [x for x in g.calls() if x.callee.startswith('writer::') and x.callee != g.path and F.fn(x.callee) is not None
                   and any(y.callee == x.callee for y in F.fn(x.callee).calls()) and g.in_cycle(x.bb)]
        if not roots_params or not walkers:
            continue
        lp = set()
        for w in walkers:
            for h in g.dominators().get(w.bb, ()):
                nl = paths.natural_loop(g, h)
                if w.bb in nl:
                    lp |= set(nl)
        movers = [x for x in g.calls() if x.bb in lp and x.args and x.callee.endswith(('::sort_unstable', '::sort', '::sort_by', '::sort_by_key', '::sort_unstable_by', '::sort_unstable_by_key',
                                                                                         '::swap', '::swap_remove', 'Vec::<T, A>::remove', 'Vec::<T, A>::insert', '::reverse', '::retain',
                                                                                         '::dedup', '::rotate_left', '::rotate_right', '::truncate', 'Vec::<T, A>::push', 'Vec::<T, A>::pop'))
                  and root(x.arg_term(0))[0] == 'arg' and root(x.arg_term(0))[1] in roots_params]
        # (a loop that *consumes* the list -- `let root = roots.swap_remove(0); delete_tree(root)` -- walks what it removed)
        movers = [x for x in movers if not any(paths.mentions_call(w.arg_term(i), x.bb) for w in walkers for i in range(len(w.args)))]
        ctx.check(not movers, rule, '%s/roots-stable-while-walked' % g.path, movers[0].loc() if movers else g.loc(), 'the root list is only updated in place while its trees are walked',
                  'in `%s` the root list is reordered (%s) inside the loop that walks its trees: a tree can be skipped or visited twice, and the skipped one keeps what should have been removed' % (g.path, sorted({short(x.callee) for x in movers})))
    for g in rm:
        stores = []
        for bi, blk in enumerate(g.blocks):
            for st in blk['stmts']:
                p = st['place']
                if p['p'] and all(e['k'] == 'deref' for e in p['p']) and 'u32' in g.local_ty(p['l']) and st['rv']['k'] == 'use':
                    stores.append((bi, g.term(st['rv']['o'])))
        nxt = [x for x in g.calls() if x.callee.endswith('Iterator::next') and any(s[0] == 'call' and s[1].endswith('::iter_mut') for s in walk(x.arg_term(0)))]
        good = bool(stores) and bool(nxt) and any(loop_every_iteration(g, nxt[0], bi) for bi, t in stores) and any(
            any(s[0] == 'call' and s[1].startswith('writer::') for s in walk(t)) for bi, t in stores)
        ctx.check(good, rule, g.path + '/root-replaced', g.loc(), 'every root is replaced by the id returned by its removal pass',
                  'in `%s` a root is not replaced by the id its removal pass returned (a tree whose root was merged away would be lost or dangling)' % g.path)


# --------------------------------------------------------------------------- TmpNodes application
def r_tmp_apply(ctx, rule='R-TMP-APPLY'):
    """every TmpNodesReader produced in the writer has its inserts (and deletes) applied to the database"""
    F = ctx.F
    n = 0
    for f in F.lib_fns():
        if not f.path.startswith('writer::'):
            continue
        ins = [c for c in f.calls() if c.callee == 'parallel::TmpNodesReader::to_insert']
        dels = [c for c in f.calls() if c.callee == 'parallel::TmpNodesReader::to_delete']
        if not ins and not dels:
            continue
        n += 1
        puts = [(c, k) for (_g, c, op, w, k) in db_ops(F, [f]) if op == 'put' and k is not None and (key_info(c.arg_term(k)) or (None,))[0] == 'tree']
        dls = [(c, k) for (_g, c, op, w, k) in db_ops(F, [f]) if op == 'delete' and k is not None and (key_info(c.arg_term(k)) or (None,))[0] == 'tree']
        ok_i = False
        for ic in ins:
            nx = [x for x in f.calls() if x.callee.endswith('Iterator::next') and paths.mentions_call(x.arg_term(0), ic.bb)]
            for x in nx:
                for p, k in puts:
                    if paths.mentions_call(p.arg_term(k), x.bb) and paths.mentions_call(p.arg_term(3), x.bb) and loop_every_iteration(f, x, p.bb):
                        ok_i = True
        ctx.check(ok_i or not ins, rule, f.path + '/inserts', f.loc(), 'every (id, bytes) of to_insert() is put under Key::tree(self.index, id)',
                  'in `%s` some node of a TmpNodesReader::to_insert() is not written under Key::tree(self.index, id)' % f.path)
        if not dels and ins:
            # allowed only when nothing that fills this TmpNodes can remove nodes
            removers = []
            for fam in F.family(f):
                for c in fam.calls():
                    if c.callee.startswith('writer::') and any('TmpNodes' in fam.local_ty(a['place']['l']) for a in c.args if a.get('k') in ('copy', 'move')):
                        for g in F.resolve_call(c):
                            for h in F.reach([g]).values():
                                if any(x.callee == 'parallel::TmpNodes::<DE>::remove' for x in h.calls()):
                                    removers.append(h.path)
            ctx.check(not removers, rule, f.path + '/deletes', f.loc(), 'no producer of this TmpNodes removes nodes: nothing to delete',
                      'in `%s` the removals recorded by %s are never applied to the database: merged-away or emptied tree nodes stay behind unreferenced' % (f.path, sorted(set(removers))[:2]))
        if dels:
            ok_d = False
            for dc in dels:
                nx = [x for x in f.calls() if x.callee.endswith('Iterator::next') and paths.mentions_call(x.arg_term(0), dc.bb)]
                for x in nx:
                    for p, k in dls:
                        if paths.mentions_call(p.arg_term(k), x.bb) and loop_every_iteration(f, x, p.bb):
                            ok_d = True
            ctx.check(ok_d, rule, f.path + '/deletes', f.loc(), 'every id of to_delete() is deleted under Key::tree(self.index, id)',
                      'in `%s` some id of a TmpNodesReader::to_delete() is not deleted from the database' % f.path)
    ctx.floor(rule, 'functions applying a TmpNodesReader', n, 3)
    # pending node updates are written back before the trees are read again: a batch loop that snapshots the tree nodes
    # (ImmutableTrees) at the top of every round must have applied the previous round's TmpNodesReader first, otherwise
    # the next round works on stale nodes and overwrites the previous round's update of the same node
    for f in F.lib_fns():
        if not f.path.startswith('writer::'):
            continue
        prods = []
        for c in f.calls():
            g = F.fn(c.callee)
            if (g is not None and 'TmpNodesReader' in g.ret_ty()) or c.callee == 'parallel::TmpNodes::<DE>::into_bytes_reader':
                prods.append(c)
        snaps = [c for c in f.calls() if c.callee.startswith('parallel::ImmutableTrees') and c.callee.endswith(('::new', '::sub_tree_from_id'))]
        for pc in prods:
            later = [sc for sc in snaps if sc.bb in f.reachable(pc.target)]
            if not later:
                continue
            entries = [c.bb for c in f.calls() if c.bb != pc.bb and c.args and paths.mentions_call(c.arg_term(0), pc.bb) and
                       (c.callee.endswith(('::iter', 'IntoIterator::into_iter', 'TmpNodesReader::to_insert')))
                       and any(x.callee == 'parallel::TmpNodesReader::to_insert' and (x.bb == c.bb or x.bb in f.reachable(c.target)) for x in f.calls())]
            good = bool(entries) and paths.must_pass(f, pc.target, [sc.bb for sc in later], entries)
            ctx.check(good, rule, f.path + '/applied-before-next-round', pc.loc(), 'the nodes produced by a round are written back before the next round snapshots the trees',
                      'in `%s` the tree nodes are read again (%s) before the nodes produced by `%s` have been written back: the next round works on stale nodes and its write-back overwrites the previous round\'s changes (items vanish from trees)' % (
                          f.path, short(later[0].callee), short(pc.callee)))
    # every into_bytes_reader in the writer is followed by to_insert
    for f in F.lib_fns():
        if not f.path.startswith('writer::'):
            continue
        for fam in F.family(f):
            for c in fam.calls():
                if c.callee == 'parallel::TmpNodes::<DE>::into_bytes_reader':
                    used_here = any(x.callee == 'parallel::TmpNodesReader::to_insert' and paths.mentions_call(x.arg_term(0), c.bb) for x in fam.calls())
                    returned = any(paths.mentions_call(t, c.bb) for b, k, t in paths.ret_assigns(fam))
                    ctx.check(used_here or returned, rule, '%s/reader-used' % fam.path, c.loc(), 'the reader is applied here or returned to the caller that applies it',
                              'a TmpNodesReader built in `%s` is neither applied nor returned: its nodes never reach the database' % fam.path)
    # TmpNodesReader::to_insert skips deleted ids and applies the remap
    ti = F.one('parallel::TmpNodesReader::to_insert')
    if ctx.need(ti is not None, rule, 'TmpNodesReader::to_insert'):
        clos = F.closures_of(ti)
        filt = any(any(c.callee.endswith('RoaringBitmap>::contains') and 'deleted' in show(c.arg_term(0)) for c in g.calls()) for g in clos)
        rem = any(any(c.callee.endswith('::get') and 'remap_ids' in show(c.arg_term(0)) for c in g.calls()) for g in clos)
        ctx.check(filt and rem, rule, 'to_insert/filter+remap', ti.loc(), 'skips removed ids and applies remap_ids', 'TmpNodesReader::to_insert no longer skips removed ids / applies the id remapping')


# --------------------------------------------------------------------------- batch selector (C14 P1-P4)
def _selection_struct(F, rt):
    """name of a struct (named in the return type) that pairs an ImmutableLeafs with a RoaringBitmap, else None"""
    for name, a in F.adts.items():
        if a.get('kind') == 'Struct' and name.startswith(('parallel::', 'writer::')) and (name + '<') in rt:
            tys = [fd['ty'] for v in a.get('variants', []) for fd in v.get('fields', [])]
            if any('ImmutableLeafs<' in t for t in tys) and any('RoaringBitmap' in t for t in tys):
                return name
    return None


def selector(F):
    """the batch selector: the function handing back the frozen leafs of a batch together with the ids selected for it --
    as a tuple or as a named struct"""
    out = []
    for f in F.lib_fns():
        rt = f.ret_ty()
        if not rt.startswith('std::result::Result<'):
            continue
        if 'ImmutableLeafs<' in rt and 'RoaringBitmap' in rt and rt.startswith('std::result::Result<('):
            out.append(f)
        elif _selection_struct(F, rt) is not None and any(f.local_ty(l).startswith('&mut roaring') for l in f.arg_locals()):
            out.append(f)
    return out


def is_selected_ids(F, f, t, names):
    """is term t the "selected ids" half of a batch selector's result: `.1` of the tuple, or the RoaringBitmap field of the
    selection struct"""
    t = strip(t)
    if t[0] != 'field':
        return False
    calls = [x for x in walk(t) if x[0] == 'call' and x[1] in names]
    if not calls:
        return False
    g = F.fn(calls[0][1])
    st = _selection_struct(F, g.ret_ty()) if g is not None else None
    if st is None:
        return t[2] == '1'
    for v in F.adts[st].get('variants', []):
        for fd in v.get('fields', []):
            if fd['name'] == t[2]:
                return 'RoaringBitmap' in fd['ty']
    return False


def r_selector(ctx, rule='P-SELECT'):
    F = ctx.F
    sels = selector(F)
    if not ctx.need(len(sels) >= 1, rule, 'batch selector (function returning (ImmutableLeafs, RoaringBitmap))'):
        return
    for f in sels:
        cand = None
        for l in f.arg_locals():
            if f.local_ty(l).startswith('&mut roaring'):
                cand = l
        drv = [c for c in f.calls() if c.callee.endswith(('RoaringBitmap>::select', 'RoaringBitmap>::min', 'Iterator::next')) and c.args and root(c.arg_term(0))[0] == 'arg' and root(c.arg_term(0))[1] == cand]
        if not ctx.need(cand is not None and len(drv) == 1, rule, 'loop driver on the candidates bitmap in ' + f.path):
            continue
        sel = drv[0]
        loop = paths.natural_loop(f, sel.bb)
        body = some_arm(f, sel)
        if not ctx.need(bool(loop) and body is not None, rule, 'selection loop in ' + f.path):
            continue
        idt = None
        # P1 exits
        exits = [(b, s) for b in loop for s in f.succ(b) if s not in loop]
        brk = []
        n = 0
        for b, s in sorted(exits):
            n += 1
            e = paths.edge_cond(f, b, s)
            kind = None
            if e and e[0] == 'disc' and paths.mentions_call(e[1], sel.bb) and b == paths.switch_at(f, b) and False:
                kind = 'exhausted'
            if e and e[0] == 'disc' and e[1][0] == 'discr' and strip(e[1][1])[0] == 'call' and strip(e[1][1])[3] == sel.bb:
                kind = 'exhausted'
            reach = f.reachable(s)
            goods = [rb for rb, k, t in paths.ret_assigns(f) if k in ('ok', 'call', 'other') and rb in reach]
            if kind is None and not goods:
                kind = 'error'
            if kind is None and e and e[0] == 'bool':
                kind = 'break'
                brk.append((b, s, e))
            ctx.check(kind is not None, rule, '%s/exit#%d' % (f.path, n), '%s:%d' % (f.span['file'], paths.block_line(f, b)), 'loop exit: %s' % kind,
                      'the selection loop of `%s` has an unexpected exit at line %d' % (f.path, paths.block_line(f, b)))
        # P2 progress: the budget break requires at least K >= 1 already selected
        for b, s, e in brk:
            conds = [e] + [ee for ss, xx, ee in paths.controlling_conds(f, b) if paths.edge_dominates(f, ss, xx, b) and ss in loop]
            prog = False
            for ee in conds:
                c0 = strip(ee[1]) if ee[0] == 'bool' else None
                if c0 and c0[0] == 'binop' and c0[1] in ('Ge', 'Gt') and ee[2]:
                    kk = const_eval(c0[3])
                    a = strip(c0[2])
                    if kk is not None and ((c0[1] == 'Ge' and kk >= 1) or (c0[1] == 'Gt' and kk >= 0)) and a[0] == 'call' and a[1].endswith('::len'):
                        rr = root(a[2][0])
                        if rr[0] in ('var', 'phi', 'call') and 'pages' not in show(a[2][0]):
                            prog = True
            ctx.check(prog, rule, f.path + '/progress', '%s:%d' % (f.span['file'], paths.block_line(f, b)), 'the budget break needs >= K (constant >= 1) items already selected',
                      'the selection loop of `%s` can stop on the memory budget before selecting anything: with a small memory hint a non-empty batch makes no progress (the build would loop forever or drop items)' % f.path)
        # P3 conservation on the continue path / nothing consumed on the break path
        sel_pay = None
        pushes = [c for c in f.calls() if c.bb in loop and c.callee.endswith(('RoaringBitmap>::push', 'RoaringBitmap>::insert')) and paths.mentions_call(c.arg_term(1), sel.bb)]
        maps = [c for c in f.calls() if c.bb in loop and c.callee.endswith('HashMap::<K, V, S, A>::insert') and paths.mentions_call(c.arg_term(1), sel.bb)]
        if not maps:
            maps = [c for c in f.calls() if c.bb in loop and c.callee.endswith('::insert') and len(c.args) == 3 and paths.mentions_call(c.arg_term(1), sel.bb)]
        rems = [c for c in f.calls() if c.bb in loop and c.callee.endswith(('RoaringBitmap>::remove_smallest', 'RoaringBitmap>::remove')) and root(c.arg_term(0))[0] == 'arg' and root(c.arg_term(0))[1] == cand]
        header = [sel.bb]
        allthree = bool(pushes) and bool(maps) and bool(rems)
        cons = allthree and all(paths.must_pass(f, body, header, [c.bb]) for c in (pushes[0], maps[0], rems[0]))
        if rems and rems[0].callee.endswith('remove_smallest'):
            # the smallest element is the one examined: `select(0)` or `min()`
            cons = cons and const_eval(rems[0].arg_term(1)) == 1 and (
                (sel.callee.endswith('select') and const_eval(sel.arg_term(1)) == 0) or sel.callee.endswith('RoaringBitmap>::min'))
        elif rems:
            cons = cons and paths.mentions_call(rems[0].arg_term(1), sel.bb)
        ctx.check(cons, rule, f.path + '/conservation', sel.loc(), 'a selected id is pushed to the batch, mapped to its leaf and removed from the candidates (same id)',
                  'in `%s` an examined id is not moved as a whole: it must be added to the selected set, inserted in the leaf map and removed from the candidates together (found push=%d map=%d remove=%d)' % (f.path, len(pushes), len(maps), len(rems)))
        leak = False
        for b, s, e in brk:
            for m in rems + pushes + maps:
                # can the break edge be taken after this mutation within the same iteration?
                r = f.reachable(m.target, avoid=header)
                if b in r:
                    leak = True
        ctx.check(not leak, rule, f.path + '/break-consumes-nothing', sel.loc(), 'the id under examination when the budget break fires stays in the candidates',
                  'in `%s` the id under examination when the memory-budget break fires has already been removed from the candidates (or partly recorded): it is dropped from this batch and from the remaining work' % f.path)
        # P4 the returned pair
        okr = False
        for b, k, t in paths.ret_assigns(f):
            if k == 'ok':
                tt = strip(dict(t[3])['0'])
                parts = None
                if tt[0] == 'tuple' and len(tt[1]) == 2:
                    parts = (tt[1][0], tt[1][1])
                elif tt[0] == 'agg' and _selection_struct(F, f.ret_ty()) is not None and len(tt[3]) == 2:
                    # the named pair: the field holding the ImmutableLeafs and the field holding the bitmap
                    lf = [v for n2, v in tt[3] if paths.agg_fields(v, 'ImmutableLeafs') is not None]
                    ot = [v for n2, v in tt[3] if paths.agg_fields(v, 'ImmutableLeafs') is None]
                    if len(lf) == 1 and len(ot) == 1:
                        parts = (lf[0], ot[0])
                if parts is not None:
                    a = paths.agg_fields(parts[0], 'ImmutableLeafs')
                    okr = a is not None and maps and same(a['leafs'], maps[0].arg_term(0)) and pushes and strip_all(parts[1]) == strip_all(pushes[0].arg_term(0))
        ctx.check(okr, rule, f.path + '/returns', f.loc(), 'returns (the leaf map, the selected set)', '`%s` does not return the leaf map together with the set of ids it selected' % f.path)


# --------------------------------------------------------------------------- worklist / remainder (C14 Q1-Q2, C15)
def worklist_drivers(f, selector_names):
    """calls that pick the next over-full bucket id from a worklist bitmap (`select(0)` / `min()`) in a function that
    also runs the batch selector"""
    if not any(x.callee in selector_names for x in f.calls()):
        return []
    out = []
    for c in f.calls():
        if c.args and root(c.arg_term(0))[0] in ('arg', 'var', 'phi'):
            if (c.callee.endswith('RoaringBitmap>::select') and const_eval(c.arg_term(1)) == 0) or c.callee.endswith('RoaringBitmap>::min'):
                r = root(c.arg_term(0))
                if r[0] == 'arg' and f.local_ty(r[1]).startswith('&'):
                    continue
                if any(c.bb in paths.natural_loop(f, h) for h in f.dominators().get(c.bb, ())):
                    out.append(c)
    return out


def r_worklist(ctx, rule='Q-WORKLIST'):
    F = ctx.F
    sels = selector(F)
    names = [s.path for s in sels]
    n = 0
    for f in F.lib_fns():
        if not f.path.startswith('writer::'):
            continue
        for c in f.calls():
            if c.callee not in names:
                continue
            n += 1
            key = '%s/batch#%d' % (f.path, n)
            candt = root(c.arg_term(3))
            # the selected half is what gets routed; the remainder stays for the next round
            sel_uses = []
            for x in f.calls():
                if x.callee.startswith('writer::') and x.bb != c.bb:
                    for i in range(len(x.args)):
                        t = strip(x.arg_term(i))
                        if is_selected_ids(F, f, t, names) and paths.mentions_call(t, c.bb):
                            sel_uses.append((x, i))
            ctx.check(bool(sel_uses), rule, key + '/selected-routed', c.loc(), 'the selected half of the batch is routed into the trees (%s)' % [short(x.callee) for x, i in sel_uses],
                      'in `%s` the ids selected by the batch selector are not handed to the tree update' % f.path)
            # loop on the same bitmap or remainder passed on
            lp = [h for h in f.dominators().get(c.bb, ()) if c.bb in paths.natural_loop(f, h)]
            loops_on_cand = False
            for s0, x0, e in paths.controlling_conds(f, c.bb):
                if e[0] == 'bool':
                    cc = strip(e[1])
                    if cc[0] == 'call' and cc[1].endswith('RoaringBitmap>::is_empty') and root(cc[2][0]) == candt and not e[2]:
                        loops_on_cand = bool(lp)
            remainder_passed = []
            for x in f.calls():
                if x.callee.startswith('writer::') and x.bb != c.bb and x.bb in f.reachable(c.target):
                    for i in range(len(x.args)):
                        if root(x.arg_term(i)) == candt and candt[0] in ('var', 'phi'):
                            remainder_passed.append((x, i))
                        elif candt[0] == 'call' and root(x.arg_term(i))[0] == 'call' and root(x.arg_term(i))[3] == candt[3]:
                            remainder_passed.append((x, i))
            if not loops_on_cand and remainder_passed:
                # ... on every path to the next round / the successful end, unless the remainder is known to be empty
                hdrs = [h for h in f.dominators().get(c.bb, ()) if c.bb in paths.natural_loop(f, h)]
                goals_r = [b for b, k, t in paths.ret_assigns(f) if k in ('ok', 'call', 'other')] + hdrs
                empties = []
                for b0 in f.live_blocks():
                    if paths.switch_at(f, b0) is None:
                        continue
                    for x0 in f.succ(b0):
                        e0 = paths.edge_cond(f, b0, x0)
                        if e0 and e0[0] == 'bool':
                            cc0 = strip(e0[1])
                            neg0 = False
                            while cc0[0] == 'unop' and cc0[1] == 'Not':
                                cc0 = strip(cc0[2])
                                neg0 = not neg0
                            if cc0[0] == 'call' and cc0[1].endswith('RoaringBitmap>::is_empty') and cc0[2]:
                                r0 = root(cc0[2][0])
                                if (r0 == candt or (r0[0] == 'call' and candt[0] == 'call' and r0[3] == candt[3])) and (e0[2] != neg0):
                                    empties.append(x0)
                if not paths.must_pass(f, c.target, goals_r, [x.bb for x, i in remainder_passed] + empties):
                    remainder_passed = []
            ctx.check(loops_on_cand or bool(remainder_passed), rule, key + '/remainder', c.loc(),
                      'the unselected remainder is %s' % ('re-examined by the enclosing `while !is_empty()` loop' if loops_on_cand else 'passed to %s' % [short(x.callee) for x, i in remainder_passed]),
                      'in `%s` the ids left in the candidates after a batch are neither looped over nor passed on: they would never be inserted' % f.path)
    ctx.floor(rule, 'batch selections in the writer', n, 2)
    # the over-full worklist loop: one id per iteration, results OR-ed back
    for f in F.lib_fns():
        if not f.path.startswith('writer::'):
            continue
        drv = worklist_drivers(f, names)
        for sel in drv:
            wl = root(sel.arg_term(0))
            rems = [c for c in f.calls() if len(c.args) >= 2 and root(c.arg_term(0)) == wl and (
                (c.callee.endswith('RoaringBitmap>::remove_smallest') and const_eval(c.arg_term(1)) == 1 and sel.callee.endswith(('select', '::min'))) or
                (c.callee.endswith('RoaringBitmap>::remove') and paths.mentions_call(c.arg_term(1), sel.bb)))]
            good = bool(rems) and loop_every_iteration(f, sel, rems[0].bb)
            if good:
                # the id removed is the id examined: nothing is added to the worklist between select(0) and remove_smallest(1)
                others = [c for c in f.calls() if c.bb != rems[0].bb and c.args and root(c.arg_term(0)) == wl and c.callee.endswith(
                    ('bitor_assign', 'RoaringBitmap>::insert', 'RoaringBitmap>::push', 'RoaringBitmap>::extend', 'bitxor_assign', 'RoaringBitmap>::append', 'sub_assign',
                     'RoaringBitmap>::remove', 'remove_biggest', 'RoaringBitmap>::clear'))]
                good = all(paths.must_pass(f, sel.target, [c.bb], [rems[0].bb]) for c in others)
            ctx.check(good, rule, f.path + '/pop-one', sel.loc(), 'the worklist loop removes exactly the id it examines', 'the over-full bucket worklist of `%s` does not remove the id it examines (or removes more): a bucket would be skipped or processed forever' % f.path)
            # set-union forms: `wl |= x`, `wl.extend(x)` (Extend<u32> inserts every element)
            ors = [c for c in f.calls() if len(c.args) == 2 and root(c.arg_term(0)) == wl and
                   (c.callee.endswith('bitor_assign') or c.callee.endswith('Extend::extend'))]
            okor = bool(ors) and any(any(s[0] == 'call' and s[1].startswith('writer::') for s in walk(c.arg_term(1))) for c in ors)
            ctx.check(okor, rule, f.path + '/requeue', sel.loc(), 'buckets reported over-full by the remainder insertion are OR-ed back into the worklist',
                      'in `%s` buckets that became over-full while inserting the remainder are not put back on the worklist (they would stay above the capacity)' % f.path)
            # the node fetched is the examined id; the rebuilt subtree is remapped onto it
            rmp = [c for c in f.calls() if c.callee == 'parallel::TmpNodes::<DE>::remap']
            def is_popped(e):
                t = strip(e)
                while t[0] in ('field', 'downcast', 'cast', 'ref', 'deref'):
                    t = strip(t[2] if t[0] == 'cast' else t[1])
                return t[0] == 'call' and t[3] == sel.bb
            okm = bool(rmp) and is_popped(rmp[0].arg_term(2)) and not is_popped(rmp[0].arg_term(1))
            ctx.check(okm, rule, f.path + '/remap-onto-bucket', sel.loc(), 'the new subtree root is remapped onto the examined bucket id', 'the subtree built for an over-full bucket is not stored under that bucket\'s id: the parent would keep pointing to the old bucket')
            # the remainder is re-inserted below the id the subtree was stored under (the examined bucket id), not below the
            # temporary root id the remap replaced (never stored)
            for x in f.calls():
                if not (x.callee.startswith('writer::') and x.bb in f.reachable(sel.target)):
                    continue
                g = F.fn(x.callee)
                if g is None:
                    continue
                for i in range(1, g.arg_count + 1):
                    ty = g.local_ty(i)
                    if ty.replace(' ', '') in ('&[u32]', "&'_[u32]") or (ty.startswith('&') and ty.endswith('[u32]')):
                        if i - 1 >= len(x.args):
                            continue
                        at = x.arg_term(i - 1)
                        elems = [e for sx in walk(at) if sx[0] == 'array' for e in sx[1]]
                        if not elems:
                            continue
                        okr = all(is_popped(e) for e in elems)
                        ctx.check(okr, rule, f.path + '/remainder-root', x.loc(), 'the remainder is inserted below the examined bucket id (where the new subtree was stored)',
                                  'in `%s` the items that did not fit in the batch are re-inserted below an id other than the examined bucket\'s (the subtree was stored under the bucket id; the temporary root id is never written)' % f.path)


# --------------------------------------------------------------------------- worklist progress (C14)
def r_progress(ctx, rule='Q-PROGRESS'):
    """re-splitting an over-full bucket from a *partial* batch must not hand back a single bucket: the remainder would be
    re-inserted into it, recreating the same over-full bucket, and the worklist would never drain"""
    F = ctx.F
    names = [s.path for s in selector(F)]
    tcs = [f for f in F.lib_fns() if any(c.callee.endswith('Distance::create_split') for c in f.calls()) and f.path.startswith('writer::')]
    if not ctx.need(len(tcs) >= 1, rule, 'tree constructor (function calling D::create_split)'):
        return
    n = 0
    for T in tcs:
        # bucket-return sites: a Descendants node made of the constructor's whole input
        item_param = None
        for l in T.arg_locals():
            if 'RoaringBitmap' in T.local_ty(l):
                item_param = l
        site_guards = []  # per bucket-return site: [(param local, truth required on the bucket path)]
        bucket_sites = []
        for c in T.calls():
            if c.callee == 'parallel::TmpNodes::<DE>::put':
                d = paths.agg_fields(c.arg_term(2), 'node::Descendants')
                if d and any(x[0] == 'arg' and x[1] == item_param for x in walk(d['descendants'])):
                    bucket_sites.append(c)
                    gs = []
                    for s0, x0, e in paths.controlling_conds(T, c.bb):
                        if e[0] == 'bool' and paths.edge_dominates(T, s0, x0, c.bb):
                            t0 = strip(e[1])
                            if t0[0] == 'arg' and T.local_ty(t0[1]) == 'bool':
                                gs.append((t0[1], e[2]))
                            # the same switch spelled as a two-valued private enum: `policy == Policy::Variant`
                            if t0[0] == 'binop' and t0[1] in ('Eq', 'Ne'):
                                sides = [strip(t0[2]), strip(t0[3])]
                                sides = [strip(x[1]) if x[0] == 'discr' else x for x in sides]
                                par = [x for x in sides if x[0] == 'arg']
                                var = [x for x in sides if x[0] == 'agg' and not x[3]]
                                if len(par) == 1 and len(var) == 1:
                                    gs.append((par[0][1], ('enum', var[0][2], (t0[1] == 'Eq') == e[2])))
                        if e[0] == 'disc' and paths.edge_dominates(T, s0, x0, c.bb) and strip(e[1])[0] == 'discr' and strip(strip(e[1])[1])[0] == 'arg':
                            pl0 = strip(strip(e[1])[1])[1]
                            a0 = F.adts.get(T.local_ty(pl0).split('<')[0])
                            if a0 and a0.get('kind') == 'Enum' and len(e[2]) == 1 and len(a0.get('variants', [])) == 2:
                                names0 = {int(v['discr']) if v.get('discr') is not None else i: v['name'] for i, v in enumerate(a0['variants'])}
                                if e[2][0] in names0:
                                    gs.append((pl0, ('enum', names0[e[2][0]], True)))
                    site_guards.append((c, gs))
        # the constructor's own recursive calls work on strict subsets that may be tiny or empty: they must re-enable the
        # bucket shortcut (pass the constant that allows it), otherwise a forced split recurses into sets no plane can divide
        guard_params = {}
        for bc, gs in site_guards:
            for pl, need in gs:
                guard_params.setdefault(pl, need)
        for c in T.calls():
            if c.callee == T.path:
                for pl, need in guard_params.items():
                    v = const_eval(c.arg_term(pl - 1))
                    if isinstance(need, tuple):
                        av = strip(c.arg_term(pl - 1))
                        okv = av[0] == 'agg' and not av[3] and ((av[2] == need[1]) == need[2])
                        ctx.check(okv, rule, '%s/recursive-call@%s' % (short(T.path), c.loc().split(':')[-2] if ':' in c.loc() else c.bb), c.loc(),
                                  'the recursion lets a fitting subset become one bucket',
                                  'a recursive call of `%s` keeps forcing a split (%s is not the variant that allows a bucket): subsets of one batch are split down to single items and an empty side makes the split routine fail' % (T.path, T.local_name(pl)))
                        continue
                    ctx.check(v is not None and bool(v) == need, rule, '%s/recursive-call@%s' % (short(T.path), c.loc().split(':')[-2] if ':' in c.loc() else c.bb), c.loc(),
                              'the recursion lets a fitting subset become one bucket',
                              'a recursive call of `%s` keeps forcing a split (%s is not the constant %s): subsets of one batch are split down to single items and an empty side makes the split routine fail' % (
                                  T.path, T.local_name(pl), str(need).lower()))
        for W in F.lib_fns():
            if not W.path.startswith('writer::') or W.path == T.path:
                continue
            for c in W.calls():
                if c.callee != T.path:
                    continue
                # is the input a selector batch, with the remainder inserted afterwards?
                batch = None
                for i in range(len(c.args)):
                    t = strip(c.arg_term(i))
                    if is_selected_ids(F, W, t, names):
                        for x in walk(t):
                            if x[0] == 'call' and x[1] in names:
                                batch = x
                if batch is None:
                    continue
                cand = root(batch[2][3])
                later = []
                for x in W.calls():
                    if x.callee.startswith('writer::') and x.bb != c.bb and x.bb in W.reachable(c.target):
                        for i in range(len(x.args)):
                            r = root(x.arg_term(i))
                            if r == cand or (r[0] == 'call' and cand[0] == 'call' and r[3] == cand[3]):
                                later.append(x)
                if not later:
                    continue
                n += 1
                key = '%s->%s' % (W.path, short(T.path))
                good = False
                why = 'the constructor can return a single bucket for a fitting batch whatever remains to be inserted'
                def on_remainder_edge(blk):
                    """truth of `cand.is_empty()` on the edge that dominates block blk (None when undecided)"""
                    for s0, x0, e in paths.controlling_conds(W, blk):
                        if e[0] == 'bool' and paths.edge_dominates(W, s0, x0, blk):
                            at0 = strip(e[1])
                            neg0 = False
                            while at0[0] == 'unop' and at0[1] == 'Not':
                                at0 = strip(at0[2])
                                neg0 = not neg0
                            if at0[0] == 'call' and at0[1].endswith('RoaringBitmap>::is_empty') and at0[2]:
                                r = root(at0[2][0])
                                if r == cand or (r[0] == 'call' and cand[0] == 'call' and r[3] == cand[3]):
                                    return e[2] != neg0
                    return None

                def disabled(pl, need):
                    at = strip(c.arg_term(pl - 1))
                    if isinstance(need, tuple):
                        # enum-valued switch: the variant handed over when a remainder exists must not enable the shortcut
                        import reader_rules as _rr
                        alts = _rr.phi_defs(W, at) if at[0] == 'phi' else [(c.bb, at)]
                        if not alts:
                            return False
                        seen_rem = False
                        for blk, tt in alts:
                            tv0 = strip(tt)
                            if not (tv0[0] == 'agg' and not tv0[3]):
                                return False
                            enabled = (tv0[2] == need[1]) == need[2]
                            emp = on_remainder_edge(blk) if at[0] == 'phi' else None
                            if emp is True:
                                continue           # chosen only when nothing remains
                            seen_rem = True
                            if enabled:
                                return False
                        return seen_rem
                    neg = False
                    while at[0] == 'unop' and at[1] == 'Not':
                        at = strip(at[2])
                        neg = not neg
                    if at[0] == 'call' and at[1].endswith('RoaringBitmap>::is_empty') and at[2]:
                        r = root(at[2][0])
                        if r == cand or (r[0] == 'call' and cand[0] == 'call' and r[3] == cand[3]):
                            val_when_remainder = (not False) if neg else False  # is_empty() is false when a remainder exists
                            return val_when_remainder != need
                    return False
                # every site where the constructor hands back its whole input as one bucket must be switched off
                unguarded = [bc for bc, gs in site_guards if not any(disabled(pl, need) for pl, need in gs)]
                good = bool(site_guards) and not unguarded
                if good:
                    why = 'every bucket shortcut of the constructor is disabled while a remainder exists'
                elif unguarded:
                    why = 'bucket return at %s is not disabled while a remainder exists' % unguarded[0].loc()
                ctx.check(good, rule, key, c.loc(), why,
                          'in `%s` an over-full bucket is rebuilt from a partial batch by `%s`, which may return one bucket when the batch fits, and the remainder is then re-inserted into it (%s): with a bucket capacity >= the minimum batch size and a small memory hint the same over-full bucket is recreated forever and the build never terminates' % (
                              W.path, short(T.path), ', '.join(sorted({short(x.callee) for x in later}))))
    ctx.floor(rule, 'partial-batch rebuilds of an over-full bucket', n, 1)


# --------------------------------------------------------------------------- memory hint (C14)
def r_memory_only(ctx, rule='R-MEMORY-HINT'):
    """the available_memory option only ever reaches the batch selector's memory argument (and the builder setter)"""
    F = ctx.F
    names = [s.path for s in selector(F)]
    n = 0
    for f in F.lib_fns():
        for bi, blk in enumerate(f.blocks):
            if blk['cleanup']:
                continue
            reads = []
            for st in blk['stmts']:
                rv = st['rv']
                for key in ('o', 'a', 'b'):
                    o = rv.get(key)
                    if isinstance(o, dict) and o.get('k') in ('copy', 'move') and any(e.get('n') == 'available_memory' for e in o['place']['p']):
                        reads.append((st['place'], st['span']))
                if 'place' in rv and rv['k'] != 'discr' and any(e.get('n') == 'available_memory' for e in rv['place']['p']):
                    # (reading only the discriminant -- `match opt.available_memory { Some(..) / None }` -- is the Some/None
                    # test of the option, not a use of the hint's value)
                    reads.append((st['place'], st['span']))
            for dest, span in reads:
                n += 1
                # forward closure of the value: must only feed the selector's last argument
                seen = set()
                work = [dest['l']]
                ok = True
                sink = False
                why = ''
                while work:
                    l = work.pop()
                    if l in seen:
                        continue
                    seen.add(l)
                    for u in f.uses(l):
                        if u['k'] == 'drop':
                            continue
                        if u['k'] == 'arg':
                            cal = u['call']
                            if cal.callee in names:
                                if u['i'] == len(cal.args) - 1:
                                    sink = True
                                else:
                                    ok = False
                                    why = 'passed as argument %d of the selector' % u['i']
                            elif cal.callee.endswith(('::unwrap_or', '::map_or', '::unwrap_or_default', '::map', '::floor', '::min', '::max', 'FnOnce::call_once')) or 'closure' in cal.callee:
                                if not cal.dest['p']:
                                    work.append(cal.dest['l'])
                            else:
                                ok = False
                                why = 'passed to `%s`' % short(cal.callee)
                        elif u['k'] == 'rv':
                            if u['rk'] in ('use', 'cast', 'binop', 'ref', 'agg', 'unop') and not u['dest']['p']:
                                work.append(u['dest']['l'])
                            elif u['rk'] == 'discr':
                                pass
                            else:
                                work.append(u['dest']['l'])
                        elif u['k'] == 'switch':
                            # only the Some/None test of the Option itself
                            pass
                # "for every value of the option": the hint is scaled without overflow-checked integer arithmetic (a huge hint
                # must not panic or wrap); float scaling and saturating forms are fine
                ovf = []
                bodies = [(f, seen)]
                for l in list(seen):
                    for u in f.uses(l):
                        if u['k'] == 'arg':
                            for a in u['call'].args:
                                if a.get('k') in ('copy', 'move'):
                                    tt = strip(f.term(a))
                                    if tt[0] == 'closure' and F.fn(tt[1]) is not None:
                                        g = F.fn(tt[1])
                                        bodies.append((g, None))
                for g, locs in bodies:
                    for blk2 in g.blocks:
                        if blk2['cleanup']:
                            continue
                        for st2 in blk2['stmts']:
                            rv2 = st2['rv']
                            if rv2['k'] == 'binop' and (rv2['op'].endswith('WithOverflow') or rv2['op'] in ('Mul', 'Add', 'Shl')) and 'f' not in g.local_ty(st2['place']['l'])[:1]:
                                ops = [o for o in (rv2.get('a'), rv2.get('b')) if isinstance(o, dict) and o.get('k') in ('copy', 'move')]
                                if locs is None or any(o['place']['l'] in locs for o in ops):
                                    if not g.local_ty(st2['place']['l']).startswith(('f32', 'f64')):
                                        ovf.append('%s in %s' % (rv2['op'], g.path))
                ctx.check(not ovf, rule, '%s/read#%d/no-overflow' % (f.path, n), '%s:%d' % (span['file'], span['line']), 'the hint is scaled in floating point / saturating arithmetic',
                          'the available_memory hint goes through overflow-checked integer arithmetic (%s): a very large hint panics (or wraps) instead of meaning "plenty"' % ovf[:2])
                ctx.check(ok and sink, rule, '%s/read#%d' % (f.path, n), '%s:%d' % (span['file'], span['line']), 'the memory hint only sizes the batch selector',
                          'in `%s` the available_memory option influences something other than the batch size (%s): the hint could change what a build produces' % (f.path, why or 'never reaches the selector'))
    ctx.floor(rule, 'reads of the available_memory option', n, 2)


# --------------------------------------------------------------------------- capacity gate / tree count (C15)
def fit_call_on(f, t, len_of=None):
    """is term t a call fit_in_descendant(.., len(X)) ; returns the X term"""
    t0 = strip(t)
    if t0[0] == 'call' and t0[1].endswith('::fit_in_descendant') and len(t0[2]) == 3:
        n = strip(t0[2][2])
        if n[0] == 'call' and n[1].endswith('::len') and n[2]:
            return n[2][0]
        return n
    return None


def option_or_default(t):
    """(option term, default term) when `t` is `o.unwrap_or(d)` / `o.map_or(d, |x| x)` / `match o { Some(x) => x, None => d }`"""
    t0 = strip(t)
    if t0[0] == 'call' and t0[1].endswith('::unwrap_or') and len(t0[2]) == 2:
        return t0[2][0], t0[2][1]
    if t0[0] == 'phi' and len(t0[2]) == 2:
        def uncast(a):
            a = strip(a)
            while a[0] == 'cast':
                a = strip(a[2])
            return a
        some = [a for a in t0[2] if uncast(a)[0] == 'field' and uncast(a)[2] == '0' and strip(uncast(a)[1])[0] == 'downcast' and strip(uncast(a)[1])[2] == 'Some']
        other = [a for a in t0[2] if a not in some]
        if len(some) == 1 and len(other) == 1:
            return strip(uncast(some[0])[1])[1], other[0]
    return None


def r_capacity(ctx, rule='R-CAPACITY'):
    F = ctx.F
    fit = F.one('writer::Writer::<D>::fit_in_descendant')
    if ctx.need(fit is not None, rule, 'Writer::fit_in_descendant'):
        rets = paths.ret_assigns(fit)
        good = False
        if len(rets) == 1:
            t = strip(rets[0][2])
            if t[0] == 'binop' and t[1] == 'Le' and strip(t[2])[0] == 'arg':
                r = strip(t[3])
                inner = strip(r[2]) if r[0] == 'cast' else r
                od = option_or_default(inner)
                good = od is not None and 'split_after' in show(od[0]) and 'dimensions' in show(od[1])
        ctx.check(good, rule, 'fit_in_descendant/formula', fit.loc(), 'n <= split_after.unwrap_or(dimensions)', 'fit_in_descendant is not `n <= split_after.unwrap_or(dimensions)`')
    be = C06.build_entry(F)
    n = 0
    for f in F.lib_fns():
        if not f.path.startswith('writer::'):
            continue
        sites = []
        for c in f.calls():
            val = None
            idt = None
            if c.callee == 'parallel::TmpNodes::<DE>::put':
                val, idt = c.arg_term(2), c.arg_term(1)
            h = heed_db_call(c)
            if h and h[0] == 'put' and len(c.args) > 3:
                val = c.arg_term(3)
                ki = key_info(c.arg_term(2))
                idt = ki[2] if ki and ki[0] == 'tree' else None
            if val is None:
                continue
            d = paths.agg_fields(val, 'node::Descendants')
            if d is None or idt is None:
                continue
            sites.append((c, d['descendants'], idt))
        for c, bm, idt in sites:
            n += 1
            key = '%s/bucket-write#%d' % (f.path, n)
            why = None
            bm_sites = {x[3] for x in walk(bm) if x[0] == 'call'}
            bm_args = {(x[1]) for x in walk(bm) if x[0] == 'arg'}

            def same_bitmap(t):
                ts = {x[3] for x in walk(t) if x[0] == 'call'}
                ta = {x[1] for x in walk(t) if x[0] == 'arg'}
                return bool((ts & bm_sites) or (ta & bm_args))
            # (i) dominated by the true edge of the capacity test on the same bitmap
            for s, x, e in paths.controlling_conds(f, c.bb):
                if e[0] == 'bool' and paths.edge_dominates(f, s, x, c.bb):
                    X = fit_call_on(f, e[1])
                    if X is not None and e[2] and same_bitmap(X):
                        why = 'written on the true edge of the capacity test of the same bitmap'
            # (ii) its id goes to the over-full worklist when the capacity test fails (or always)
            if why is None:
                for x in f.calls():
                    if x.callee.endswith('RoaringBitmap>::insert') and len(x.args) == 2 and same(x.arg_term(1), idt):
                        conds = [(s, y, e) for s, y, e in paths.controlling_conds(f, x.bb, transitive=False) if e[0] == 'bool' and fit_call_on(f, e[1]) is not None]
                        if not conds and (f.dominates(x.bb, c.bb) or f.dominates(c.bb, x.bb)):
                            why = 'its id is always queued on the over-full worklist'
                        for s, y, e in conds:
                            X = fit_call_on(f, e[1])
                            if not e[2] and same_bitmap(X):
                                why = 'its id is queued on the over-full worklist when the capacity test of the same bitmap fails'
            # (iii) shrinking rewrite of an existing bucket
            if why is None:
                muts = [short(x.callee) for x in f.calls() if x.args and x.callee.endswith(('sub_assign', 'bitor_assign')) and any(paths.mentions_call(x.arg_term(0), st) for st in bm_sites)]
                grows = [x for x in walk(bm) if x[0] == 'call' and x[1].endswith(('BitOr::bitor', 'BitOr>::bitor', '::union', '::insert', '::push', '::extend', 'BitXor::bitxor', '::insert_range'))]
                if muts == ['sub_assign'] and not grows:
                    why = 'subset of an existing bucket (removal only)'
            # (iv) the whole function is only called under the capacity test of the bitmap it receives
            if why is None and be is not None:
                for g, cc in Kinds(F).call_sites(f):
                    for s, x, e in paths.controlling_conds(g, cc.bb):
                        if e[0] == 'bool' and e[2] and fit_call_on(g, e[1]) is not None and paths.edge_dominates(g, s, x, cc.bb):
                            X = fit_call_on(g, e[1])
                            for i in range(len(cc.args)):
                                if same(cc.arg_term(i), X) and strip(bm)[0] in ('ref', 'arg', 'agg') and any(y[0] == 'arg' and y[1] == i + 1 for y in walk(bm)):
                                    why = 'the function is only called when its bitmap fits in one bucket'
            ctx.check(why is not None, rule, key, c.loc(), why or '',
                      'in `%s` a bucket is written without the capacity gate: it is neither under `fit_in_descendant(len)` of its own bitmap, nor queued for re-splitting when it does not fit, nor a shrunk copy of an existing bucket -- buckets larger than split_after could stay in the forest' % f.path)
        # every id put on an over-full worklist handed in by the caller (`&mut RoaringBitmap` parameter) is the id of a bucket
        # this function writes: an item id or a stale id on the worklist is later fetched as a tree node
        for x in f.calls():
            if x.callee.endswith('RoaringBitmap>::insert') and len(x.args) == 2:
                r0 = root(x.arg_term(0))
                if r0[0] == 'arg' and f.local_ty(r0[1]).replace(' ', '') in ('&mutroaring::RoaringBitmap', '&mutRoaringBitmap') and sites:
                    okw = any(same(x.arg_term(1), idt) for c, bm, idt in sites)
                    ctx.check(okw, rule, '%s/worklist-insert/%s' % (f.path, f.local_name(r0[1]) or r0[1]), x.loc(), 'the id queued is the id of a bucket written here',
                              'in `%s` the id put on the over-full worklist `%s` is not the id under which a bucket is written: the re-splitting step would fetch a node that is not that bucket' % (f.path, f.local_name(r0[1])))
    ctx.floor(rule, 'bucket writes', n, 6)


def r_drain(ctx, rule='R-DRAIN'):
    """the over-full worklist is processed before the metadata is written"""
    F = ctx.F
    be = C06.build_entry(F)
    if not ctx.need(be is not None, rule, 'build entry'):
        return
    names = [s.path for s in selector(F)]
    wl = [g for g in F.lib_fns() if g.path.startswith('writer::') and worklist_drivers(g, names)]
    if not ctx.need(len(wl) >= 1, rule, 'worklist loop function'):
        return
    calls = [c for c in be.calls() if c.callee in [g.path for g in wl]]
    meta = []
    for (_g, c, op, w, k) in db_ops(F, [be]):
        if op == 'put' and k is not None and (key_info(c.arg_term(k)) or (None,))[0] == 'metadata':
            meta.append(c)
    good = bool(calls) and bool(meta) and all(be.dominates(calls[0].bb, m.bb) for m in meta)
    ctx.check(good, rule, be.path, calls[0].loc() if calls else be.loc(), 'the worklist of over-full buckets is drained before the metadata is written',
              'the build can publish its metadata without having re-split the over-full buckets')
    # the worklist handed over contains what the insertion reported plus the new roots
    if calls:
        arg = calls[0].arg_term(len(calls[0].args) - 1)
        srcs = [s for s in walk(arg) if s[0] == 'call' and s[1].startswith('writer::')]
        ctx.check(bool(srcs), rule, be.path + '/worklist-source', calls[0].loc(), 'worklist = buckets reported over-full by the insertion step (+ new roots)',
                  'the worklist given to the re-splitting step is not the set reported by the insertion step')


def roots_site(F, be):
    """call site defining the roots vector that feeds Metadata.roots in the build entry"""
    for (_g, c, op, w, k) in db_ops(F, [be]):
        if op == 'put' and k is not None and (key_info(c.arg_term(k)) or (None,))[0] == 'metadata':
            d = paths.agg_fields(c.arg_term(3), 'metadata::Metadata')
            if d:
                for s in walk(strip(d['roots'])):
                    if s[0] == 'call' and be.call_at(s[3]) is not None and 'Vec<u32>' in be.local_ty(be.call_at(s[3]).dest['l']):
                        return s[3]
    return None


def r_tree_count(ctx, rule='R-NTREES'):
    F = ctx.F
    t = F.one('writer::target_n_trees')
    be = C06.build_entry(F)
    if not ctx.need(t is not None and be is not None, rule, 'target_n_trees / build entry'):
        return
    # Some(n) => n unchanged: on the Some edge of the match on the option, every value that can still reach the return is n
    def is_n(term):
        s0 = strip(term)
        inner = strip(s0[2]) if s0[0] == 'cast' else s0
        return inner[0] == 'field' and 'n_trees' in show(inner) and 'Some' in show(inner)
    good = False
    some_edges = []
    for b0 in t.live_blocks():
        for x0 in t.succ(b0):
            e = paths.edge_cond(t, b0, x0)
            if e and e[0] == 'disc' and 'n_trees' in show(e[1]) and 1 in e[2] and not e[3]:
                some_edges.append(x0)
    if some_edges:
        region = set()
        for x0 in some_edges:
            region |= t.reachable(x0) | {x0}
        # values of the returned local defined inside the Some region (or flowing into it from before the match)
        vals = []
        ret_locals = set()
        for bi in t.live_blocks():
            for st in t.blocks[bi]['stmts']:
                if st['place']['l'] == 0 and not st['place']['p'] and st['rv']['k'] == 'use' and st['rv']['o'].get('k') in ('copy', 'move') and not st['rv']['o']['place']['p']:
                    ret_locals.add(st['rv']['o']['place']['l'])
                elif st['place']['l'] == 0 and not st['place']['p'] and bi in region:
                    vals.append(t._def_term(('assign', bi, 0, st['rv'], []), 0, frozenset()))
        for l in ret_locals:
            for d in t.defs().get(l, []):
                if d[-1] or d[1] not in region:
                    continue
                vals.append(t._def_term(d, 0, frozenset([l])))
        good = bool(vals) and all(is_n(v) for v in vals)
    ctx.check(good, rule, 'explicit-count', t.loc(), 'Some(n) => n', 'an explicitly requested tree count is not used unchanged')
    # build: extra trees deleted down to the target; missing trees created up to it
    tc = [c for c in be.calls() if c.callee == t.path]
    if not ctx.need(len(tc) == 1, rule, 'call of target_n_trees in the build'):
        return
    site = tc[0].bb
    def is_target(t):
        # the computed target itself (through casts / copies), not a value derived from it (`.min(n)`, `- 1`, ...)
        t0 = strip(t)
        while t0[0] == 'cast':
            t0 = strip(t0[2])
        return t0[0] == 'call' and t0[3] == site
    INT_OPS = ('::min', '::max', '::clamp', '::saturating_add', '::saturating_mul', '::wrapping_add', '::wrapping_sub', '::checked_add', '::checked_sub',
               '::checked_mul', '::pow', '::div_ceil', '::next_power_of_two', '::abs_diff')

    def is_derived(t):
        """an integer computed from the target (other than the allowed `target.saturating_sub(roots.len())`)"""
        t0 = strip(t)
        while t0[0] == 'cast' or (t0[0] == 'field' and t0[2] == '0' and strip(t0[1])[0] == 'binop'):
            t0 = strip(t0[2]) if t0[0] == 'cast' else strip(t0[1])
        if t0[0] == 'binop':
            return paths.mentions_call(t0, site)
        if t0[0] == 'call' and t0[1].endswith(INT_OPS) and t0[3] != site:
            return any(paths.mentions_call(a, site) for a in t0[2])
        if t0[0] == 'call' and t0[1].endswith('::saturating_sub') and len(t0[2]) == 2:
            return paths.mentions_call(t0[2][1], site)     # `x - target` is a derivation, `target - x` is the allowed one
        return False
    # "at least one tree when the choice is left to arroy" (reached only when the items do not fit in one bucket): every value
    # returned on the automatic arm has a lower bound >= 1 in a small interval evaluation (constants, max, casts, joins, and
    # `x` on the true edge of `x > y`)
    def lower(term, depth=0):
        t0 = strip(term)
        if depth > 12:
            return 0
        c0 = const_eval(t0)
        if isinstance(c0, int):
            return max(c0, 0)
        if t0[0] == 'cast':
            return lower(t0[2], depth + 1)
        if t0[0] == 'call' and t0[1].endswith(('::max', 'cmp::max', 'Ord::max')) and len(t0[2]) == 2:
            return max(lower(t0[2][0], depth + 1), lower(t0[2][1], depth + 1))
        if t0[0] == 'call' and t0[1].endswith(('::clamp',)) and len(t0[2]) == 3:
            return max(lower(t0[2][1], depth + 1), 0)
        if t0[0] == 'phi':
            return min([lower(a, depth + 1) for a in t0[2]] or [0])
        return 0
    autos = [(b, tt) for b, k, tt in paths.ret_assigns(t) if not is_n(tt)]
    worst = None
    for b, tt in autos:
        lb = lower(tt)
        for s0, x0, e in paths.controlling_conds(t, b):
            if e[0] == 'bool' and paths.edge_dominates(t, s0, x0, b):
                c0 = strip(e[1])
                if c0[0] == 'binop' and c0[1] in ('Gt', 'Lt'):
                    big, small = (c0[2], c0[3]) if c0[1] == 'Gt' else (c0[3], c0[2])
                    if e[2] and same(big, tt):
                        lb = max(lb, lower(small) + 1)
        if lb < 1:
            worst = (b, tt)
    ctx.check(bool(autos) and worst is None, rule, 'auto-at-least-one', t.loc(), 'the automatic tree count is bounded below by 1',
              'the automatic tree count of `writer::target_n_trees` has no lower bound (%s can be 0, e.g. n / (n / dimensions + 1) with one dimension): an index that does not fit in one bucket can be built with no tree at all, and every search on it comes back empty' % (show(worst[1])[:70] if worst else '?'))
    derived = []
    for c in be.calls():
        for i in range(len(c.args)):
            t = c.arg_term(i)
            if c.bb != site and is_derived(t):
                derived.append((c, show(t)[:80]))
    ctx.check(not derived, rule, 'target-unmodified', tc[0].loc(), 'the computed target is used as it is',
              'the build adjusts the target tree count after computing it (%s): an explicitly requested count would not be honoured' % [(short(c.callee), tt) for c, tt in derived][:2])
    dele = [c for c in be.calls() if c.callee.startswith('writer::') and any(is_target(c.arg_term(i)) for i in range(len(c.args)))]
    ctx.check(bool(dele), rule, 'target-used-for-deletion', tc[0].loc(), 'the target is handed to the extra-tree deletion (%s)' % [short(c.callee) for c in dele],
              'the target tree count is not used to delete extra trees')
    for c in dele:
        for g in F.resolve_call(c):
            subs = [x for x in g.calls() if x.callee.endswith('::saturating_sub')]
            rm = [x for x in g.calls() if x.callee.endswith(('::swap_remove', '::remove', '::pop'))]
            dt = [x for x in g.calls() if x.callee.startswith('writer::') and x.callee != g.path]
            def is_roots(t):
                return any(y[0] == 'arg' and 'Vec<u32>' in g.local_ty(y[1]) for y in walk(t))

            def is_target(t):
                return any(y[0] == 'arg' and g.local_ty(y[1]) in ('u64', 'usize') for y in walk(t))
            bound_a = bool(subs) and any(is_roots(x.arg_term(0)) and is_target(x.arg_term(1)) for x in subs)
            bound_b = False
            for b0 in g.live_blocks():
                for x0 in g.succ(b0):
                    e = paths.edge_cond(g, b0, x0)
                    if e and e[0] == 'bool':
                        c0 = strip(e[1])
                        if c0[0] == 'binop' and c0[1] in ('Gt', 'Lt', 'Ge', 'Le'):
                            sides = (c0[2], c0[3])
                            def target_side(t):
                                # `target`, or `min(roots.len(), target)` (the number of trees kept, never more than there are)
                                t0 = strip(t)
                                while t0[0] == 'cast':
                                    t0 = strip(t0[2])
                                if is_target(t0) and not is_roots(t0):
                                    return True
                                if t0[0] == 'call' and t0[1].endswith(('::min', 'cmp::min')) and len(t0[2]) == 2:
                                    a, b = t0[2]
                                    return (is_target(a) and not is_roots(a) and is_roots(b)) or (is_target(b) and not is_roots(b) and is_roots(a))
                                return False

                            def roots_len_side(t):
                                t0 = strip(t)
                                return t0[0] == 'call' and t0[1].endswith('::len') and is_roots(t0) and not is_target(t0)
                            if (roots_len_side(sides[0]) and target_side(sides[1])) or (roots_len_side(sides[1]) and target_side(sides[0])):
                                # `roots.len() > target` keeps looping (or its mirrored spelling)
                                keep = (c0[1] == 'Gt' and roots_len_side(sides[0])) or (c0[1] == 'Lt' and roots_len_side(sides[1]))
                                if keep and e[2] and rm and rm[0].bb in g.reachable(x0):
                                    bound_b = True
            if bound_a and not bound_b and rm:
                # the surplus `roots.len() - target` is computed once, before the removal loop: re-evaluated inside the loop it
                # shrinks together with `roots` and the loop stops half way
                lp_rm = set()
                for h in g.dominators().get(rm[0].bb, ()):
                    lp = paths.natural_loop(g, h)
                    if rm[0].bb in lp:
                        lp_rm |= set(lp)
                if any(x.bb in lp_rm for x in subs if is_roots(x.arg_term(0)) and is_target(x.arg_term(1))):
                    bound_a = False
            okk = (bound_a or bound_b) and bool(rm) and bool(dt)
            okk = okk and all(paths.mentions_call(x.arg_term(len(x.args) - 1), rm[0].bb) for x in dt if 'delete_tree' in x.callee or len(x.args) == 3)
            if okk:
                tree_dels = [x for x in dt if paths.mentions_call(x.arg_term(len(x.args) - 1), rm[0].bb)]
                hdrs = [h for h in g.dominators().get(rm[0].bb, ()) if rm[0].bb in paths.natural_loop(g, h)]
                goals = [b for b, k, t in paths.ret_assigns(g) if k in ('ok', 'call', 'other')] + hdrs
                okk = bool(tree_dels) and paths.must_pass(g, rm[0].target, goals, [x.bb for x in tree_dels])
            ctx.check(okk, rule, g.path + '/shrink', g.loc(), 'removes roots.len() - target roots and deletes each removed tree',
                      'shrinking the forest in `%s` does not remove exactly the surplus roots and delete their trees' % g.path)
    miss = [c for c in be.calls() if c.callee.endswith('::saturating_sub') and paths.mentions_call(c.arg_term(0), site)]
    rs = roots_site(F, be)
    good = bool(miss) and rs is not None and paths.mentions_call(miss[0].arg_term(1), rs) and any(x[0] == 'call' and x[1].endswith('::len') for x in walk(miss[0].arg_term(1)))
    range_form = None
    if not good and rs is not None:
        # the same count spelled as a range: `(roots.len() as u64 .. target).map(|_| create one tree)`
        for c in be.calls():
            if c.callee.endswith(('Iterator::map', 'Iterator::try_for_each', 'Iterator::for_each', 'Iterator::next', 'IntoIterator::into_iter')) and c.args:
                for x in walk(c.arg_term(0)):
                    if x[0] == 'agg' and x[1].endswith('ops::Range'):
                        dct = dict(x[3])
                        st_, en_ = dct['start'], dct['end']
                        en0 = strip(en_)
                        while en0[0] == 'cast':
                            en0 = strip(en0[2])
                        if paths.mentions_call(st_, rs) and any(y[0] == 'call' and y[1].endswith('::len') for y in walk(st_)) and en0[0] == 'call' and en0[3] == site:
                            range_form = c
        good = range_form is not None
    ctx.check(good, rule, 'missing-trees', miss[0].loc() if miss else be.loc(), 'creates target - roots.len() new trees', 'the number of trees created is not target - current roots')
    if range_form is not None and not miss:
        clo = [y for y in walk(range_form.arg_term(len(range_form.args) - 1)) if y[0] == 'closure'] if len(range_form.args) > 1 else []
        okl = False
        for y in clo:
            gcl = F.fn(y[1])
            if gcl is not None:
                al = [z for z in gcl.calls() if z.callee.endswith('ConcurrentNodeIds::next')]
                oks = [b2 for b2, k2, t2 in paths.ret_assigns(gcl) if k2 == 'ok']
                okl = bool(al) and bool(oks) and paths.must_pass(gcl, 0, oks, [al[0].bb])
        if not clo:
            nx = [c for c in be.calls() if c.callee.endswith('Iterator::next') and paths.mentions_call(c.arg_term(0), range_form.bb)]
            alloc = [c for c in be.calls() if c.callee.endswith('ConcurrentNodeIds::next')]
            okl = bool(nx) and bool(alloc) and loop_every_iteration(be, nx[0], alloc[0].bb)
        ctx.check(okl, rule, 'missing-trees-loop', range_form.loc(), 'one new root per missing tree', 'the creation of the missing trees does not allocate one root per element of the range')
    if miss:
        # the creation loop is bounded by that difference and each iteration allocates + lists a root
        nx = [c for c in be.calls() if c.callee.endswith('Iterator::next') and paths.mentions_call(c.arg_term(0), miss[0].bb)]
        alloc = [c for c in be.calls() if c.callee.endswith('ConcurrentNodeIds::next')]
        okl = bool(nx) and bool(alloc) and loop_every_iteration(be, nx[0], alloc[0].bb)
        ctx.check(okl, rule, 'missing-trees-loop', miss[0].loc(), 'one new root per missing tree', 'the loop creating the missing trees does not allocate one root per iteration')
