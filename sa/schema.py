"""A8 -- wire-schema extraction from the MIR of the encoders / decoders.

Encoders: for every acyclic success path of a `bytes_encode` (and of NodeId::to_bytes), the ordered
byte-append events on the output buffer with the provenance of the appended bytes -> rows
(what, width, endianness).  Decoders: every scalar read with the offset of the slice it reads,
computed along the re-slicing chain, and the field of the decoded value it lands in.
Rows are compared with the reference layout in spec/wire_format.json."""
import json
import os
import re

import paths
from facts import strip, show, walk, short

VERIF = os.path.dirname(os.path.dirname(os.path.abspath(__file__)))


def reference():
    return json.load(open(os.path.join(VERIF, 'spec', 'wire_format.json')))


INT_W = {'u8': 1, 'i8': 1, 'u16': 2, 'i16': 2, 'u32': 4, 'i32': 4, 'u64': 8, 'i64': 8, 'f32': 4, 'f64': 8, 'usize': 8, 'bool': 1}


def impl_int(callee):
    m = re.search(r'<impl (\w+)>', callee)
    return m.group(1) if m else None


def sizeof_value(F, fn, t):
    """int, or a symbolic string, for a width expression term"""
    t = strip(t)
    if t[0] == 'const' and isinstance(t[2], int):
        return t[2]
    if t[0] == 'cast':
        return sizeof_value(F, fn, t[2])
    if t[0] == 'call' and t[1].endswith('mem::size_of'):
        c = fn.call_at(t[3])
        g = ','.join(c.gnames)
        if g in INT_W:
            return INT_W[g]
        a = F.adts.get(g)
        if a and a['size'] >= 0:
            return a['size']
        if 'Header' in g:
            return 'H'
        return 'sizeof(%s)' % g
    if t[0] == 'call' and t[1].endswith('mem::size_of_val'):
        a = strip(t[2][0])
        ty = None
        if a[0] in ('arg', 'var'):
            ty = fn.local_ty(a[1])
        elif a[0] == 'call' and impl_int(fn.call_at(a[3]).callee):
            ty = None
        # size_of_val(&major) where major = read_u32(..) : derive from the producing call
        if a[0] == 'call' and a[1].endswith(('read_u32', 'read_f32')):
            return 4
        if a[0] == 'call' and a[1].endswith('read_u16'):
            return 2
        if a[0] == 'call' and a[1].endswith('read_u64'):
            return 8
        if ty in INT_W:
            return INT_W[ty]
        return 'sizeof_val(%s)' % show(a)
    if t[0] == 'binop' and t[1] in ('Add', 'AddWithOverflow'):
        x, y = sizeof_value(F, fn, t[2]), sizeof_value(F, fn, t[3])
        if isinstance(x, int) and isinstance(y, int):
            return x + y
        return '%s+%s' % (x, y)
    if t[0] == 'binop' and t[1] in ('Sub', 'SubWithOverflow', 'Mul', 'MulWithOverflow'):
        x, y = sizeof_value(F, fn, t[2]), sizeof_value(F, fn, t[3])
        if isinstance(x, int) and isinstance(y, int):
            return x - y if t[1].startswith('Sub') else x * y
        return '%s%s%s' % (x, '-' if t[1].startswith('Sub') else '*', y)
    if t[0] == 'field' and t[1][0] == 'binop':  # (AddWithOverflow(a,b)).0
        return sizeof_value(F, fn, t[1])
    if t[0] == 'call' and t[1].endswith('str>::len'):
        return 'len(%s)' % field_path(t[2][0])
    return show(t)


def field_path(t):
    """dotted path of struct fields from the encoded item / decoded aggregate"""
    t = strip(t)
    parts = []
    while True:
        if t[0] == 'field':
            parts.append(t[2])
            t = strip(t[1])
        elif t[0] in ('downcast', 'discr'):
            t = strip(t[1])
        elif t[0] == 'cast':
            t = strip(t[2])
        elif t[0] == 'call' and t[2] and t[1].endswith(('Deref::deref', 'as_bytes', 'raw_bytes', 'bytes_of', 'Clone::clone')):
            t = strip(t[2][0])
        else:
            break
    parts = [p for p in reversed(parts) if p != '0' or True]
    # drop the tuple-variant payload index
    parts = [p for p in parts if not p.isdigit()]
    return '.'.join(parts) if parts else show(t)


# ----------------------------------------------------------------------------- encoders
def array_loops(fn):
    """loops `for x in [e1, .., ek]` / `for x in [..].iter()`: {next-call block: (elements, switch block, exit successor)}"""
    out = {}
    for c in fn.calls():
        if not c.callee.endswith('Iterator::next') or not c.args:
            continue
        src = strip(c.arg_term(0))
        while src[0] == 'call' and src[1].endswith(('IntoIterator::into_iter', '::iter', 'Iterator::by_ref', 'Iterator::copied', 'Iterator::cloned')) and src[2]:
            src = strip(src[2][0])
        while src[0] == 'cast':
            src = strip(src[2])
        if src[0] != 'array' or not src[1]:
            continue
        sw = paths.switch_at(fn, c.target) if c.target is not None and c.target >= 0 else None
        if sw is None:
            continue
        d = fn.term(sw['discr'])
        if not (d[0] == 'discr' and strip(d[1])[0] == 'call' and strip(d[1])[3] == c.bb):
            continue
        exit_to = None
        for x in fn.succ(c.target):
            e = paths.edge_cond(fn, c.target, x)
            listed = [int(v) for v, t in sw['targets']]
            if e and e[0] == 'disc' and ((0 in e[2]) or (e[3] and 0 not in listed)):
                exit_to = x
        if exit_to is not None:
            out[c.bb] = (list(src[1]), c.target, exit_to)
    return out


def rewrite(t, fn_):
    """bottom-up term rewriting: fn_(subterm) returns a replacement or None"""
    if not isinstance(t, tuple) or not t:
        return t
    r = fn_(t)
    if r is not None:
        return r
    out = []
    for x in t:
        if isinstance(x, tuple):
            out.append(rewrite(x, fn_))
        elif isinstance(x, list):
            out.append([rewrite(y, fn_) if isinstance(y, tuple) and y and isinstance(y[0], str) else
                        ((y[0], rewrite(y[1], fn_)) if isinstance(y, tuple) and len(y) == 2 and isinstance(y[1], tuple) else y) for y in x])
        else:
            out.append(x)
    return tuple(out)


def _loop_element(t, loops):
    """block of the array loop whose element `t` mentions, else None"""
    for x in walk(t):
        if x[0] == 'call' and x[1].endswith('Iterator::next') and isinstance(x[3], int) and x[3] in loops:
            return x[3]
    return None


def _subst_element(t, nb, elem):
    def f_(x):
        if x[0] == 'field' and x[2] == '0' and strip(x[1])[0] == 'downcast' and strip(x[1])[2] == 'Some':
            c = strip(strip(x[1])[1])
            if c[0] == 'call' and c[1].endswith('Iterator::next') and c[3] == nb:
                return elem
        return None
    return rewrite(t, f_)


def enumerate_paths(fn, limit=400):
    """acyclic entry->return paths as lists of block indices; a path that takes contradictory arms of two matches on
    the same scrutinee (e.g. after a helper with its own `match item` was inlined) is infeasible and left out"""
    out = []
    loops = array_loops(fn)

    def go(b, path, cons):
        if len(out) >= limit:
            return
        if b in path:
            # the body of a loop over an array literal is walked once; coming back to its `next` leaves the loop
            if b in loops and path.count(b) == 1:
                elems, swb, exit_to = loops[b]
                go(exit_to, path + [b, swb], cons)
            return
        path = path + [b]
        ss = fn.succ(b)
        if not ss:
            if fn.blocks[b]['term']['k'] == 'return':
                out.append(path)
            return
        sw = paths.switch_at(fn, b)
        for s in ss:
            c2 = cons
            # a loop over a non-empty array literal runs its body before it can leave
            skip = False
            for h, (elems, swb, exit_to) in loops.items():
                if b == swb and s == exit_to and elems and path.count(h) == 1:
                    skip = True
            if skip:
                continue
            if sw is not None:
                e = paths.edge_cond(fn, b, s)
                if e and e[0] == 'disc':
                    key = show(e[1])
                    listed = frozenset(int(v) for v, t in sw['targets'])
                    allowed = ('in', frozenset(e[2])) if not e[3] else ('notin', listed - frozenset(e[2]))
                    prev = cons.get(key)
                    if prev is not None and not _compatible(prev, allowed):
                        continue
                    c2 = dict(cons)
                    c2[key] = _meet(prev, allowed) if prev is not None else allowed
            go(s, path, c2)
    go(0, [], {})
    return out


def _compatible(a, b):
    if a[0] == 'in' and b[0] == 'in':
        return bool(a[1] & b[1])
    if a[0] == 'in':
        return bool(a[1] - b[1])
    if b[0] == 'in':
        return bool(b[1] - a[1])
    return True


def _meet(a, b):
    if a[0] == 'in' and b[0] == 'in':
        return ('in', a[1] & b[1])
    if a[0] == 'in':
        return ('in', a[1] - b[1])
    if b[0] == 'in':
        return ('in', b[1] - a[1])
    return ('notin', a[1] | b[1])


def path_variant(F, fn, path):
    """names of enum variants selected by discriminant switches along the path (on the encoded item)"""
    sel = []
    for i, b in enumerate(path[:-1]):
        sw = paths.switch_at(fn, b)
        if sw is None:
            continue
        e = paths.edge_cond(fn, b, path[i + 1])
        if e and e[0] == 'disc' and e[1][0] == 'discr':
            sel.append((show(e[1][1]), tuple(e[2]), e[3]))
        elif e and e[0] == 'bool':
            sel.append((show(e[1]), e[2]))
    return sel


def is_success_path(fn, path):
    for b, k, t in paths.ret_assigns(fn):
        if b in path and k in ('residual', 'err'):
            return False
    return True


def slice_row(F, fn, t):
    """classify the bytes appended by extend_from_slice(&mut out, t)"""
    s = strip(t)
    while s[0] == 'cast':
        s = strip(s[2])
    if s[0] == 'call':
        n = s[1]
        if n.endswith(('to_be_bytes', 'to_le_bytes', 'to_ne_bytes')):
            ty = impl_int(n)
            en = {'to_be_bytes': 'BE', 'to_le_bytes': 'LE', 'to_ne_bytes': 'NE'}[n.rsplit('::', 1)[1]]
            src = strip(s[2][0])
            what = field_path(src)
            w = INT_W.get(ty, '?')
            if src[0] == 'cast' or (src[0] == 'call' and 'serialized_size' in src[1]):
                # a length field: look through the whole chain of integer casts, remembering the narrowest type on the way --
                # `(n as u16) as u32` writes four bytes but only keeps two of them (the field then lies for large values)
                inner, narrowest = src, 8
                while inner[0] == 'cast':
                    narrowest = min(narrowest, INT_W.get(inner[3], 8) if len(inner) > 3 else 8)
                    inner = strip(inner[2])
                if inner[0] == 'call' and 'serialized_size' in inner[1]:
                    what = 'serialized_size(%s)' % field_path(inner[2][0])
                    if isinstance(w, int) and narrowest < w:
                        what += ' narrowed to %d bytes on the way' % narrowest
            return (what, w, '-' if w == 1 else en)
        if n.endswith('bytemuck::bytes_of'):
            return (field_path(s[2][0]), 'H', 'pod-native')
        if n.endswith('UnalignedVector::<Codec>::as_bytes'):
            return (field_path(s[2][0]), 'vector', 'raw')
        if n.endswith('str>::as_bytes'):
            return (field_path(s[2][0]), 'str', 'raw')
        if n.endswith('NodeId::to_bytes'):
            return (field_path(s[2][0]), 'NodeId', 'nodeid')
        if n.endswith('ItemIds::<\'a>::raw_bytes') or n.endswith('::raw_bytes'):
            return (field_path(s[2][0]), 'u32*', 'raw-native')
    return ('?' + show(s)[:60], '?', '?')


def _endian(n):
    return {'to_be_bytes': 'BE', 'to_le_bytes': 'LE', 'to_ne_bytes': 'NE'}[n.rsplit('::', 1)[1]]


def byte_array_rows(els):
    """rows of a `[u8; N]` literal: consecutive bytes i = 0..w-1 of one `x.to_be_bytes()` form one (x, w, BE) row"""
    rows = []
    i = 0
    while i < len(els):
        e = strip(els[i])
        if e[0] == 'cindex' and strip(e[1])[0] == 'call' and strip(e[1])[1].endswith(('to_be_bytes', 'to_le_bytes', 'to_ne_bytes')):
            c = strip(e[1])
            w = INT_W.get(impl_int(c[1]), 0)
            idxs = []
            for j2 in range(i, min(i + w, len(els))):
                ej = strip(els[j2])
                if ej[0] == 'cindex' and strip(ej[1])[0] == 'call' and strip(ej[1])[3] == c[3]:
                    idxs.append(ej[2])
            if idxs == list(range(w)):
                rows.append((field_path(c[2][0]), w, '-' if w == 1 else _endian(c[1])))
            else:
                rows.append(('?bytes of %s in order %s' % (field_path(c[2][0]), idxs), w, '?'))
            i += max(w, 1)
        elif e[0] == 'const' and isinstance(e[2], int):
            rows.append(('tag', 1, e[2]) if len(els) == 1 else ('const', 1, e[2]))
            i += 1
        else:
            rows.append((field_path(e), 1, '-'))
            i += 1
    return rows


BYTE_KINDS = ('cindex', 'const', 'cast', 'field', 'discr', 'arg', 'var', 'index')
PASS_THROUGH = ('<impl [T]>::to_vec', '<impl [T]>::into_vec', 'From::from', 'Into::into', 'ToOwned::to_owned', 'Clone::clone',
                'Deref::deref', 'AsRef::as_ref', 'Borrow::borrow', 'Vec::<T, A>::into_boxed_slice', 'Vec::<T, A>::as_slice', '<impl [T; N]>::as_slice')


def bytes_layout(F, fn, t, depth=0):
    """rows of a byte-sequence expression (array literal, concat of slices, to_vec, vec![..], to_be_bytes, ...)"""
    s = strip(t)
    while s[0] == 'cast':
        s = strip(s[2])
    if depth > 12:
        return [('?deep', '?', '?')]
    if s[0] == 'array':
        els = s[1]
        if els and all(strip(e)[0] in BYTE_KINDS for e in els):
            return byte_array_rows(els)
        out = []
        for e in els:
            out.extend(bytes_layout(F, fn, e, depth + 1))
        return out
    if s[0] in ('var', 'phi', 'repeat') and isinstance(s[1], int) and re.match(r'\[u8; \d+\]$', fn.local_ty(s[1])):
        # a fixed array filled in place: the stores must tile it from offset 0 without gaps
        size = int(re.match(r'\[u8; (\d+)\]$', fn.local_ty(s[1])).group(1))
        st = sorted(array_store_rows(F, fn, s[1]), key=lambda r: (r[0] is None, r[0]))
        out, at = [], 0
        for off, what, w, en in st:
            if off != at or not isinstance(w, int):
                return [('?stores of %s do not tile the array: %s' % (fn.local_name(s[1]), [(r[0], r[2]) for r in st]), '?', '?')]
            out.append((what, w, en))
            at += w
        if at != size:
            return [('?stores of %s cover %d of %d bytes' % (fn.local_name(s[1]), at, size), '?', '?')]
        return out
    if s[0] == 'call':
        n = s[1]
        if n.endswith(PASS_THROUGH) and s[2]:
            return bytes_layout(F, fn, s[2][0], depth + 1)
        if n.endswith(('<impl [T]>::concat', 'Concat::concat', 'slice::Concat<T>>::concat')) and s[2]:
            return bytes_layout(F, fn, s[2][0], depth + 1)
        # byte *iterators* handed to `Vec::extend`: `s.bytes()`, `arr.into_iter()`, `a.chain(b)`, `.copied()`
        if n.endswith('Iterator::chain') and len(s[2]) == 2:
            return bytes_layout(F, fn, s[2][0], depth + 1) + bytes_layout(F, fn, s[2][1], depth + 1)
        if n.endswith(('IntoIterator::into_iter', 'Iterator::copied', 'Iterator::cloned', '<impl [T]>::iter')) and s[2]:
            return bytes_layout(F, fn, s[2][0], depth + 1)
        if n.endswith('str>::bytes') and s[2]:
            return [(field_path(s[2][0]), 'str', 'raw')]
        # `out.extend(opt.map(|m| m as u8))`: zero or one byte, the (fieldless enum / u8) payload of the Option
        if n.endswith('Option::<T>::map') and len(s[2]) == 2 and strip(s[2][1])[0] == 'closure':
            g = F.fn(strip(s[2][1])[1])
            if g is not None:
                rs = [strip(t) for b0, k0, t in paths.ret_assigns(g)]
                if len(rs) == 1:
                    r0 = rs[0]
                    while r0[0] == 'cast':
                        r0 = strip(r0[2])
                    if r0[0] == 'discr':
                        r0 = strip(r0[1])
                    if r0[0] == 'arg' and r0[1] == 2:
                        return [(field_path(s[2][0]), 1, '-opt')]
        if n.endswith('ops::Index::index') and len(s[2]) == 2 and strip(s[2][1])[0] == 'agg' and strip(s[2][1])[1].endswith('RangeFull'):
            return bytes_layout(F, fn, s[2][0], depth + 1)
        if n.endswith('box_assume_init_into_vec_unsafe') and isinstance(s[3], int):
            # vec![a, b, c]: the array is stored through the box pointer right before the call
            blk = fn.blocks[s[3]]
            for si, st in enumerate(blk['stmts']):
                if st['rv']['k'] == 'agg' and st['rv'].get('agg') == 'array' and st['place']['p'] and st['place']['p'][0]['k'] == 'deref':
                    arr = fn._def_term(('assign', s[3], si, st['rv'], []), 0, frozenset())
                    return bytes_layout(F, fn, arr, depth + 1)
        r = slice_row(F, fn, s)
        return [r]
    return [('?' + show(s)[:60], '?', '?')]


def _owned_payload(val):
    """x of a returned Ok(Cow::Owned(x)) / Ok(Cow::Borrowed(x))"""
    v = strip(val)
    if v[0] == 'agg' and v[1].endswith('result::Result') and v[2] == 'Ok':
        v = strip(dict(v[3])['0'])
    else:
        return None
    if v[0] == 'agg' and v[1].endswith('borrow::Cow') and v[3]:
        return strip(v[3][0][1])
    if v[0] == 'call' and v[1].endswith(('From::from', 'Into::into')) and v[2]:
        return strip(v[2][0])
    return None


INFEASIBLE = ('infeasible',)


def _peel_ok(t):
    """`(Ok(v) as Ok).0` / `Ok(v)?` -> v  (the result of a virtually inlined fallible helper, along one path)"""
    while isinstance(t, tuple) and t:
        t = strip(t)
        if t[0] == 'field' and t[2] == '0' and strip(t[1])[0] == 'downcast' and strip(t[1])[2] in ('Ok', 'Some', 'Continue'):
            inner = strip(strip(t[1])[1])
            if inner[0] == 'call' and inner[1].endswith('Try::branch') and inner[2]:
                inner = strip(inner[2][0])
            if inner[0] == 'agg' and inner[2] in ('Ok', 'Some', 'Continue') and inner[3]:
                t = inner[3][0][1]
                continue
            if (inner[0] == 'agg' and inner[2] in ('Err', 'None', 'Break')) or (inner[0] == 'call' and inner[1].endswith('FromResidual::from_residual')):
                return INFEASIBLE   # the path took the error return of an inlined helper and then its caller's Ok arm
        if t[0] == 'try' and strip(t[1])[0] == 'agg' and strip(t[1])[2] == 'Ok' and strip(t[1])[3]:
            t = strip(t[1])[3][0][1]
            continue
        if t[0] == 'try' and ((strip(t[1])[0] == 'agg' and strip(t[1])[2] in ('Err', 'None')) or (strip(t[1])[0] == 'call' and strip(t[1])[1].endswith('FromResidual::from_residual'))):
            return INFEASIBLE
        if t[0] == 'call' and t[1].endswith('FromResidual::from_residual'):
            return INFEASIBLE
        break
    return t


def encoder_rows(F, fn):
    """{variant-selector: [rows]} over the success paths of an encoder"""
    from absint import resolve_phis
    out = {}
    unknown = []
    multi = {l for l, ds in fn.defs().items() if len([d for d in ds if not d[-1]]) >= 2}
    loops = array_loops(fn)
    for path in enumerate_paths(fn):
        if not is_success_path(fn, path):
            continue
        env = {}
        for b in path:
            for l, t in fn.defs_in_block(b):
                if l in multi:
                    env[l] = t
        base = _peel_ok(_owned_payload(resolve_phis(fn.local_term_in_env(0, env), env)))
        if base is INFEASIBLE:
            continue
        fresh = base is not None and base[0] == 'call' and base[1].endswith(('Vec::<T>::new', 'Vec::<T>::with_capacity', 'Default::default'))
        rows = []
        if base is not None and not fresh:
            rows.extend(bytes_layout(F, fn, base))

        def on_output(t):
            return not fresh or paths.mentions_call(t, base[3])
        for b in path:
            c = fn.call_at(b)
            if c is None:
                continue
            n = c.callee
            if n.endswith('Vec::<T, A>::push') and on_output(c.arg_term(0)):
                v = strip(c.arg_term(1))
                if v[0] == 'const':
                    rows.append(('tag', 1, v[2]))
                else:
                    rows.append((field_path(v), 1, '-'))
            elif n.endswith('Vec::<T, A>::extend_from_slice') and on_output(c.arg_term(0)):
                nb = _loop_element(c.arg_term(1), loops)
                if nb is not None:
                    for el in loops[nb][0]:
                        rows.extend(bytes_layout(F, fn, _subst_element(c.arg_term(1), nb, el)))
                else:
                    rows.extend(bytes_layout(F, fn, c.arg_term(1)))
            elif n.endswith('RoaringBitmap>::serialize_into') and on_output(c.arg_term(1)):
                rows.append((field_path(c.arg_term(0)), 'roaring', 'portable'))
            elif n.endswith(('Vec::<T, A>::extend', 'Extend::extend')) and len(c.args) == 2 and on_output(c.arg_term(0)) \
                    and not any(str(r[0]).startswith('?') for r in bytes_layout(F, fn, c.arg_term(1))):
                rows.extend(bytes_layout(F, fn, c.arg_term(1)))
            elif n.endswith(('Vec::<T, A>::extend', 'Vec::<T, A>::insert', 'Vec::<T, A>::append', 'Vec::<T, A>::resize', 'Write::write_all', 'Vec::<T, A>::extend_from_within',
                             'Extend::extend', 'Vec::<T, A>::truncate', 'Vec::<T, A>::pop', 'Vec::<T, A>::remove', 'Vec::<T, A>::clear')) and c.args and on_output(c.arg_term(0)):
                unknown.append(c)
                rows.append(('?' + short(n), '?', '?'))
        sel = tuple(path_variant(F, fn, path))
        out.setdefault(sel, rows)
        if out[sel] != rows:
            out[sel + (('alt', len(out)),)] = rows
    return out, unknown


def _dst_offset(F, fn, t, depth=0):
    """offset (int) of a mutable sub-slice term inside the array it was carved from, or None"""
    t0 = strip(t)
    while t0[0] == 'cast':
        t0 = strip(t0[2])
    if depth > 8:
        return None
    if t0[0] in ('repeat', 'array', 'var', 'phi', 'arg'):
        return 0
    if t0[0] == 'call' and t0[1].endswith(('IndexMut::index_mut', 'Index::index')) and len(t0[2]) == 2:
        base = _dst_offset(F, fn, t0[2][0], depth + 1)
        r = strip(t0[2][1])
        if base is None or r[0] != 'agg':
            return None
        if r[1].endswith(('RangeFrom', 'ops::Range')):
            st = sizeof_value(F, fn, dict(r[3])['start'])
            return base + st if isinstance(st, int) else None
        if r[1].endswith(('RangeTo', 'RangeFull', 'RangeToInclusive')):
            return base
        return None
    if t0[0] == 'field' and t0[2] in ('0', '1') and strip(t0[1])[0] == 'call' and strip(t0[1])[1].endswith(('split_at_mut', 'split_at')):
        sc = strip(t0[1])
        base = _dst_offset(F, fn, sc[2][0], depth + 1)
        k = sizeof_value(F, fn, sc[2][1])
        if base is None or not isinstance(k, int):
            return None
        return base + (k if t0[2] == '1' else 0)
    if t0[0] == 'call' and t0[2] and t0[1].endswith(('DerefMut::deref_mut', 'Deref::deref', 'as_mut_slice', 'as_mut', 'AsMut::as_mut', 'BorrowMut::borrow_mut')):
        return _dst_offset(F, fn, t0[2][0], depth + 1)
    return None


def array_store_rows(F, fn, local=None):
    """a byte array filled in place: `a[k] = x`, `a[r].copy_from_slice(&y.to_be_bytes())` -> [(offset, what, width, endian)]"""
    rows = []
    for blk in fn.blocks:
        if blk['cleanup']:
            continue
        for st in blk['stmts']:
            p = st['place']
            through_ref = None
            if local is None and len(p['p']) == 2 and p['p'][0]['k'] == 'deref' and p['p'][1]['k'] in ('cindex', 'index'):
                # `sub[k] = x` with `sub` a mutable sub-slice of the array (split_at_mut / index_mut)
                through_ref = _dst_offset(F, fn, fn.local_term(p['l']))
            if through_ref is not None:
                last = p['p'][-1]
                if last['k'] == 'cindex':
                    off = last['o']
                else:
                    it = strip(fn.local_term(last['l']))
                    off = it[2] if it[0] == 'const' else None
                src = fn.term(st['rv']['o']) if st['rv']['k'] == 'use' else fn._def_term(('assign', 0, 0, st['rv'], []), 0, frozenset())
                rows.append((through_ref + off if off is not None else None, field_path(src), 1, '-'))
                continue
            if p['p'] and p['p'][-1]['k'] in ('cindex', 'index') and len(p['p']) == 1 and (p['l'] == local if local is not None else fn.local_name(p['l']) is not None):
                off = None
                if p['p'][-1]['k'] == 'cindex':
                    off = p['p'][-1]['o']
                else:
                    it = strip(fn.local_term(p['p'][-1]['l']))
                    if it[0] == 'const':
                        off = it[2]
                src = fn.term(st['rv']['o']) if st['rv']['k'] == 'use' else fn._def_term(('assign', 0, 0, st['rv'], []), 0, frozenset())
                rows.append((off, field_path(src), 1, '-'))
    for c in fn.calls():
        if c.callee.endswith('copy_from_slice'):
            dst = strip(c.arg_term(0))
            src = strip(c.arg_term(1))
            while src[0] == 'cast':
                src = strip(src[2])
            off = None
            if not (dst[0] == 'call' and dst[1].endswith('index_mut')) and local is None:
                off = _dst_offset(F, fn, dst)
            if dst[0] == 'call' and dst[1].endswith('index_mut'):
                base = strip(dst[2][0])
                if local is not None and not (base[0] in ('var', 'phi', 'repeat') and base[1] == local):
                    if not any(x[0] in ('var', 'phi') and x[1] == local for x in walk(base)):
                        continue
                r = strip(dst[2][1])
                if r[0] == 'agg' and r[1].endswith(('RangeFrom', 'ops::Range')):
                    off = sizeof_value(F, fn, dict(r[3])['start'])
                elif r[0] == 'agg' and r[1].endswith(('RangeTo', 'RangeFull', 'RangeToInclusive')):
                    off = 0
            elif local is not None:
                continue
            if src[0] == 'call' and src[1].endswith(('to_be_bytes', 'to_le_bytes', 'to_ne_bytes')):
                rows.append((off, field_path(src[2][0]), INT_W.get(impl_int(src[1]), '?'), _endian(src[1])))
            else:
                rows.append((off, '?' + show(src), '?', '?'))
    return rows


def nodeid_to_bytes_rows(F, fn):
    """NodeId::to_bytes: array stores -> [(offset, what, width, endian)]"""
    rows = array_store_rows(F, fn)
    if not rows:
        # `[self.mode as u8, b0, b1, b2, b3]` with `let [b0, b1, b2, b3] = self.item.to_be_bytes()`
        for b, k, t in paths.ret_assigns(fn):
            a = strip(t)
            if a[0] != 'array':
                continue
            off = 0
            for what, w, en in byte_array_rows(a[1]):
                rows.append((off, what, w, en if w != 1 else '-'))
                off += w if isinstance(w, int) else 1
    rows.sort(key=lambda r: (r[0] is None, r[0]))
    size = None
    rt = fn.ret_ty()
    m = re.match(r'\[u8; (\d+)\]', rt)
    if m:
        size = int(m.group(1))
    else:
        for b, k, t in paths.ret_assigns(fn):
            a = strip(t)
            if a[0] == 'array':
                size = len(a[1])
    return rows, size


# ----------------------------------------------------------------------------- decoders
_CURSORS = {}


def cursor_states(F, fn):
    """Flow-sensitive offsets of *cursor* locals: a `&[u8]` local that is advanced in place, directly (`cur = &cur[4..]`) or
    through a `&mut &[u8]` alias (`*c = &c[4..]` in a virtually inlined helper).  {local: {block: addends when the block's
    terminator runs}}; computed by one forward pass in reverse post-order (joins with different offsets give '?join')."""
    key = id(fn)
    if key in _CURSORS:
        return _CURSORS[key]
    states = {}
    _CURSORS[key] = states
    # mutable aliases: r = &mut L | &mut *r' | move r'
    pts = {}
    changed = True
    while changed:
        changed = False
        for l, ds in fn.defs().items():
            whole = [d for d in ds if not d[-1]]
            if l in pts or len(whole) != 1 or whole[0][0] != 'assign':
                continue
            rv = whole[0][3]
            tgt = None
            if rv['k'] == 'ref' and rv.get('mut'):
                pl = rv['place']
                if not pl['p']:
                    tgt = pl['l']
                elif len(pl['p']) == 1 and pl['p'][0]['k'] == 'deref' and pl['l'] in pts:
                    tgt = pts[pl['l']]
            elif rv['k'] == 'use' and rv['o'].get('k') in ('move', 'copy') and not rv['o']['place']['p'] and rv['o']['place']['l'] in pts:
                tgt = pts[rv['o']['place']['l']]
            if tgt is not None and '[u8]' in fn.local_ty(tgt) and fn.local_ty(tgt).startswith('&'):
                pts[l] = tgt
                changed = True
    cursors = set(pts.values())
    # locals re-assigned directly more than once count as cursors too
    for l, ds in fn.defs().items():
        ty = fn.local_ty(l)
        if ty.startswith('&') and ty.endswith('[u8]') and len([d for d in ds if not d[-1]]) > 1:
            cursors.add(l)
    if not cursors:
        return states
    for l in cursors:
        states[l] = {}
    states['alias'] = pts
    # reverse post-order over the non-cleanup CFG
    order = []
    seen = set()

    def dfs(b):
        stack = [(b, iter(fn.succ(b)))]
        seen.add(b)
        while stack:
            node, it = stack[-1]
            adv = False
            for x in it:
                if x not in seen and not fn.blocks[x]['cleanup']:
                    seen.add(x)
                    stack.append((x, iter(fn.succ(x))))
                    adv = True
                    break
            if not adv:
                order.append(node)
                stack.pop()
    dfs(0)
    order.reverse()
    entry = {0: {l: None for l in cursors}}
    for b in order:
        cur = dict(entry.get(b, {l: None for l in cursors}))
        for l in cursors:
            states[l][b] = cur.get(l)  # provisional (value at block entry) so that rvalues of this block can be evaluated
        blk = fn.blocks[b]
        for st in blk['stmts']:
            pl = st['place']
            tgt = None
            if not pl['p'] and pl['l'] in cursors:
                tgt = pl['l']
            elif len(pl['p']) == 1 and pl['p'][0]['k'] == 'deref' and pl['l'] in pts:
                tgt = pts[pl['l']]
            if tgt is None:
                continue
            rv = st['rv']
            term = None
            if rv['k'] == 'use':
                term = fn.term(rv['o'])
            elif rv['k'] == 'ref':
                term = fn.place_term(rv['place'])
            off = slice_offset(F, fn, term, 0, b) if term is not None else ['?write']
            cur[tgt] = tuple(off)
            states[tgt][b] = cur[tgt]
        t = blk['term']
        if t['k'] == 'call' and not t['dest']['p'] and t['dest']['l'] in cursors:
            # cur = cur.index(k..) / split_at(..).1 ... : evaluated from the call term itself at this block
            term = fn.local_term(t['dest']['l']) if False else None
            cur[t['dest']['l']] = ('?call-def',)
        for l in cursors:
            states[l][b] = cur.get(l)
        for x in fn.succ(b):
            if fn.blocks[x]['cleanup']:
                continue
            if x not in entry:
                entry[x] = dict(cur)
            else:
                for l in cursors:
                    if entry[x].get(l) != cur.get(l):
                        entry[x][l] = ('?join',)
    return states


def slice_offset(F, fn, t, depth=0, at=None):
    """offset (list of addends) of a byte slice term relative to the decoder's input parameter; `at` is the block whose
    terminator consumes the slice (set while descending through call terms; used for flow-sensitive cursor locals)"""
    t0 = strip(t)
    if depth > 30:
        return ['?']
    if t0[0] == 'arg':
        return []
    if t0[0] in ('ref', 'deref'):
        return slice_offset(F, fn, t0[1], depth + 1, at)
    if t0[0] == 'var' and at is not None:
        cs = cursor_states(F, fn)
        l0 = cs.get('alias', {}).get(t0[1], t0[1])
        if l0 in cs:
            v = cs[l0].get(at)
            return list(v) if v is not None else ['?cursor-unset']
    if t0[0] == 'call':
        at = t0[3]
    if t0[0] == 'subslice':
        return slice_offset(F, fn, t0[1], depth + 1, at) + [t0[2]]
    if t0[0] == 'call' and t0[1].endswith(('Deref::deref', 'AsRef::as_ref', 'Borrow::borrow')):
        return slice_offset(F, fn, t0[2][0], depth + 1, at)
    if t0[0] == 'call' and t0[1].endswith('ops::Index::index'):
        base = t0[2][0]
        r = strip(t0[2][1])
        if r[0] == 'agg' and r[1].endswith(('RangeFrom', 'ops::Range')):
            return slice_offset(F, fn, base, depth + 1, at) + [sizeof_value(F, fn, dict(r[3])['start'])]
        if r[0] == 'agg' and r[1].endswith('RangeTo'):
            return slice_offset(F, fn, base, depth + 1, at)
        return slice_offset(F, fn, base, depth + 1, at) + ['?range']
    if t0[0] in ('field', 'tuple') and t0[0] == 'field':
        b = strip(t0[1])
        # (rest of) `x.split_first()` / `x.split_first_chunk::<N>()`
        if b[0] == 'field' and b[2] == '0' and strip(b[1])[0] == 'downcast' and strip(b[1])[2] == 'Some' and strip(strip(b[1])[1])[0] == 'call':
            sc = strip(strip(b[1])[1])
            if sc[1].endswith('<impl [T]>::split_first') and sc[2]:
                return slice_offset(F, fn, sc[2][0], depth + 1, sc[3]) + ([1] if t0[2] == '1' else [])
        if b[0] == 'call' and b[1].endswith('split_at'):
            base = slice_offset(F, fn, b[2][0], depth + 1, b[3])
            if t0[2] == '0':
                return base
            return base + [sizeof_value(F, fn, b[2][1])]
        if b[0] == 'call' and b[1].endswith('NodeId::from_bytes') and t0[2] == '1':
            g = F.fn('node_id::NodeId::from_bytes')
            adv = nodeid_from_bytes_rows(F, g)[1] if g else '?'
            return slice_offset(F, fn, b[2][0], depth + 1, b[3]) + [adv]
    if t0[0] == 'phi':
        return ['?phi']
    return ['?' + show(t0)[:40]]


def total(addends):
    n = 0
    sym = []
    for a in addends:
        if isinstance(a, int):
            n += a
        else:
            sym.append(str(a))
    return (n, tuple(sym))


READS = {'read_u16': 2, 'read_u32': 4, 'read_u64': 8, 'read_f32': 4, 'read_i32': 4}


def read_row(F, fn, t):
    """(offset, width, endian) when `t` is a scalar read from a byte slice"""
    t0 = strip(t)
    if t0[0] == 'call':
        n = t0[1]
        last = n.rsplit('::', 1)[1]
        if n.startswith('byteorder::ByteOrder::') and last in READS:
            c = fn.call_at(t0[3])
            en = 'BE' if 'BigEndian' in c.resolved else ('LE' if 'LittleEndian' in c.resolved else '?')
            return (total(slice_offset(F, fn, t0[2][0], 0, t0[3])), READS[last], en)
        if last in ('from_be_bytes', 'from_le_bytes', 'from_ne_bytes') and impl_int(n):
            en = {'from_be_bytes': 'BE', 'from_le_bytes': 'LE', 'from_ne_bytes': 'NE'}[last]
            # the [u8; N] operand: `slice.try_into().unwrap()`, `*array_ref`, ... of a slice of the input
            src = producer(t0[2][0]) if t0[2] else None
            off = ('?',)
            if src is not None:
                o = total(slice_offset(F, fn, src, 0, t0[3]))
                if not any(str(x).startswith('?') for x in o[1]):
                    off = o
            return (off, INT_W.get(impl_int(n)), en)
    return None


def decoded_fields(F, fn, agg, prefix=''):
    """leaf (field path, term) pairs of the decoded aggregate"""
    out = []
    if agg[0] == 'agg':
        for name, t in agg[3]:
            p = (prefix + '.' + name) if prefix else name
            t0 = strip(t)
            if t0[0] == 'agg' and not t0[1].startswith('std::'):
                out.extend(decoded_fields(F, fn, t0, p))
            else:
                out.append((p, t))
    return out


def nodeid_from_bytes_rows(F, fn):
    """rows of NodeId::from_bytes and the number of bytes it consumes"""
    rows = []
    adv = '?'
    for b, k, t in paths.ret_assigns(fn):
        tt = strip(t)
        if tt[0] == 'tuple' and len(tt[1]) == 2:
            node = strip(tt[1][0])
            rest = tt[1][1]
            for name, ft in decoded_fields(F, fn, node):
                rows.append((name,) + _scalar(F, fn, ft))
            off = total(slice_offset(F, fn, rest))
            adv = off[0] if not off[1] else off
    return rows, adv


UNWRAPPERS = ('::unwrap', '::expect', 'TryInto::try_into', 'TryFrom::try_from', '::to_str', '::map_err', '::into',
              '::from', 'Deref::deref', '::to_owned', '::into_owned')


def producer(t):
    """strip value-preserving wrappers down to the call / projection that produced the decoded value"""
    while True:
        t = strip(t)
        if t[0] == 'agg' and t[1].endswith('borrow::Cow') and t[3]:
            t = t[3][0][1]
        elif t[0] == 'call' and t[2] and t[1].endswith(UNWRAPPERS):
            t = t[2][0]
        elif t[0] == 'cast':
            t = t[2]
        elif t[0] == 'field' and t[2] == '0' and strip(t[1])[0] == 'downcast' and strip(t[1])[2] in ('Ok', 'Some', 'Continue'):
            t = strip(t[1])[1]
        else:
            return t


def _map_term(t, leaf):
    """rebuild a term with `leaf(sub)` applied top-down (a non-None answer replaces the sub-term)"""
    if not isinstance(t, tuple) or not t:
        return t
    r = leaf(t)
    if r is not None:
        return r
    out = []
    for x in t:
        if isinstance(x, tuple):
            out.append(_map_term(x, leaf))
        elif isinstance(x, list):
            out.append([_map_term(y, leaf) if isinstance(y, tuple) and y and isinstance(y[0], str) else
                        ((y[0], _map_term(y[1], leaf)) if isinstance(y, tuple) and len(y) == 2 and isinstance(y[1], tuple) else y) for y in x])
        else:
            out.append(x)
    return tuple(out)


def closure_call(F, fn, p):
    """`f(a, b)` with `f` a local closure: (closure fn, its return term with parameters and captures substituted), else None"""
    if not (p[0] == 'call' and p[1].endswith(('Fn::call', 'FnMut::call_mut', 'FnOnce::call_once')) and len(p[2]) == 2):
        return None
    clo = strip(p[2][0])
    while clo[0] in ('ref', 'deref'):
        clo = strip(clo[1])
    args = strip(p[2][1])
    if clo[0] != 'closure' or F.fn(clo[1]) is None or args[0] != 'tuple':
        return None
    g = F.fn(clo[1])
    rets = [t for b, k, t in paths.ret_assigns(g)]
    if len(rets) != 1:
        return None
    actual = list(args[1])
    caps = list(clo[2]) if len(clo) > 2 else []

    def leaf(x):
        if x[0] == 'arg' and isinstance(x[1], int) and x[1] >= 2 and x[1] - 2 < len(actual):
            return ('paren', actual[x[1] - 2])
        if x[0] == 'field' and isinstance(x[2], str) and x[2].isdigit():
            b = strip(x[1])
            if b[0] == 'arg' and b[1] == 1 and int(x[2]) < len(caps):
                return ('paren', caps[int(x[2])])
        return None
    body = _map_term(rets[0], leaf)
    # drop the protective wrappers again (they only kept substituted terms from being substituted twice)
    body = _map_term(body, lambda x: _map_term(x[1], lambda y: None) if x[0] == 'paren' else None)
    return g, body


def _scalar(F, fn, t):
    """(offset, width, endian) for a decoded leaf field"""
    p = producer(t)
    cc = closure_call(F, fn, p)
    if cc is not None:
        return _scalar(F, cc[0], cc[1])
    r = read_row(F, fn, p)
    if r:
        return r
    if p[0] == 'call':
        n = p[1]
        if n.endswith('pod_read_unaligned'):
            return (total(slice_offset(F, fn, p[2][0], 0, p[3])), 'H', 'pod-native')
        if n.endswith('UnalignedVector::<Codec>::from_bytes'):
            return (total(slice_offset(F, fn, p[2][0], 0, p[3])), 'vector', 'raw')
        if n.endswith(('RoaringBitmap>::deserialize_from', 'RoaringBitmap>::deserialize_unchecked_from')):
            return (total(slice_offset(F, fn, p[2][0], 0, p[3])), 'roaring', 'portable' if n.endswith('deserialize_from') else 'portable-unchecked')
        if n.endswith('ItemIds::<\'a>::from_bytes') or n.endswith('ItemIds::from_bytes'):
            return (total(slice_offset(F, fn, p[2][0], 0, p[3])), 'u32*', 'raw-native')
        if n.endswith('from_bytes_until_nul'):
            return (total(slice_offset(F, fn, p[2][0], 0, p[3])), 'str', 'raw')
    if p[0] == 'field' and strip(p[1])[0] == 'call' and strip(p[1])[1].endswith('NodeId::from_bytes') and p[2] == '0':
        return (total(slice_offset(F, fn, strip(p[1])[2][0], 0, strip(p[1])[3])), 'NodeId', 'nodeid')
    if p[0] == 'cindex':
        base = strip(p[1])
        if base[0] in ('array', 'repeat', 'var', 'phi') and not (base[0] in ('var', 'phi') and '[u8' in fn.local_ty(base[1])):
            fill = array_fill_loop(F, fn)
            if fill is not None and p[2] in fill:
                return fill[p[2]]
        return (total(slice_offset(F, fn, p[1]) + [p[2]]), 1, '-')
    if p[0] == 'index':
        it = strip(fn.local_term(p[2]))
        return (total(slice_offset(F, fn, p[1]) + [it[2] if it[0] == 'const' else '?idx']), 1, '-')
    if p[0] == 'const':
        return (('const',), 0, str(p[2]))
    return (('?' + show(p)[:50],), '?', '?')


def array_fill_loop(F, fn):
    """`for x in arr.iter_mut() { *x = read(cursor); cursor = &cursor[K..]; }`: {element index: (offset, width, endian)}"""
    for c in fn.calls():
        if not c.callee.endswith('Iterator::next') or not c.args:
            continue
        im = [x for x in walk(c.arg_term(0)) if x[0] == 'call' and x[1].endswith('<impl [T]>::iter_mut')]
        if not im:
            continue
        imc = fn.call_at(im[0][3])
        # the array behind the &mut [T] handed to iter_mut
        n = None
        a0 = imc.args[0]
        if a0.get('k') in ('copy', 'move'):
            l = a0['place']['l']
            for _ in range(4):
                ds = [d for d in fn.defs().get(l, []) if not d[-1]]
                if len(ds) == 1 and ds[0][0] == 'assign' and ds[0][3]['k'] in ('ref', 'cast', 'use'):
                    rv = ds[0][3]
                    src = rv.get('place') or (rv.get('a') or rv.get('o') or {}).get('place')
                    if not src:
                        break
                    l = src['l']
                    m = re.match(r'\[\w+; (\d+)\]$', fn.local_ty(l))
                    if m:
                        n = int(m.group(1))
                        break
                else:
                    break
        if n is None:
            continue
        # `*elem = read(cursor)` inside the loop
        for bi, blk in enumerate(fn.blocks):
            if blk['cleanup']:
                continue
            for st in blk['stmts']:
                pl = st['place']
                from_next = paths.mentions_call(fn.local_term(pl['l']), c.bb) or any(
                    d[0] == 'assign' and d[3]['k'] == 'use' and d[3]['o'].get('k') in ('copy', 'move') and d[3]['o']['place']['l'] == c.dest['l']
                    for d in fn.defs().get(pl['l'], []))
                if len(pl['p']) == 1 and pl['p'][0]['k'] == 'deref' and from_next and st['rv']['k'] == 'use':
                    val = producer(fn.term(st['rv']['o']))
                    if val[0] != 'call' or not val[2]:
                        continue
                    last = val[1].rsplit('::', 1)[1]
                    if not (val[1].startswith('byteorder::ByteOrder::') and last in READS):
                        continue
                    rc = fn.call_at(val[3])
                    en = 'BE' if 'BigEndian' in rc.resolved else ('LE' if 'LittleEndian' in rc.resolved else '?')
                    cur = strip(val[2][0])
                    if cur[0] != 'phi' or len(cur[2]) != 2:
                        continue
                    step = init = None
                    for alt in cur[2]:
                        a = strip(alt)
                        if a[0] == 'call' and a[1].endswith('ops::Index::index') and strip(a[2][1])[0] == 'agg' and strip(a[2][1])[1].endswith('RangeFrom') \
                                and strip(a[2][0])[0] in ('phi', 'var') and strip(a[2][0])[1] == cur[1]:
                            step = sizeof_value(F, fn, dict(strip(a[2][1])[3])['start'])
                        else:
                            init = alt
                    if isinstance(step, int) and init is not None:
                        base = slice_offset(F, fn, init)
                        return {i: (total(base + [i * step]), READS[last], en) for i in range(n)}
    return None


def tag_of_return(fn, b):
    """value of the leading tag byte selecting the return in block b (slice-pattern match on the input)"""
    for s in paths.controlling_switches(fn, b):
        sw = paths.switch_at(fn, s)
        d = strip(fn.term(sw['discr']))
        first = d[0] == 'cindex' and d[2] == 0 and strip(d[1])[0] == 'arg'
        if d[0] == 'field' and d[2] == '0' and strip(d[1])[0] == 'field' and strip(d[1])[2] == '0' and strip(strip(d[1])[1])[0] == 'downcast':
            sc = strip(strip(strip(d[1])[1])[1])
            first = sc[0] == 'call' and sc[1].endswith(('<impl [T]>::split_first', '<impl [T]>::first')) and sc[2] and strip(sc[2][0])[0] == 'arg'
        if d[0] == 'downcast' and d[2] == 'Some' and strip(d[1])[0] == 'call' and strip(d[1])[1].endswith('<impl [T]>::first'):
            first = strip(strip(d[1])[2][0])[0] == 'arg'
        if first:
            for x in fn.succ(s):
                if b in fn.reachable(x):
                    e = paths.edge_cond(fn, s, x)
                    if e and e[0] == 'disc' and e[2]:
                        return e[2][0]
    return None


def decoder_rows(F, fn):
    """{ok-return ordinal: [(field, offset, width, endian)]}"""
    out = []
    rets = []
    for b, k, t in paths.ret_assigns(fn):
        if k == 'ok':
            rets.append((b, strip(dict(t[3])['0'])))
        elif k == 'call' and strip(t)[1].endswith('result::Result::<T, E>::map') and len(strip(t)[2]) == 2:
            # `decode_x(payload).map(Node::X)`: the Ok alternatives of the inner result wrapped by the variant constructor
            inner, ctor = strip(strip(t)[2][0]), strip(strip(t)[2][1])
            alts = inner[2] if inner[0] == 'phi' else [inner]
            cname = ctor[1] if ctor[0] in ('fn', 'ctor', 'const') and isinstance(ctor[1], str) else None
            if cname is None:
                continue
            adt, var = cname.rsplit('::', 1)
            for a in alts:
                a0 = strip(a)
                if a0[0] == 'agg' and a0[1].endswith('result::Result') and a0[2] == 'Ok':
                    rets.append((b, ('agg', adt, var, [('0', dict(a0[3])['0'])])))
    for b, payload in rets:
        if payload[0] == 'call' and payload[1] == 'key::Key::new' and len(payload[2]) == 2:
            payload = ('agg', 'key::Key', 'Key', [('index', payload[2][0]), ('node', payload[2][1]), ('_padding', ('const', 'u8', 0))])
        rows = []
        for name, ft in decoded_fields(F, fn, payload):
            rows.append((name,) + _scalar(F, fn, ft) + (ft,))
        out.append((b, payload, rows))
    return out


# ----------------------------------------------------------------------------- rule helpers
def norm_row(r):
    r = tuple(r)
    if len(r) == 3 and r[1] == 1 and r[0] != 'tag':
        return (r[0], 1, '-')
    return r


def expand_nodeid(rows, F):
    """replace (field, 'NodeId', 'nodeid') rows by the rows of NodeId::to_bytes prefixed with the field path"""
    tb = F.fn('node_id::NodeId::to_bytes')
    sub = nodeid_to_bytes_rows(F, tb)[0] if tb is not None else []
    out = []
    for r in rows:
        r = tuple(r)
        if len(r) == 3 and r[1] == 'NodeId':
            for off, what, w, en in sub:
                out.append(norm_row(('%s.%s' % (r[0], what), w, en)))
        else:
            out.append(norm_row(r))
    return out


def find_codec(F, trait, selfty):
    for p, f in F.fns.items():
        if p.startswith('<%s as heed::%s<' % (selfty, trait)) and p.endswith('>::bytes_%s' % ('encode' if trait == 'BytesEncode' else 'decode')):
            return f
    return None


def check_key_encoder(ctx, rule):
    F = ctx.F
    ref = reference()
    f = find_codec(F, 'BytesEncode', 'key::KeyCodec')
    if not ctx.need(f is not None, rule, 'KeyCodec::bytes_encode'):
        return None
    enc, unk = encoder_rows(F, f)
    want = [norm_row(r) for r in ref['key']]
    got = [expand_nodeid(rows, F) for rows in enc.values()]
    ok = len(got) == 1 and [tuple(r) for r in got[0]] == want and not unk
    ctx.check(ok, rule, 'KeyCodec/encode', f.loc(), 'rows %s' % want,
              'KeyCodec::bytes_encode writes %s; the reference layout is %s' % (got, want))
    return got[0] if got else None


def check_prefix_agrees(ctx, rule):
    """PrefixCodec emits the same leading bytes as KeyCodec (index BE, then kind)"""
    F = ctx.F
    ref = reference()
    f = find_codec(F, 'BytesEncode', 'key::PrefixCodec')
    if not ctx.need(f is not None, rule, 'PrefixCodec::bytes_encode'):
        return
    enc, unk = encoder_rows(F, f)
    key = [norm_row(r) for r in ref['key']]
    variants = set()
    for rows in enc.values():
        rows = [tuple(r) for r in rows]
        if any(str(r[2]).endswith('opt') for r in rows):
            # a trailing byte written from an `Option` (zero or one byte): both lengths occur
            variants.add(tuple(r for r in rows if not str(r[2]).endswith('opt')))
            variants.add(tuple((r[0], r[1], str(r[2])[:-3] or '-') if str(r[2]).endswith('opt') else r for r in rows))
        else:
            variants.add(tuple(rows))
    variants = sorted(variants, key=len)
    want_short = (key[0],)
    want_long = (key[0], ('mode', key[1][1], key[1][2]))
    norm = []
    for v in variants:
        norm.append(tuple((('mode' if w.endswith('mode') or w.endswith('0') else w), wd, en) for (w, wd, en) in v))
    ok = not unk and len(norm) == 2 and norm[0] == want_short and norm[1] == want_long
    ctx.check(ok, rule, 'PrefixCodec/encode', f.loc(), 'prefix = index(2,BE) [+ kind(1)]: the leading bytes of a key',
              'PrefixCodec::bytes_encode writes %s, which is not a prefix of the key layout %s: a prefix scan would not be confined to one index/kind' % (norm, key[:2]))
