"""Offline setup: build the extractor and warm the dependency cache (cargo check of /repo's deps under nightly)."""
import os
import sys
sys.path.insert(0, os.path.dirname(os.path.abspath(__file__)))
import extract

extract.build_driver()
for cfg in ('default',):
    f = extract.extract(cfg)
    print('setup: %s -> %d bodies in %.1fs' % (cfg, len(f['fns']), f['extract_s']))
