"""Premises shared by the properties that talk about "a built index" / "a committed version".

Several statements are conditional on the forest the writer maintains (C01) and on the staleness protocol that keeps a
reader from being served a forest that does not describe the items (C06).  A change that breaks one of those premises
breaks the dependent property as well, so the dependent checks re-evaluate the premise rules (same fact base, cheap)
instead of assuming them."""


def forest(ctx):
    """C01's forest disciplines + C06's staleness protocol, once per check context"""
    if getattr(ctx, '_premise_forest', None) is ctx.F:
        return
    ctx._premise_forest = ctx.F
    from props import C01, C06
    C01.rules(ctx)
    C06.rules(ctx)
