"""Premises shared by the properties that talk about "a built index" / "a committed version".

Several statements are conditional on the forest the writer maintains (C01) and on the staleness protocol that keeps a
reader from being served a forest that does not describe the items (C06).  A change that breaks one of those premises
breaks the dependent property as well, so the dependent checks re-evaluate the premise rules (same fact base, cheap)
instead of assuming them."""


def forest(ctx):
    """C01's forest disciplines + C06's staleness protocol + C18's metric-change clauses, once per check context"""
    if getattr(ctx, '_premise_forest', None) is ctx.F:
        return
    ctx._premise_forest = ctx.F
    from props import C01, C06, C18
    C01.rules(ctx)
    C06.rules(ctx)
    # a metric change is one of the operations of a history: asking for the same metric must change nothing, another metric
    # must wipe the forest and the metadata (otherwise a committed version serves items no tree reaches)
    if ctx.prop != 'C18':
        C18.rules(ctx)
