"""Checker self-validation: run a property's rules on scratch copies of /repo with one
single-point edit each (mutants must be detected by the named rule; refactors must stay silent).

  python3 sa/selftest.py [--jobs N] [name-substring ...]

Catalogue: mutants/*.json   {"file","old","new", "expect":[["C06","R-MARK"],..], "kind":"mutant"|"refactor", "note"}
Scratch copies live under $TMPDIR and are removed immediately after analysis."""
import importlib
import json
import os
import shutil
import sys
import tempfile
import glob
import time
from concurrent.futures import ThreadPoolExecutor

VERIF = os.path.dirname(os.path.dirname(os.path.abspath(__file__)))
sys.path.insert(0, os.path.join(VERIF, 'sa'))
import extract  # noqa
import engine  # noqa
from facts import Facts  # noqa


def scratch_copy(repo='/repo'):
    d = tempfile.mkdtemp(prefix='arroy-mut-')
    for name in ('src', 'Cargo.toml', 'Cargo.lock', 'examples', 'assets'):
        s = os.path.join(repo, name)
        if os.path.isdir(s):
            shutil.copytree(s, os.path.join(d, name))
        elif os.path.exists(s):
            shutil.copy(s, os.path.join(d, name))
    return d


def apply_edit(d, m):
    edits = m.get('edits') or [m]
    for e in edits:
        p = os.path.join(d, e['file'])
        s = open(p).read()
        if 'regex' in e:
            import re
            s2, cnt = re.subn(e['regex'], e['new'], s)
            if cnt == 0:
                raise RuntimeError('regex edit matches nothing in %s: %r' % (e['file'], e['regex']))
            open(p, 'w').write(s2)
            continue
        cnt = s.count(e['old'])
        if cnt != 1 and not e.get('all'):
            raise RuntimeError('edit anchor matches %d times in %s: %r' % (cnt, e['file'], e['old'][:60]))
        s = s.replace(e['old'], e['new'])
        open(p, 'w').write(s)


def scratch_facts(d):
    """facts of a scratch copy; cached by the content hash of its sources (scratch copies only, never /repo itself)"""
    import hashlib
    import gzip
    h = hashlib.sha256()
    for root_, _dirs, files in sorted(os.walk(os.path.join(d, 'src'))):
        for fn in sorted(files):
            p = os.path.join(root_, fn)
            h.update(os.path.relpath(p, d).encode())
            h.update(open(p, 'rb').read())
    for fn in ('Cargo.toml', 'Cargo.lock'):
        if os.path.exists(os.path.join(d, fn)):
            h.update(open(os.path.join(d, fn), 'rb').read())
    h.update(open(os.path.join(VERIF, 'driver', 'src', 'main.rs'), 'rb').read())
    cdir = os.path.join(VERIF, '.cache', 'scratch-facts')
    os.makedirs(cdir, exist_ok=True)
    cp = os.path.join(cdir, h.hexdigest()[:32] + '.json.gz')
    if os.path.exists(cp):
        try:
            return Facts.build(json.load(gzip.open(cp, 'rt')))
        except Exception:
            pass
    j = extract.extract('default', repo=d, manifest_dir=d)
    try:
        json.dump(j, gzip.open(cp, 'wt'))
    except Exception:
        pass
    return Facts.build(j)


def violations_for(prop, F, cfg='default'):
    mod = importlib.import_module('props.' + prop)
    ctx = engine.Ctx(prop, 'quick', {cfg: F})
    ctx.F = F
    ctx.config = cfg
    import rules
    rules.set_facts(F)
    mod.run(ctx)
    return [o for o in ctx.obligations if o['status'] == 'violation']


_base = {}


def baseline(prop):
    if prop not in _base:
        if 'F' not in _base:
            _base['F'] = Facts.build(extract.extract('default'))
        _base[prop] = {v['key'] for v in violations_for(prop, _base['F'])}
    return _base[prop]


def run_one(path):
    m = json.load(open(path))
    name = os.path.basename(path)[:-5]
    d = scratch_copy()
    try:
        try:
            apply_edit(d, m)
        except RuntimeError as e:
            return name, 'STALE-ANCHOR', str(e)[:160]
        try:
            F = scratch_facts(d)
        except extract.ExtractError as e:
            return name, 'BROKEN-MUTANT', str(e)[-600:]
    finally:
        shutil.rmtree(d, ignore_errors=True)
    res = []
    okall = True
    props = sorted({e[0] for e in m.get('expect', [])} | set(m.get('silent', [])))
    if m.get('kind') == 'refactor' and not props:
        props = ['C%02d' % i for i in range(1, 21) if os.path.exists(os.path.join(VERIF, 'sa', 'props', 'C%02d.py' % i))]
    for prop in props:
        vs = [v for v in violations_for(prop, F) if v['key'] not in baseline(prop)]
        rules = {v['rule'] for v in vs}
        want = {e[1] for e in m.get('expect', []) if e[0] == prop}
        if m.get('kind') == 'refactor' or prop in m.get('silent', []):
            if vs:
                okall = False
                res.append('%s FALSE-ALARM %s' % (prop, sorted(v['key'] for v in vs)[:3]))
            else:
                res.append('%s silent' % prop)
        else:
            if want & rules or ((not want or want == {'*'}) and vs):
                res.append('%s detected by %s' % (prop, sorted(rules)))
            else:
                okall = False
                res.append('%s MISSED (wanted %s, fired %s)' % (prop, sorted(want), sorted(rules)))
    return name, 'ok' if okall else 'FAIL', '; '.join(res)


def _audit_item(args):
    """(kind, path, prop) -> (name, verdict, fired rules) on a scratch copy of the current tree"""
    import subprocess
    kind, path, prop, repo = args
    name = os.path.basename(path)[:-5] if kind == 'mutant' else (('refactors/' + os.path.basename(path)) if kind == 'diff' else os.path.basename(path))
    try:
        d = scratch_copy(repo)
        try:
            if kind == 'mutant':
                m = json.load(open(path))
                try:
                    apply_edit(d, m)
                except RuntimeError:
                    return name, 'skipped', []
            else:
                diff = path if kind == 'diff' else os.path.join(path, 'patch.diff')
                r = subprocess.run(['patch', '-p1', '-s', '-f', '-i', diff], cwd=d, capture_output=True, text=True)
                if r.returncode != 0:
                    return name, 'skipped', []
            try:
                F = scratch_facts(d)
            except extract.ExtractError:
                return name, 'skipped', []
        finally:
            shutil.rmtree(d, ignore_errors=True)
        vs = [v for v in violations_for(prop, F) if v['key'] not in _AUDIT_BASE[prop]]
        return name, 'fired' if vs else 'silent', sorted({v['rule'] for v in vs})
    except Exception as e:
        return name, 'crash:' + repr(e)[:200], []


_AUDIT_BASE = {}


def audit_for(prop, repo='/repo', limit=None, jobs=None):
    """Self-audit used by the thorough tier: every catalogue mutant that names `prop` and every kept seed of `prop`
    must be detected on a scratch copy of the current tree, every catalogue refactor and every stored refactoring diff
    must stay silent.  Entries whose edit anchor no longer matches the current tree are skipped (not failed)."""
    import multiprocessing
    out = {'mutants_detected': 0, 'mutants_missed': [], 'refactors_silent': 0, 'refactor_alarms': [], 'seeds_detected': 0, 'seeds_missed': [],
           'skipped': [], 'entries': []}
    _AUDIT_BASE[prop] = {v['key'] for v in violations_for(prop, Facts.build(extract.extract('default', repo=repo)))}
    items = []
    meta = {}
    for path in sorted(glob.glob(os.path.join(VERIF, 'mutants', '*.json'))):
        m = json.load(open(path))
        is_ref = m.get('kind') == 'refactor'
        if not is_ref and not any(e[0] == prop for e in m.get('expect', [])):
            continue
        items.append(('mutant', path, prop, repo))
        meta[os.path.basename(path)[:-5]] = ('refactor' if is_ref else 'mutant', {e[1] for e in m.get('expect', []) if e[0] == prop})
    for rd in sorted(glob.glob(os.path.join(VERIF, 'refactors', '*.diff'))):
        items.append(('diff', rd, prop, repo))
        meta['refactors/' + os.path.basename(rd)] = ('refactor', set())
    for sd in sorted(glob.glob(os.path.join(VERIF, 'seeded', prop + '-*'))):
        items.append(('seed', sd, prop, repo))
        meta[os.path.basename(sd)] = ('seed', set())
    jobs = jobs or min(12, max(2, (os.cpu_count() or 4) - 2))
    ctxm = multiprocessing.get_context('fork')
    with ctxm.Pool(jobs) as pool:
        results = pool.map(_audit_item, items)
    for name, verdict, fired in results:
        kind, want = meta[name]
        if verdict == 'skipped':
            out['skipped'].append(name)
            continue
        if verdict.startswith('crash'):
            # a crash of the rule engine on a variant counts against the audit in the stricter direction
            (out['refactor_alarms'] if kind == 'refactor' else (out['mutants_missed'] if kind == 'mutant' else out['seeds_missed'])).append(name + ' (' + verdict + ')')
            out['entries'].append(name)
            continue
        if kind == 'refactor':
            if verdict == 'fired':
                out['refactor_alarms'].append(name)
            else:
                out['refactors_silent'] += 1
        elif kind == 'mutant':
            if verdict == 'fired' and (not want or want == {'*'} or (set(fired) & want)):
                out['mutants_detected'] += 1
            else:
                out['mutants_missed'].append(name)
        else:
            if verdict == 'fired':
                out['seeds_detected'] += 1
            else:
                out['seeds_missed'].append(name)
        out['entries'].append(name)
    return out


ALL_PROPS = ['C%02d' % i for i in range(1, 21)]


def _patched_facts(diff):
    import subprocess
    d = scratch_copy()
    try:
        r = subprocess.run(['patch', '-p1', '-s', '-f', '-i', diff], cwd=d, capture_output=True, text=True)
        if r.returncode != 0:
            return None, 'DOES-NOT-APPLY'
        try:
            return scratch_facts(d), None
        except extract.ExtractError as e:
            return None, 'BROKEN ' + str(e)[-300:]
    finally:
        shutil.rmtree(d, ignore_errors=True)


def run_diff(path):
    """a stored behaviour-preserving refactoring: every property must stay silent"""
    name = 'refactors/' + os.path.basename(path)
    F, err = _patched_facts(path)
    if F is None:
        return name, 'SKIP', err
    alarms = []
    for prop in ALL_PROPS:
        vs = [v for v in violations_for(prop, F) if v['key'] not in baseline(prop)]
        if vs:
            alarms.append('%s %s' % (prop, sorted({v['rule'] for v in vs})))
    return name, 'FAIL' if alarms else 'ok', '; '.join(alarms) if alarms else 'all 20 properties silent'


def run_seed(sd):
    """a kept seeded change: the property it was written against must report it"""
    name = 'seeded/' + os.path.basename(sd)
    prop = os.path.basename(sd).split('-')[0]
    F, err = _patched_facts(os.path.join(sd, 'patch.diff'))
    if F is None:
        return name, 'SKIP', err
    vs = [v for v in violations_for(prop, F) if v['key'] not in baseline(prop)]
    if vs:
        return name, 'ok', '%s detected by %s' % (prop, sorted({v['rule'] for v in vs}))
    return name, 'FAIL', '%s MISSED' % prop


def _work(item):
    kind, path = item
    try:
        if kind == 'mutant':
            return run_one(path)
        if kind == 'diff':
            return run_diff(path)
        return run_seed(path)
    except Exception as e:  # a crash of the rule engine on a variant is a failure of the audit, not of the run
        import traceback
        return os.path.basename(path), 'CRASH', traceback.format_exc()[-400:]


def main():
    """python3 sa/selftest.py [--jobs N] [--mutants] [--diffs] [--seeds] [name-substring ...]   (default: mutants only)"""
    args = sys.argv[1:]
    jobs = 4
    if '--jobs' in args:
        i = args.index('--jobs')
        jobs = int(args[i + 1])
        del args[i:i + 2]
    kinds = {k for k in ('--mutants', '--diffs', '--seeds', '--all') if k in args}
    args = [a for a in args if not a.startswith('--')]
    if not kinds:
        kinds = {'--mutants'}
    if '--all' in kinds:
        kinds = {'--mutants', '--diffs', '--seeds'}
    items = []
    if '--mutants' in kinds:
        items += [('mutant', f) for f in sorted(glob.glob(os.path.join(VERIF, 'mutants', '*.json')))]
    if '--diffs' in kinds:
        items += [('diff', f) for f in sorted(glob.glob(os.path.join(VERIF, 'refactors', '*.diff')))]
    if '--seeds' in kinds:
        items += [('seed', d) for d in sorted(glob.glob(os.path.join(VERIF, 'seeded', 'C*-*')))]
    if args:
        items = [(k, f) for k, f in items if any(a in os.path.basename(f) for a in args)]
    # baselines are computed once here and inherited by the forked workers
    for prop in ALL_PROPS:
        baseline(prop)
    t0 = time.time()
    bad = 0
    import multiprocessing
    ctxm = multiprocessing.get_context('fork')
    with ctxm.Pool(jobs) as pool:
        for name, st, msg in pool.imap(_work, items):
            print('%-44s %-14s %s' % (name, st, msg[:400]), flush=True)
            if st not in ('ok', 'SKIP'):
                bad += 1
    print('%d entries, %d failing, %.1fs' % (len(items), bad, time.time() - t0))
    return 1 if bad else 0


if __name__ == '__main__':
    sys.exit(main())
