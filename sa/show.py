import json,sys
d=json.load(open('/verif/.cache/facts-debug.json'))
fn={f['path']:f for f in d['fns']}
def pl(p):
    s='_%d'%p['l']
    for e in p['p']:
        if e['k']=='deref': s='(*%s)'%s
        elif e['k']=='field': s+='.%s'%e['n']
        elif e['k']=='downcast': s+=' as %s'%e['n']
        elif e['k']=='cindex': s+='[%d%s]'%(e['o'],'-end' if e['from_end'] else '')
        elif e['k']=='subslice': s+='[%d..%s%d]'%(e['from'],'-' if e['from_end'] else '',e['to'])
        else: s+='[%s]'%e['k']
    return s
def op(o):
    if o['k'] in('copy','move'): return pl(o['place'])
    if o['k']=='const': return 'const '+o['c'].get('fn',o['c'].get('text',''))[:50]
    return '?'
def show(path, only_calls=False):
    f=fn[path]
    for i,b in enumerate(f['blocks']):
        if b['cleanup']: continue
        if not only_calls:
            for s in b['stmts']:
                rv=s['rv']
                if rv['k']=='use': r=op(rv['o'])
                elif rv['k']=='ref': r='&'+pl(rv['place'])
                elif rv['k']=='rawptr': r='&raw '+pl(rv['place'])
                elif rv['k']=='discr': r='discr('+pl(rv['place'])+')'
                elif rv['k']=='agg': r=rv.get('adt',rv['agg'])+'::'+rv.get('variant','')+'('+','.join(op(o) for o in rv['ops'])+')'
                elif rv['k']=='binop': r=rv['op']+'('+op(rv['a'])+','+op(rv['b'])+')'
                elif rv['k']=='cast': r='cast:'+rv['ck']+'('+op(rv['a'])+') as '+rv['ty']
                elif rv['k']=='unop': r=rv['op']+'('+op(rv['a'])+')'
                else: r=rv['k']+' '+rv.get('text','')[:60]
                print('bb%d'%i, pl(s['place']),'=',r)
        t=b['term']
        if t['k']=='call': print('bb%d'%i,'CALL',pl(t['dest']),'=',t['callee'],[op(a) for a in t['args']],'->',t['t'])
        elif t['k']=='switch': print('bb%d'%i,'SWITCH',op(t['discr']),t['targets'],t['otherwise'])
        elif t['k']=='assert': print('bb%d'%i,'ASSERT',t['kind'],t['op'],op(t['cond']),'->',t['t'])
        elif not only_calls: print('bb%d'%i,t['k'],t.get('t'))
for p in sys.argv[1:]:
    m=[k for k in fn if p in k]
    for k in m:
        print('=====',k); show(k)
