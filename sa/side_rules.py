"""Sign agreement of Distance::side and Distance::pq_distance (A7), margin forwarding, random split <=> zero normal."""
import absint
import paths
from facts import strip, show, walk, short, const_eval
from rules import root, sp


def side_bodies(F):
    """the default `side` / `pq_distance` plus every override among the Distance impls"""
    out = {'side': [], 'pq_distance': []}
    for name in out:
        d = F.fns.get('distance::Distance::' + name)
        if d is not None:
            out[name].append(d)
        for p, f in F.fns.items():
            if p.endswith(' as distance::Distance>::' + name):
                out[name].append(f)
    return out


def margin_term_key(f):
    """text of the margin term inside `side` (call to margin_no_header / margin)"""
    for c in f.calls():
        if c.callee.endswith(('Distance::margin_no_header', 'Distance::margin')):
            t = ('call', c.callee, [c.arg_term(i) for i in range(len(c.args))], c.bb)
            return show(strip(t)), c
    return None, None


def side_table(f):
    """{margin sign: set of outcomes} with outcome in 'Left' / 'Right' / 'random' / '?'"""
    key, c = margin_term_key(f)
    table = {}
    forks = []
    if key is None:
        return None, None, ['no margin computation']
    for s in absint.SIGNS:
        outs, fk = absint.explore(f, {key: s})
        forks += fk
        res = set()
        for k, t in outs:
            tt = strip(t)
            if tt[0] == 'agg' and tt[1].endswith('Side'):
                res.add(tt[2])
            elif tt[0] == 'call' and tt[1].endswith('Side::random'):
                res.add('random')
            else:
                res.add('?' + show(tt)[:40])
        table[s] = res
    return table, c, forks


def pq_table(f):
    """{(margin sign, side): set of signs of the returned priority} for a positive incoming priority"""
    # positional: pq_distance(distance: f32, margin: f32, side: Side)
    if f.arg_count != 3 or f.local_ty(1) != 'f32' or f.local_ty(2) != 'f32' or 'Side' not in f.local_ty(3):
        return None
    dn, mn, sn = (f.local_name(i) or 'arg%d' % i for i in (1, 2, 3))
    out = {}
    for ms in ('neg', 'pos', 'zero'):
        for sv, sname in ((0, 'Left'), (1, 'Right')):
            env = {dn: 'pos', mn: ms, 'disc:%s' % sn: sv}
            outs, forks = absint.explore(f, env)
            out[(ms, sname)] = {absint.sign_of(t, env) for k, t in outs}
    # a priority that is already negative (the query left the routed path higher up) never recovers
    for ms in ('neg', 'pos', 'zero'):
        for sv, sname in ((0, 'Left'), (1, 'Right')):
            env = {dn: 'neg', mn: ms, 'disc:%s' % sn: sv}
            outs, forks = absint.explore(f, env)
            out[('d<0', ms, sname)] = {absint.sign_of(t, env) for k, t in outs}
    return out


def r_sign_agreement(ctx, rule='R-SIGN'):
    F = ctx.F
    bodies = side_bodies(F)
    ctx.need(len(bodies['side']) >= 1 and len(bodies['pq_distance']) >= 1, rule, 'Distance::side and Distance::pq_distance')
    # which impls override (every override is analysed like the default)
    impls = [i for i in F.trait_impls('distance::Distance')]
    ctx.floor(rule, 'Distance impls', len(impls), 7)
    side_res = {}
    for f in bodies['side']:
        table, c, forks = side_table(f)
        key = f.path + '/side-table'
        sides = {'Left', 'Right', 'random'}
        good = (table is not None and table.get('pos') == {'Right'} and table.get('neg') == {'Left'}
                and bool(table.get('zero')) and table['zero'] <= sides and bool(table.get('nan')) and table['nan'] <= sides)
        ctx.check(good, rule, key, f.loc(), 'margin>0 => Right, margin<0 => Left; margin 0/NaN => some side (exempt), never a panic',
                  '`%s` maps margin signs to %s; it must send positive margins Right, negative Left and only 0/NaN to the random side' % (f.path, {k: sorted(v) for k, v in (table or {}).items()}))
        side_res[f.path] = table
        if c is not None:
            # margin of (item vector, normal) through margin_no_header (the reader uses margin_no_header(normal, query))
            a = [show(c.arg_term(i)) for i in range(len(c.args))]
            ats = [strip(c.arg_term(i)) for i in range(len(c.args))]
            has_vec = any(any(x[0] == 'field' and x[2] == 'vector' and root(x[1])[0] == 'arg' for x in walk(t)) for t in ats)
            has_plane = any(root(t)[0] == 'arg' and 'UnalignedVector' in f.local_ty(root(t)[1]) and not any(x[0] == 'field' and x[2] == 'vector' for x in walk(t)) for t in ats)
            good_m = c.callee.endswith('Distance::margin_no_header') and has_vec and has_plane
            ctx.check(good_m, rule, f.path + '/margin', c.loc(), 'margin = D::margin_no_header(item vector, plane normal)',
                      '`%s` computes its margin from %s: the writer and the reader must use the same margin_no_header(vector, normal)' % (f.path, a))
    for f in bodies['pq_distance']:
        tab = pq_table(f)
        key = f.path + '/pq-table'
        want = {('pos', 'Right'): {'pos'}, ('pos', 'Left'): {'neg'}, ('neg', 'Right'): {'neg'}, ('neg', 'Left'): {'pos'},
                # a null margin (random split / item on the plane) caps the priority at zero on both sides: the children of
                # a degenerate plane must not outrank the path of a tree that separates the query by real planes
                ('zero', 'Left'): {'zero'}, ('zero', 'Right'): {'zero'}}
        for ms in ('neg', 'pos', 'zero'):
            for sname in ('Left', 'Right'):
                want[('d<0', ms, sname)] = {'neg'}
        ctx.check(tab == want, rule, key, f.loc(), 'for a positive incoming priority: own side stays positive, other side becomes negative, null margin gives zero; a negative priority stays negative',
                  '`%s` gives priorities %s; the side an item was routed to (margin>0: Right, <0: Left) must keep a positive priority and the other side a negative one, so a stored vector is popped first on its own path' % (f.path, {str(k): sorted(map(str, v)) for k, v in (tab or {}).items()}))


def r_margin_forward(ctx, rule='R-MARGIN'):
    """every margin_no_header forwards its two parameters to one symmetric kernel"""
    F = ctx.F
    n = 0
    for p, f in F.fns.items():
        if not p.endswith(' as distance::Distance>::margin_no_header'):
            continue
        n += 1
        rets = paths.ret_assigns(f)
        good = False
        why = ''
        if len(rets) == 1:
            t = strip(rets[0][2])
            if t[0] == 'call' and t[1] in ('spaces::simple::dot_product', 'spaces::simple::dot_product_binary_quantized') and len(t[2]) == 2:
                a, b = strip(t[2][0]), strip(t[2][1])
                good = a[0] == 'arg' and b[0] == 'arg' and a[1] != b[1]
                why = show(t)
        ctx.check(good, rule, p.split(' as ')[0].strip('<').split('::')[-1], f.loc(), why, '`%s` is not a plain kernel call on its two arguments: %s' % (p, [show(x[2])[:80] for x in rets]))
    ctx.floor(rule, 'margin_no_header impls', n, 7)


def r_random_zero(ctx, rule='R-RANDOM-ZERO'):
    """children are assigned randomly exactly where the stored normal is zero"""
    F = ctx.F
    rs = [f for f in F.lib_fns() if any(c.callee.endswith('Side::random') for c in f.calls()) and f.path.startswith('writer::')]
    if not ctx.need(len(rs) >= 1, rule, 'random splitter (function assigning by Side::random)'):
        return
    # a dedicated splitter only distributes ids (no node construction, no plane): its call sites are the random-split
    # sites; where the random assignment is written (or was inlined) into a tree function, the Side::random call itself is
    def pure_splitter(g):
        return not any(x.callee.endswith(('Distance::create_split', 'TmpNodes::<DE>::put', 'Distance::side', '::is_zero')) for x in g.calls())
    names = [f.path for f in rs if pure_splitter(f)]
    n = 0
    for f in F.lib_fns():
        if not f.path.startswith('writer::') or f.path in names:
            continue
        sites = [c for c in f.calls() if c.callee in names]
        if f in rs:
            # one site per random-assignment loop written into this function
            sites += [c for c in f.calls() if c.callee.endswith('Side::random')]
        for c in sites:
            n += 1
            key = '%s/random-split#%d' % (f.path, n)
            resets = [x for x in f.calls() if x.callee.endswith('UnalignedVector::<Codec>::reset')]
            zero_tests = []
            for s, x, e in paths.controlling_conds(f, c.bb):
                if e[0] == 'bool' and strip(e[1])[0] == 'call' and strip(e[1])[1].endswith('::is_zero') and e[2] and paths.edge_dominates(f, s, x, c.bb):
                    zero_tests.append((s, x))
            if zero_tests:
                # inserter: random routing only under normal.is_zero(); the other edge routes by side()
                s, x = zero_tests[0]
                others = [y for y in f.succ(s) if y != x]
                side_calls = [y for y in f.calls() if y.callee.endswith('Distance::side') and others and y.bb in f.reachable(others[0]) and y.bb not in f.reachable(x, avoid=[s])]
                if not side_calls and others:
                    # the per-item side may be computed by a closure handed to a partitioning helper on that edge
                    region = f.reachable(others[0]) - f.reachable(x, avoid=[s])
                    for bi in region:
                        for st in f.blocks[bi]['stmts']:
                            rv = st['rv']
                            if rv['k'] == 'agg' and rv.get('agg') == 'closure' and F.fn(rv['closure']) is not None:
                                side_calls += [y for y in F.fn(rv['closure']).calls() if y.callee.endswith('Distance::side')]
                ctx.check(bool(side_calls), rule, key, c.loc(), 'random routing iff the stored normal is zero; otherwise by D::side',
                          'in `%s` a non-zero normal is not routed by D::side' % f.path)
            else:
                # constructor: random children are paired with a zeroed normal on every path to the node construction
                import pairing
                aggs = pairing.split_aggregates(f)
                goals = [bi for bi, st, d in aggs]
                good = bool(resets) and bool(goals) and paths.must_pass(f, c.target, goals, [r.bb for r in resets]) \
                    and all(any(paths.edge_dominates(f, s, x, r.bb) and paths.edge_dominates(f, s, x, c.bb) for s, x, e in paths.controlling_conds(f, c.bb, transitive=True)) for r in resets)
                ctx.check(good, rule, key, c.loc(), 'random children are stored with a zeroed normal (and the normal is zeroed only then)',
                          'in `%s` children can be assigned randomly while a non-zero normal is stored (or the normal is zeroed although the children follow it): queries would be routed by a plane the items do not follow' % f.path)
    ctx.floor(rule, 'random-split call sites', n, 2)
    # reset writes zeros / is_zero tests zeros
    rf = F.one('unaligned_vector::UnalignedVector::<Codec>::reset')
    if ctx.need(rf is not None, rule, 'UnalignedVector::reset'):
        fills = [c for c in rf.calls() if c.callee.endswith(('::fill', 'vec::from_elem'))]

        def zero_arg(c):
            return const_eval(c.arg_term(1 if c.callee.endswith('::fill') else 0)) == 0

        def on_param(c):
            # fill() works on the parameter's own bytes (directly or through Cow::to_mut); from_elem builds its replacement
            return c.callee.endswith('vec::from_elem') or root(c.arg_term(0))[0] == 'arg' or \
                any(x[0] == 'call' and x[1].endswith('Cow::<\'_, B>::to_mut') and root(x[2][0])[0] == 'arg' for x in walk(c.arg_term(0)))
        rets = [b for b, k, t in paths.ret_assigns(rf)]
        # zero *bytes*: a zero f32 pushed through a codec is not a zero vector for every codec (0.0 quantises to bit 1)
        def byte_level(c):
            if c.callee.endswith('vec::from_elem'):
                return 'u8' in (c.gnames[:1] or []) or '<u8>' in c.resolved or 'from_elem::<u8' in c.resolved
            return True
        recoded = [c for c in rf.calls() if c.callee.endswith(('UnalignedVectorCodec::from_slice', 'UnalignedVectorCodec::from_vec'))]
        good = bool(fills) and all(zero_arg(c) and on_param(c) and byte_level(c) for c in fills) and not recoded \
            and paths.must_pass(rf, 0, rets, [c.bb for c in fills])
        ctx.check(good, rule, 'reset-zeroes', rf.loc(), 'every path of reset fills the vector bytes with 0 (%d zeroing sites)' % len(fills), 'UnalignedVector::reset no longer zeroes the vector')

    # is_zero of every codec really means "every element is zero": a predicate that looks at a part of the vector only
    # (chunks_exact drops a remainder, skip/take/step_by drop elements) calls a real plane degenerate, and the children of
    # that split are then assigned at random while queries are still routed by the plane
    zs = [(p, f) for p, f in F.fns.items() if p.endswith(('UnalignedVectorCodec>::is_zero', 'UnalignedVectorCodec for f32>::is_zero'))]
    ctx.floor(rule, 'is_zero implementations', len(zs), 2)
    for p, f in zs:
        ok, why = whole_vector_zero_predicate(F, f)
        ctx.check(ok, rule, 'is_zero/' + ('f32' if 'for f32' in p else p.split(' as ')[0].strip('<').split('::')[-1]), f.loc(), 'is_zero = every element (or byte) of the vector is 0',
                  '`%s` is not "every element of the vector is zero" (%s): a non-zero normal could be treated as a random split' % (p, why))


def r_routed_by_side(ctx, rule='R-PARTITION'):
    """in the tree constructor every item is put on the side `D::side` (or, below a zeroed normal, `Side::random`) chose for
    it: a push into one of the two child lists that is not under a side decision bypasses the plane"""
    F = ctx.F
    n = 0
    for f in F.lib_fns():
        if not f.path.startswith('writer::') or not any(c.callee.endswith('Distance::create_split') for c in f.calls()):
            continue
        for c in f.calls():
            if not (c.callee.endswith(('Vec::<T, A>::push', 'RoaringBitmap>::push', 'RoaringBitmap>::insert')) and len(c.args) == 2):
                continue
            a0 = c.args[0]
            ty = f.local_ty(a0['place']['l']) if a0.get('k') in ('copy', 'move') else ''
            if 'Vec<u32>' not in ty and 'RoaringBitmap' not in ty:
                continue
            if root(c.arg_term(0))[0] == 'arg':
                continue          # out-parameters (work lists), not the two child lists
            n += 1
            decided = False
            for s0, x0, e in paths.controlling_conds(f, c.bb):
                if e[0] == 'disc' and paths.edge_dominates(f, s0, x0, c.bb) and any(
                        y[0] == 'call' and y[1].endswith(('Distance::side', 'Side::random')) for y in walk(e[1])):
                    decided = True
            ctx.check(decided, rule, '%s/child-list-push#%d' % (f.path, n), c.loc(), 'the item is put on the side chosen by D::side / Side::random',
                      'in `%s` an item is put into a child list without a side decision (D::side or, for a zeroed normal, Side::random): it can land on the wrong side of a real plane, and a search for its own vector is routed away from it' % f.path)
    if n:
        ctx.floor(rule, 'pushes into the child lists of the tree constructor', n, 2)
    else:
        # the child lists are filled by a helper type (e.g. `sides.push(D::side(..), id)`): nothing to decide at this level;
        # the pairing of the lists with the children is R-LINK's business
        ctx.ok(rule, 'child-list-pushes', '', 'no direct pushes into child lists in the tree constructor (filled through a helper)', nontrivial=False)


LOSSLESS_ITER = ('::iter', 'IntoIterator::into_iter', 'Iterator::copied', 'Iterator::cloned', 'Iterator::by_ref', 'Deref::deref', '::as_ref',
                 '::as_slice', '::as_bytes', 'Iterator::rev', 'Iterator::enumerate', 'Iterator::map', 'bytemuck::cast_slice')


def whole_vector_zero_predicate(F, z):
    rets = [strip(t) for b, k, t in paths.ret_assigns(z)]
    if len(rets) != 1:
        return False, '%d return values' % len(rets)
    t = rets[0]
    neg = False
    while t[0] == 'unop' and t[1] == 'Not':
        t = strip(t[2])
        neg = not neg
    if t[0] != 'call' or len(t[2]) != 2:
        return False, 'not an all()/any() over the elements: ' + show(t)[:80]
    want = 'Eq' if (t[1].endswith('Iterator::all') and not neg) else ('Ne' if (t[1].endswith('Iterator::any') and neg) else None)
    clo = strip(t[2][1])
    if want is None or clo[0] != 'closure' or F.fn(clo[1]) is None:
        return False, 'not all(== 0) / !any(!= 0)'
    g = F.fn(clo[1])
    rs = [strip(x) for b, k, x in paths.ret_assigns(g)]

    def is_param(x):
        r = root(x)
        return r[0] == 'arg' and r[1] == 2
    if not (rs and all(r[0] == 'binop' and r[1] == want and is_param(r[2]) and const_eval(r[3]) == 0 for r in rs)):
        return False, 'the element test is not a comparison of the element with 0'
    # the receiver iterates the whole vector: a chain of lossless adaptors down to the parameter
    cur = strip(t[2][0])
    for _ in range(12):
        if cur[0] == 'arg' or (cur[0] == 'field' and root(cur)[0] == 'arg'):
            return True, ''
        if cur[0] in ('ref', 'deref', 'field'):
            cur = strip(cur[1])
            continue
        if cur[0] == 'call' and cur[2] and cur[1].endswith(LOSSLESS_ITER):
            if cur[1].endswith('Iterator::map'):
                return False, 'elements mapped before the test'
            cur = strip(cur[2][0])
            continue
        return False, 'the elements tested come from ' + show(cur)[:80]
    return False, 'receiver chain too deep'
