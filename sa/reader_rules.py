"""Rules on the search path (the traversal function, the query entry points, per-metric header discipline).
Shared by C02, C03, C04, C20."""
import paths
from facts import strip, show, walk, short, const_eval
from rules import db_ops, key_info, same, strip_all, root, owner_path, sp, loop_every_iteration

F32_INF_BITS = 0x7F800000


def traversal(F):
    """the Reader method(s) calling D::pq_distance"""
    return [f for f in F.lib_fns() if f.path.startswith('reader::') and any(c.callee.endswith('Distance::pq_distance') for c in f.calls())]


class Trav:
    """named parts of one traversal function"""

    def __init__(self, ctx, f):
        self.f = f
        self.ok = True
        F = ctx.F
        self.queue = None
        self.nns = None
        for l, loc in enumerate(f.locals):
            ty = loc['ty']
            if ty.startswith('std::collections::BinaryHeap<(') and 'node_id::NodeId' in ty and self.queue is None:
                self.queue = l
        pops = [c for c in f.calls() if c.callee.endswith('BinaryHeap::<T, A>::pop') and 'node_id::NodeId' in c.resolved]
        self.pop = pops[0] if len(pops) == 1 else None
        if self.pop is not None:
            r = root(self.pop.arg_term(0))
            # the queue local is the root of the pop receiver
            a0 = self.pop.args[0]
            self.queue_term = strip_all(self.pop.arg_term(0))
        # candidate list: the Vec<u32> that is sorted and dedup'ed
        ded = [c for c in f.calls() if c.callee.endswith('Vec::<T, A>::dedup') or c.callee.endswith('Vec::<T, A>::dedup_by_key')]
        self.dedup = ded[0] if ded else None
        self.nns_term = strip_all(self.dedup.arg_term(0)) if self.dedup else None
        self.loop = paths.natural_loop(f, self._loop_header()) if self.pop is not None else set()

    def _loop_header(self):
        f = self.f
        # innermost natural-loop header containing the pop
        dom = f.dominators()
        best = None
        for h in sorted(dom.get(self.pop.bb, ()), reverse=False):
            lp = paths.natural_loop(f, h)
            if self.pop.bb in lp:
                if best is None or len(lp) < len(paths.natural_loop(f, best)):
                    best = h
        return best if best is not None else self.pop.bb

    def adds_to_nns(self):
        f = self.f
        out = []
        for c in f.calls():
            if c.callee.endswith(('Vec::<T, A>::push', 'Extend::extend', 'Vec::<T, A>::extend_from_slice', 'Vec::<T, A>::append',
                                  'Vec::<T, A>::insert', 'Vec::<T, A>::extend_from_within', 'Vec::<T, A>::resize')) and c.args:
                if self.nns_term is not None and strip_all(c.arg_term(0)) == self.nns_term:
                    out.append(c)
        return out

    def queue_adds(self):
        f = self.f
        out = []
        for c in f.calls():
            if c.callee.endswith(('BinaryHeap::<T, A>::push', 'Extend::extend', 'BinaryHeap::<T, A>::append', 'BinaryHeap::<T, A>::extend')) and c.args \
                    and self.pop is not None and strip_all(c.arg_term(0)) == self.queue_term:
                out.append(c)
        return out


def cand_payload(t):
    """is `t` the caller's candidate filter (opt.candidates payload)"""
    for s in walk(t):
        if s[0] == 'field' and s[2] == 'candidates':
            return True
    return False


def closure_subst(t, captured):
    """term of a closure body rewritten into its creator's terms: `(*arg1).N` -> the N-th captured term"""
    if not isinstance(t, tuple) or not t:
        return t
    if t[0] == 'field' and isinstance(t[2], str) and t[2].isdigit():
        b = strip(t[1])
        if b[0] == 'arg' and b[1] == 1 and int(t[2]) < len(captured):
            return captured[int(t[2])]
    out = []
    for x in t:
        if isinstance(x, tuple):
            out.append(closure_subst(x, captured))
        elif isinstance(x, list):
            out.append([closure_subst(y, captured) if isinstance(y, tuple) and y and isinstance(y[0], str) else
                        ((y[0], closure_subst(y[1], captured)) if isinstance(y, tuple) and len(y) == 2 and isinstance(y[1], tuple) else y) for y in x])
        else:
            out.append(x)
    return tuple(out)


def phi_defs(f, t):
    """[(block, term)] of the whole definitions of the multi-definition local behind a phi term, else None"""
    t0 = strip(t)
    if t0[0] != 'phi':
        return None
    l = t0[1]
    out = []
    for d in f.defs().get(l, ()):
        if d[0] == 'assign' and d[4]:
            return None
        if d[0] == 'call' and d[3]:
            return None
        for ll, tt in f.defs_in_block(d[1]):
            if ll == l:
                out.append((d[1], tt))
    return out


def under_no_filter_branch(f, bb):
    """bb runs only when `opt.candidates` is None (edge-dominated by the None edge of a match on it)"""
    for s, x, e in paths.controlling_conds(f, bb):
        if not paths.edge_dominates(f, s, x, bb):
            continue
        if e[0] == 'disc' and e[1][0] == 'discr' and cand_payload(e[1][1]) and strip(e[1][1])[0] == 'field':
            sw = paths.switch_at(f, s)
            listed = [int(v) for v, tg in sw['targets']]
            if (0 in e[2]) or (e[3] and 1 in listed and 0 not in listed):
                return True
    return False


def _contains_filter(t, id_ok, captured=None):
    """t is `candidates.contains(id)` on the caller's filter, with id_ok(id term)"""
    t0 = strip(t)
    if t0[0] == 'call' and t0[1].endswith('RoaringBitmap>::contains') and len(t0[2]) == 2:
        recv = closure_subst(t0[2][0], captured) if captured is not None else t0[2][0]
        return cand_payload(recv) and id_ok(t0[2][1])
    return False


def r_filter(ctx, tv, rule='S4-FILTER'):
    """every value entering the candidate list is guarded by the filter or sits under the no-filter branch"""
    F = ctx.F
    f = tv.f
    adds = tv.adds_to_nns()
    ctx.floor(rule, 'writes to the candidate list', len(adds), 3)
    n = 0

    def popped(t):
        return paths.mentions_call(t, tv.pop.bb)

    def pushes_popped_id(arg):
        pv = strip(arg)
        return (pv[0] == 'call' and pv[1].endswith('NodeId::unwrap_item') and popped(pv)) or (pv[0] == 'field' and pv[2] == 'item' and popped(pv))

    def bool_guard(cond, truth, arg):
        """the boolean `cond == truth` implies (no filter) or (filter contains the pushed id)"""
        m = strip(cond)
        if not truth:
            return None
        if _contains_filter(m, popped) and pushes_popped_id(arg):
            return 'guarded by candidates.contains(item)'
        # `candidates.map_or(true, |c| c.contains(id))` / `candidates.is_none_or(|c| c.contains(id))`
        is_mo = m[0] == 'call' and m[1].endswith('::map_or') and len(m[2]) == 3 and cand_payload(m[2][0]) and const_eval(m[2][1]) == 1
        is_no = m[0] == 'call' and m[1].endswith('::is_none_or') and len(m[2]) == 2 and cand_payload(m[2][0])
        if is_mo or is_no:
            clo = strip(m[2][2] if is_mo else m[2][1])
            if clo[0] == 'closure' and F.fn(clo[1]) is not None:
                g = F.fn(clo[1])
                rets = paths.ret_assigns(g)
                caps = list(clo[2])

                def id_ok(t):
                    # the closure tests the popped node's id: a capture that comes from the pop
                    tt = closure_subst(t, caps)
                    return popped(tt)
                okc = bool(rets) and all(
                    strip(t)[0] == 'call' and strip(t)[1].endswith('RoaringBitmap>::contains') and strip(strip(t)[2][0])[0] == 'arg' and strip(strip(t)[2][0])[1] == 2 and id_ok(strip(t)[2][1])
                    for b, k, t in rets)
                if okc and pushes_popped_id(arg):
                    return 'guarded by candidates.map_or(true, |c| c.contains(item))'
        pd = phi_defs(f, m)
        if pd:
            good = True
            for b, t in pd:
                if const_eval(t) == 1 and under_no_filter_branch(f, b):
                    continue
                if const_eval(t) == 0:
                    continue
                if _contains_filter(t, popped):
                    continue
                good = False
            if good and pushes_popped_id(arg):
                return 'guarded by a flag that is `candidates.contains(item)` when a filter is given'
        return None

    for c in adds:
        n += 1
        key = '%s/add#%d' % (f.path, n)
        arg = c.arg_term(1)
        why = None
        # (a) the added set is an intersection with the filter
        for s in walk(arg):
            if s[0] == 'call' and s[1].endswith(('BitAnd::bitand',)) and any(cand_payload(a) for a in s[2]):
                why = 'intersection with the filter'
            # (a') an iterator filtered by `|id| candidates.contains(*id)`
            if s[0] == 'call' and s[1].endswith('Iterator::filter') and len(s[2]) == 2 and s is strip(arg):
                clo = strip(s[2][1])
                if clo[0] == 'closure' and F.fn(clo[1]) is not None:
                    g = F.fn(clo[1])
                    rets = paths.ret_assigns(g)
                    caps = list(clo[2])
                    if rets and all(_contains_filter(t, lambda i: root(i)[0] == 'arg' and root(i)[1] == 2, caps) for b, k, t in rets):
                        why = 'iterator filtered by candidates.contains'
        if why is None and under_no_filter_branch(f, c.bb):
            why = 'under the no-filter (candidates == None) branch'
        if why is None:
            for s, x, e in paths.controlling_conds(f, c.bb):
                if not paths.edge_dominates(f, s, x, c.bb):
                    continue
                if e[0] == 'bool':
                    why = why or bool_guard(e[1], e[2], arg)
        ctx.check(why is not None, rule, key, c.loc(), why or '',
                  'ids can enter the candidate list of `%s` without passing the caller\'s filter: results outside the filter would be returned (%s)' % (f.path, show(arg)[:100]))


def r_loop(ctx, tv, rule='S1-LOOP'):
    """the traversal loop's only exits are: budget reached, queue empty, error"""
    f = tv.f
    if not ctx.need(bool(tv.loop) and tv.pop is not None, rule, 'traversal loop around queue.pop()'):
        return None
    exits = [(b, s) for b in tv.loop for s in f.succ(b) if s not in tv.loop]
    budget = None
    n = 0
    for b, s in sorted(exits):
        n += 1
        e = paths.edge_cond(f, b, s)
        kind = None
        if e and e[0] == 'bool':
            c = strip(e[1])
            if c[0] == 'binop' and c[1] in ('Lt', 'Ge', 'Gt', 'Le'):
                a, bb = strip(c[2]), strip(c[3])
                is_len = a[0] == 'call' and a[1].endswith('::len') and tv.nns_term is not None and strip_all(a[2][0]) == tv.nns_term
                # len(nns) < K  false-edge, or len(nns) >= K true-edge
                if is_len and ((c[1] == 'Lt' and not e[2]) or (c[1] == 'Ge' and e[2])):
                    kind = 'budget'
                    budget = (b, s, c[3], paths.switch_at(f, b)['discr'])
        if e and e[0] == 'disc' and e[1][0] == 'discr' and paths.mentions_call(e[1][1], tv.pop.bb) and strip(e[1][1])[0] == 'call':
            listed = [int(v) for v, t in paths.switch_at(f, b)['targets']]
            if 0 in e[2] or (e[3] and listed == [1]):
                kind = 'queue-empty'
        if kind is None and e and e[0] == 'bool':
            # `while .. && step()? {}` with `step` answering Ok(false) exactly when the queue is empty: the exit edge is
            # feasible after a failed pop and infeasible (within the iteration) after a successful one
            sw = tv.pop.target
            arms = {}
            if sw is not None and sw >= 0 and paths.switch_at(f, sw) is not None:
                for x in f.succ(sw):
                    ec = paths.edge_cond(f, sw, x)
                    if ec and ec[0] == 'disc' and paths.mentions_call(ec[1], tv.pop.bb):
                        arms['none' if 0 in ec[2] else 'some'] = x
            if 'none' in arms and 'some' in arms:
                e_none, e_some = set(), set()
                paths.feasible_reach(f, arms['none'], avoid=[tv.pop.bb], edges=e_none)
                paths.feasible_reach(f, arms['some'], avoid=[tv.pop.bb], edges=e_some)
                if (b, s) in e_none and (b, s) not in e_some:
                    kind = 'queue-empty'
        if kind is None:
            # error exit: only error returns / panics reachable
            reach = f.reachable(s)
            goods = [rb for rb, k, t in paths.ret_assigns(f) if k in ('ok', 'call', 'other') and rb in reach]
            if not goods:
                kind = 'error'
            else:
                # an error raised inside a (virtually inlined) helper leaves the loop as an `Err(..)` value that the
                # caller's `?` then returns: follow the values along the path (the source block builds the Err)
                fr = paths.feasible_reach(f, b, first_edge=s)
                goods2 = [rb for rb, k, t in paths.ret_assigns(f) if k in ('ok', 'call', 'other') and rb in fr]
                if not goods2:
                    kind = 'error'
        ctx.check(kind is not None, rule, '%s/exit#%d' % (f.path, n), '%s:%d' % (f.span['file'], paths.block_line(f, b)),
                  'loop exit: %s' % kind, 'the traversal loop of `%s` has an extra way out (line %d): with an unlimited budget it could stop before the queue is drained' % (f.path, paths.block_line(f, b)))
    ctx.check(budget is not None, rule, f.path + '/budget-exit', f.loc(), 'exit when len(candidates) >= budget', 'no `candidates.len() < budget` loop condition found')
    return budget


def r_budget(ctx, tv, budget, rule='S5-BUDGET'):
    """the budget only gates the loop; it is computed with saturating arithmetic from exactly
    {count, roots.len(), oversampling-or-DEFAULT_OVERSAMPLING} or the explicit search_k"""
    F = ctx.F
    f = tv.f
    if budget is None:
        return
    b, s, kterm, discr = budget
    K = strip(kterm)
    # S5: the budget local is used only by the loop condition
    kl = None
    for blk in [f.blocks[b]]:
        for st in blk['stmts']:
            rv = st['rv']
            if rv['k'] == 'binop' and rv['op'] in ('Lt', 'Ge'):
                o = rv['b']
                if o['k'] in ('copy', 'move') and not o['place']['p']:
                    kl = o['place']['l']
    if kl is not None:
        # follow copies back to the named local
        srcs = {kl}
        for d in f.defs().get(kl, []):
            if d[0] == 'assign' and d[3]['k'] == 'use' and d[3]['o']['k'] in ('copy', 'move') and not d[3]['o']['place']['p']:
                srcs.add(d[3]['o']['place']['l'])
        uses = []
        for l in srcs:
            for u in f.uses(l):
                if u['k'] == 'rv' and u['rk'] == 'use' and u['dest']['l'] in srcs:
                    continue
                if u['k'] == 'rv' and u['rk'] == 'binop' and u['bb'] == b:
                    continue
                if u['k'] in ('drop',):
                    continue
                if _only_capacity_hint(f, u):
                    continue
                uses.append(u)
        ctx.check(not uses, rule, f.path + '/only-gates', f.loc(), 'the budget is read only by the loop condition',
                  'the search budget of `%s` is used outside the loop condition (%d other uses): enlarging it could change more than how far the traversal goes' % (f.path, len(uses)))
    # provenance
    txt = show(K, -20) if False else None
    calls = [x for x in walk(K) if x[0] == 'call']
    muls = [x for x in calls if x[1].endswith('::saturating_mul')]
    raw = [x for x in walk(K) if x[0] == 'binop' and x[1] in ('Mul', 'MulWithOverflow', 'Add', 'AddWithOverflow', 'Shl', 'MulUnchecked')]
    ctx.check(not raw, 'S10-OVERFLOW', f.path + '/budget-arithmetic', f.loc(), 'budget arithmetic is saturating',
              'the default search budget of `%s` is computed with unchecked arithmetic (%s): huge counts overflow (panic in debug, wrap-around in release)' % (f.path, [show(x)[:60] for x in raw][:2]))
    fields = set()
    from rules import inline_helper

    def leaves(t, depth=0):
        for x in walk(t):
            yield x
            if x[0] == 'call' and x[1] in F.fns and depth < 2:
                it = inline_helper(x)     # small accessors (`self.n_trees()`) are looked through
                if it is not None:
                    yield from leaves(it, depth + 1)
    for x in leaves(K):
        if x[0] == 'field' and x[2] in ('count', 'search_k', 'oversampling', 'roots', 'candidates', 'items', 'dimensions'):
            fields.add(x[2])
        if x[0] == 'const' and isinstance(x[2], str) and 'DEFAULT_OVERSAMPLING' in x[2]:
            fields.add('DEFAULT_OVERSAMPLING')
    want = {'count', 'search_k', 'oversampling', 'roots', 'DEFAULT_OVERSAMPLING'}
    ctx.check(fields == want, 'S5-PROVENANCE', f.path + '/budget-inputs', f.loc(), 'budget depends on exactly %s' % sorted(want),
              'the search budget of `%s` depends on %s instead of %s' % (f.path, sorted(fields), sorted(want)))
    # finite-domain symbolic evaluation of the budget for the four (search_k set?, oversampling set?) cases
    bad = []
    for sk in (True, False):
        for ov in (True, False):
            got = budget_product(F, f, K, {'search_k': sk, 'oversampling': ov})
            want = sorted((['search_k'] if sk else ['count', 'n_trees']) + (['oversampling'] if ov else ['DEFAULT']))
            if got is None or sorted(got) != want:
                bad.append('search_k %s, oversampling %s: %s' % ('set' if sk else 'unset', 'set' if ov else 'unset', got))
    ctx.check(not bad, 'S5-PROVENANCE', f.path + '/budget-formula', f.loc(),
              'budget = (search_k or count x n_trees) x (oversampling or DEFAULT_OVERSAMPLING), saturating, in all four option cases',
              'the search budget of `%s` is not (search_k or count x number-of-trees) x (oversampling or the metric default): %s' % (f.path, bad[:2]))


def _opt_payload(t):
    """'search_k' / 'oversampling' when t is the Some payload of that option field"""
    seen_some = False
    for x in walk(t):
        if x[0] == 'downcast' and x[2] == 'Some':
            seen_some = True
        if x[0] == 'field' and x[2] in ('search_k', 'oversampling') and seen_some:
            return x[2]
    return None


def budget_product(F, f, t, assume, depth=0):
    """list of atoms whose saturating product the term denotes under `assume`, or None"""
    if depth > 12:
        return None
    t0 = strip(t)
    k = t0[0]
    if k == 'cast':
        return budget_product(F, f, t0[2], assume, depth + 1)
    if k == 'const':
        if isinstance(t0[2], str) and 'DEFAULT_OVERSAMPLING' in t0[2]:
            return ['DEFAULT']
        return None
    if k in ('field', 'downcast'):
        p = _opt_payload(t0)
        if p:
            return [p]
        if k == 'field' and t0[2] == 'count':
            return ['count']
        if k == 'field' and t0[2] in ('0',):
            return budget_product(F, f, t0[1], assume, depth + 1)
        return None
    if k == 'phi':
        alts = t0[2]
        tagged = [(a, _opt_payload(a)) for a in alts]
        which = {p for a, p in tagged if p}
        if len(which) == 1 and len(alts) == 2:
            w = list(which)[0]
            pick = [a for a, p in tagged if (p == w) == assume[w]]
            if len(pick) == 1:
                return budget_product(F, f, pick[0], assume, depth + 1)
        return None
    if k == 'call':
        n = t0[1]
        if n.endswith('::saturating_mul') and len(t0[2]) == 2:
            a, b = budget_product(F, f, t0[2][0], assume, depth + 1), budget_product(F, f, t0[2][1], assume, depth + 1)
            return a + b if a is not None and b is not None else None
        if n.endswith('NonZero::<T>::get') or n.endswith('::get'):
            return budget_product(F, f, t0[2][0], assume, depth + 1)
        if n.endswith('::len') and t0[2]:
            a = strip(t0[2][0])
            if a[0] == 'field' and a[2] == 'roots':
                return ['n_trees']
            return None
        if n.endswith('::map_or') and len(t0[2]) == 3:
            o = strip(t0[2][0])
            w = o[2] if o[0] == 'field' and o[2] in ('search_k', 'oversampling') else None
            if w is None:
                return None
            if not assume[w]:
                return budget_product(F, f, t0[2][1], assume, depth + 1)
            fn_t = strip(t0[2][2])
            if fn_t[0] == 'fn' and fn_t[1].endswith('::get'):
                return [w]
            if fn_t[0] == 'closure':
                g = F.fn(fn_t[1])
                if g is None:
                    return None
                rets = paths.ret_assigns(g)
                if len(rets) != 1:
                    return None
                # substitute: closure parameter (local 2) -> the option payload; captures -> the captured terms
                return _closure_product(F, g, rets[0][2], w, fn_t[2], f, assume, depth + 1)
        if n.endswith(('::unwrap_or', 'Option::<T>::unwrap_or')) and len(t0[2]) == 2:
            o = strip(t0[2][0])
            if o[0] == 'call' and o[1].endswith('::map') and strip(o[2][0])[0] == 'field':
                w = strip(o[2][0])[2]
                if w in assume:
                    return [w] if assume[w] else budget_product(F, f, t0[2][1], assume, depth + 1)
            return None
        if n in F.fns:
            # a small accessor of the crate (`self.n_trees()`): look through it
            from rules import inline_helper
            it = inline_helper(t0)
            if it is not None:
                return budget_product(F, f, it, assume, depth + 1)
    return None


def _closure_product(F, g, t, w, captured, f, assume, depth):
    t0 = strip(t)
    if t0[0] == 'arg' and t0[1] == 2:
        return [w]
    if t0[0] == 'call' and t0[1].endswith('::saturating_mul') and len(t0[2]) == 2:
        a = _closure_product(F, g, t0[2][0], w, captured, f, assume, depth + 1)
        b = _closure_product(F, g, t0[2][1], w, captured, f, assume, depth + 1)
        return a + b if a is not None and b is not None else None
    if t0[0] == 'call' and t0[1].endswith('::get') and t0[2]:
        return _closure_product(F, g, t0[2][0], w, captured, f, assume, depth + 1)
    if t0[0] == 'field' and strip(t0[1])[0] == 'arg' and strip(t0[1])[1] == 1 and t0[2].isdigit():
        i = int(t0[2])
        if i < len(captured):
            return budget_product(F, f, captured[i], assume, depth + 1)
    return None


def _only_capacity_hint(f, u, depth=0):
    """the use only sizes an allocation (with_capacity / reserve), possibly through min/max"""
    if depth > 4:
        return False
    if u['k'] == 'rv' and u['rk'] in ('use', 'cast') and u['whole'] and not u['dest']['p']:
        us = [x for x in f.uses(u['dest']['l']) if x['k'] != 'drop']
        return bool(us) and all(_only_capacity_hint(f, x, depth + 1) for x in us)
    if u['k'] != 'arg':
        return False
    cal = u['call'].callee
    if cal.endswith(('::with_capacity', '::reserve', '::reserve_exact', '::with_capacity_and_hasher')):
        return True
    if cal.endswith(('::min', '::max', '::saturating_add', '::saturating_mul')):
        dl = u['call'].dest['l']
        us = [x for x in f.uses(dl) if x['k'] != 'drop']
        return bool(us) and all(_only_capacity_hint(f, x, depth + 1) for x in us)
    return False


def _leaf(t):
    if t[0] == 'field':
        return t[2]
    if t[0] == 'call' and t[1].endswith('::len') and t[2]:
        a = strip(t[2][0])
        if a[0] == 'field':
            return 'len(%s)' % a[2]
    return show(t)[:30]


def node_variant_blocks(f, get_call, within=None):
    """{variant name: entry block} of the match on the node fetched by get_call"""
    out = {}
    for b in f.live_blocks():
        if within is not None and b not in within:
            continue
        if not f.dominates(get_call.bb, b):
            continue
        sw = paths.switch_at(f, b)
        if sw is None:
            continue
        d = f.term(sw['discr'])
        if d[0] == 'discr' and paths.mentions_call(d[1], get_call.bb):
            ty = None
            # discriminant of a node::Node value
            s = strip(d[1])
            names = ('Leaf', 'Descendants', 'SplitPlaneNormal')
            vals = [int(v) for v, t in sw['targets']]
            if max(vals + [0]) <= 2 and (2 in vals or len(vals) >= 2) and not (s[0] == 'call' and s[1].endswith('Try::branch')):
                # Option/Result discriminants never list 2; a Node match lists 0..2 (one may be the otherwise arm)
                if 2 in vals:
                    for v, t in sw['targets']:
                        out[names[int(v)]] = t
                    missing = [i for i in range(3) if i not in vals]
                    if len(missing) == 1:
                        out[names[missing[0]]] = sw['otherwise']
                    return out, b
    return out, None


def r_split_arm(ctx, tv, rule='S2-NO-PRUNING'):
    """the split arm pushes both children with the matching side priority on every path"""
    F = ctx.F
    f = tv.f
    gets = [c for (_f, c, op, w, k) in db_ops(F, [f]) if op == 'get' and c.bb in tv.loop]
    if not ctx.need(len(gets) == 1, rule, 'node fetch inside the traversal loop'):
        return
    get = gets[0]
    ki = key_info(get.arg_term(2))
    ctx.check(ki is not None and ki[0] == 'new' and strip(ki[1])[0] == 'field' and strip(ki[1])[2] == 'index' and paths.mentions_call(ki[2], tv.pop.bb),
              rule, f.path + '/fetch-popped-node', get.loc(), 'fetches Key::new(self.index, popped node)', 'the traversal does not fetch the node it popped')
    arms, swb = node_variant_blocks(f, get, within=tv.loop)
    if not ctx.need('SplitPlaneNormal' in arms and 'Descendants' in arms and 'Leaf' in arms, rule, 'match on the three node kinds'):
        return
    split = arms['SplitPlaneNormal']
    pushes = [c for c in tv.queue_adds() if c.bb in f.reachable(split, avoid=[tv.pop.bb]) and c.callee.endswith('::push')]
    sides = {}
    for c in pushes:
        t = strip(c.arg_term(1))
        if t[0] != 'tuple' or len(t[1]) != 2:
            continue
        pr, child = t[1][0], strip(t[1][1])
        pq = [s for s in walk(pr) if s[0] == 'call' and s[1].endswith('Distance::pq_distance')]
        if not pq:
            continue
        side = strip(pq[0][2][2])
        sname = side[2] if side[0] == 'agg' and side[1].endswith('Side') else None
        cname = child[2] if child[0] == 'field' else None
        d0 = strip(pq[0][2][0])
        m = strip(pq[0][2][1])
        ok_m = m[0] == 'call' and m[1].endswith('Distance::margin_no_header') and _margin_args_ok(m)
        ok_d = paths.mentions_call(d0, tv.pop.bb)
        ok_of = any(s[0] == 'agg' and s[1].endswith('OrderedFloat') for s in walk(pr))
        sides[sname] = (cname, ok_m, ok_d, ok_of, c)
    for sname, cname in (('Left', 'left'), ('Right', 'right')):
        got = sides.get(sname)
        good = got is not None and got[0] == cname and got[1] and got[2] and got[3]
        ctx.check(good, 'S2-PAIRING', '%s/push-%s' % (f.path, cname), got[4].loc() if got else f.loc(),
                  'queue.push((pq_distance(popped priority, margin(normal, query), Side::%s), %s))' % (sname, cname),
                  'the traversal does not push the %s child with the Side::%s priority computed from the popped priority and the margin of (stored normal, query): %s' % (cname, sname, None if not got else got[:4]))
    both = [v[4].bb for v in sides.values()]
    back = [tv.pop.bb]
    for sname in ('Left', 'Right'):
        if sname in sides:
            good = paths.must_pass(f, split, [h for h in tv.loop if h == tv._loop_header()], [sides[sname][4].bb])
            ctx.check(good, rule, '%s/always-pushes-%s' % (f.path, sname.lower()), sides[sname][4].loc(), 'the %s child is pushed on every path of the split arm (no pruning)' % sname.lower(),
                      'the split arm of `%s` can skip pushing the %s child: items below it become unreachable even with an unlimited budget' % (f.path, sname.lower()))
    # bucket arm: the whole bitmap (or its intersection with the filter) is appended
    desc = arms['Descendants']
    ext = [c for c in tv.adds_to_nns() if c.bb in f.reachable(desc, avoid=[tv.pop.bb]) and c.bb not in f.reachable(split, avoid=[tv.pop.bb])]
    okb = bool(ext)
    for c in ext:
        a = c.arg_term(1)
        whole = any(s[0] == 'call' and s[1].endswith('RoaringBitmap>::iter') for s in walk(a)) and any(s[0] == 'field' and s[2] == 'descendants' for s in walk(a))
        # only the filter may thin the bucket out: no truncating adaptor (take/skip/step_by ...) on the way
        LOSSY = ('Iterator::take', 'Iterator::skip', 'Iterator::step_by', 'Iterator::take_while', 'Iterator::skip_while', 'Iterator::nth', 'Iterator::map_while')
        lossy = [s[1] for s in walk(a) if s[0] == 'call' and s[1].endswith(LOSSY)]
        okb = okb and whole and not lossy and c.callee.endswith('Extend::extend')
    ctx.check(okb and paths.must_pass(f, desc, [tv._loop_header()], [c.bb for c in ext]), 'S3-BUCKET', f.path + '/bucket-arm', ext[0].loc() if ext else f.loc(),
              'the bucket arm appends every id of the bucket (or of its intersection with the filter)',
              'the bucket arm of `%s` does not append the whole bucket to the candidates' % f.path)
    # leaf arm: pushes the node's own id
    leaf = arms['Leaf']
    lp = [c for c in tv.adds_to_nns() if c.bb in f.reachable(leaf, avoid=[tv.pop.bb]) and c.bb not in f.reachable(split, avoid=[tv.pop.bb]) and c.bb not in f.reachable(desc, avoid=[tv.pop.bb])]
    okl = bool(lp) and all(paths.mentions_call(c.arg_term(1), tv.pop.bb) for c in lp)
    ctx.check(okl, 'S3-BUCKET', f.path + '/leaf-arm', lp[0].loc() if lp else f.loc(), 'a single-item child contributes its own id', 'the leaf arm of `%s` does not push the popped item id' % f.path)
    return get, arms


def _margin_args_ok(m):
    """margin_no_header(stored normal, query vector) in either order"""
    a, b = m[2][0], m[2][1]

    def is_normal(t):
        return any(x[0] == 'field' and x[2] == 'normal' for x in walk(t))

    def is_query(t):
        # the vector of a leaf handed in by the caller (a parameter), not of a node fetched from the database
        return any(x[0] == 'field' and x[2] == 'vector' and root(x[1])[0] == 'arg' for x in walk(t)) and not any(x[0] == 'call' and x[1].endswith('::get') for x in walk(t))
    return (is_normal(a) and is_query(b)) or (is_normal(b) and is_query(a))


def r_seed_roots(ctx, tv, rule='S6-ROOTS'):
    f = tv.f
    ext = [c for c in tv.queue_adds() if c.callee.endswith('Extend::extend') and c.bb not in tv.loop]
    good = False
    for c in ext:
        a = c.arg_term(1)
        has_roots = any(s[0] == 'field' and s[2] == 'roots' for s in walk(a)) and any(s[0] == 'call' and s[1].endswith('::iter') for s in walk(a))
        has_tree = any(s[0] == 'fn' and s[1].endswith('NodeId::tree') for s in walk(a))
        has_inf = any(s[0] == 'const' and s[2] == F32_INF_BITS for s in walk(a))
        # element-preserving adaptors only: anything that can drop a root (take/skip/filter/step_by ...) is not a full seeding
        KEEP_ALL = ('Iterator::map', 'Iterator::zip', 'Iterator::copied', 'Iterator::cloned', 'IntoIterator::into_iter', '::iter', 'iter::repeat', 'iter::repeat_n',
                    'Iterator::rev', 'Iterator::inspect', 'Iterator::by_ref', 'Iterator::enumerate', 'Deref::deref')
        adaptors = [s[1] for s in walk(a) if s[0] == 'call' and ('Iterator::' in s[1] or 'iter::' in s[1])]
        lossy = [short(n) for n in adaptors if not n.endswith(KEEP_ALL)]
        good = has_roots and has_tree and has_inf and not lossy and f.dominates(c.bb, tv._loop_header())
    ctx.check(good, rule, f.path + '/all-roots', ext[0].loc() if ext else f.loc(), 'every root is seeded as NodeId::tree(root) with priority +inf before the loop',
              'the traversal of `%s` is not seeded with every root of the index (as tree nodes, priority +inf)' % f.path)
    # max-heap on (OrderedFloat<f32>, NodeId), no Reverse
    qty = [loc['ty'] for loc in f.locals if loc['ty'].startswith('std::collections::BinaryHeap<(') and 'NodeId' in loc['ty']]
    ctx.check(bool(qty) and all('Reverse' not in t and 'ordered_float::OrderedFloat<f32>' in t for t in qty), 'S6-HEAP', f.path + '/queue-type', f.loc(),
              'queue is a max-heap on (OrderedFloat<f32>, NodeId)', 'the traversal queue of `%s` is not a max-heap on (OrderedFloat<f32>, NodeId): %s' % (f.path, qty))


def r_scoring(ctx, tv, rule='S8-SCORE'):
    """sort+dedup precede scoring; every candidate is scored from its live leaf; min-first bounded output"""
    F = ctx.F
    f = tv.f
    sorts = [c for c in f.calls() if c.callee.endswith(('::sort_unstable', '::sort')) and tv.nns_term is not None and strip_all(c.arg_term(0)) == tv.nns_term]
    its = [c for c in f.calls() if c.callee.endswith(('IntoIterator::into_iter', '<impl [T]>::iter', 'Vec::<T, A>::drain', 'Vec::<T, A>::into_iter')) and tv.nns_term is not None
           and any(y == tv.nns_term for y in walk(strip_all(c.arg_term(0))))]
    # (feasible-path formulation: after virtual inlining the error returns of a helper merge in front of the caller's `?`,
    # so plain dominance would be lost although no successful path skips the calls)
    good = bool(sorts) and tv.dedup is not None and bool(its) and paths.must_pass(f, 0, [tv.dedup.bb], [sorts[0].bb]) \
        and all(paths.must_pass(f, 0, [c.bb], [tv.dedup.bb]) for c in its) \
        and sorts[0].bb not in tv.loop and tv.dedup.bb not in tv.loop
    ctx.check(good, 'S7-DEDUP', f.path + '/sort-dedup', tv.dedup.loc() if tv.dedup else f.loc(), 'candidates sorted and deduplicated before scoring (each id scored once)',
              'the candidates of `%s` are not sorted+deduplicated before scoring: an item found in several trees would be returned several times' % f.path)
    # scoring sites: in the function itself (loop form) or in a closure mapped over the candidate list (iterator form)
    bd = [(c, f, None, None) for c in f.calls() if c.callee.endswith('Distance::built_distance')]
    for mc in f.calls():
        if mc.callee.endswith(('Iterator::map', 'Iterator::filter_map', 'Iterator::try_for_each', 'Iterator::for_each', 'Iterator::try_fold', 'Iterator::fold')) and len(mc.args) >= 2:
            clo = strip(mc.arg_term(len(mc.args) - 1))
            if clo[0] == 'closure' and F.fn(clo[1]) is not None:
                g = F.fn(clo[1])
                for c in g.calls():
                    if c.callee.endswith('Distance::built_distance'):
                        bd.append((c, g, list(clo[2]), mc))
    if not ctx.need(len(bd) >= 1, rule, 'D::built_distance call in the scoring loop'):
        return
    for c, g, caps, mc in bd:
        def up(t):
            return closure_subst(t, caps) if caps is not None else t
        q, l = strip(up(c.arg_term(0))), up(c.arg_term(1))
        gets = [s for s in walk(l) if s[0] == 'call' and s[1].endswith('::get') and s[1].startswith('heed::Database')]
        okq = root(q)[0] == 'arg' or root(l)[0] == 'arg'
        okg = False
        idt = None
        if gets:
            ki = key_info(gets[0][2][2])
            okg = ki is not None and ki[0] == 'item' and strip(ki[1])[0] == 'field' and strip(ki[1])[2] == 'index' and root(gets[0][2][1])[0] == 'arg'
            idt = ki[2] if ki else None
        ctx.check(okq and okg, rule, f.path + '/distance-from-live-leaf', c.loc(), 'distance = D::built_distance(query leaf, leaf fetched by Key::item(self.index, id) in the caller txn)',
                  'candidates of `%s` are not scored against the leaf fetched under Key::item(self.index, id) in the caller\'s transaction' % f.path)

        def scored_pair(t):
            t = strip(t)
            if t[0] == 'agg' and t[1].endswith('cmp::Reverse'):
                inner = strip(t[3][0][1])
                if inner[0] == 'tuple' and len(inner[1]) == 2 and idt is not None and same(up(inner[1][1]), idt):
                    return any(s[0] == 'agg' and s[1].endswith('OrderedFloat') and paths.mentions_call(s, c.bb) for s in walk(inner[1][0]))
            return False
        okp = False
        if g is f:
            # pushed as Reverse((OrderedFloat(distance), same id))
            pushes = [p for p in f.calls() if p.callee.endswith('::push') and paths.mentions_call(p.arg_term(1), c.bb)]
            okp = any(scored_pair(p.arg_term(1)) for p in pushes)
            # ... for every candidate: no iteration of the scoring loop may skip the push (a dropped candidate is a missing result)
            nxs = [x for x in f.calls() if x.callee.endswith('Iterator::next') and tv.nns_term is not None and any(y == tv.nns_term for y in walk(strip_all(x.arg_term(0))))]
            # (only the `next` of the loop the scoring call sits in: a later loop bounded by the number of candidates is not it)
            inloop = set()
            for h in f.dominators().get(c.bb, ()):
                lp = paths.natural_loop(f, h)
                if c.bb in lp:
                    inloop |= set(lp)
            nxs = [x for x in nxs if x.bb in inloop]
            good_p = [p for p in pushes if scored_pair(p.arg_term(1))]
            every = bool(nxs) and bool(good_p) and all(loop_every_iteration(f, x, good_p[0].bb) for x in nxs)
            ctx.check(every, 'S8-SCORE', f.path + '/every-candidate-scored', c.loc(), 'every deduplicated candidate is scored and queued for output',
                      'the scoring loop of `%s` can skip a candidate (a path to the next candidate avoids the push): results would be missing whatever their distance' % f.path)
        else:
            # the closure yields Ok(Reverse((OrderedFloat(distance), its own id parameter))) and is mapped over the
            # deduplicated candidate list; the collected pairs feed the output heap
            oks = [t for b, k, t in paths.ret_assigns(g) if k == 'ok']
            okr = bool(oks) and all(scored_pair(dict(strip(t)[3]).get('0')) for t in oks) and strip(idt)[0] == 'arg' and strip(idt)[1] == 2
            src = strip_all(mc.arg_term(0))
            oksrc = tv.nns_term is not None and any(x == tv.nns_term for x in walk(src)) and mc.callee.endswith('Iterator::map')
            heap_src = [h for h in f.calls() if 'BinaryHeap' in h.callee + h.resolved and h.callee.endswith(('From::from', 'FromIterator::from_iter', 'Iterator::collect', 'Extend::extend', 'BinaryHeap::<T>::from'))
                        and any(paths.mentions_call(h.arg_term(i), mc.bb) for i in range(len(h.args)))]
            okp = okr and oksrc and bool(heap_src)
        ctx.check(okp, 'S9-OUTPUT', f.path + '/scored-pair', c.loc(), 'Reverse((OrderedFloat(distance), id)) of the same id',
                  'the distance computed in `%s` is not paired with the id it was computed for (or not in a min-first order)' % f.path)
    # the output heap and the bound
    hty = [loc['ty'] for loc in f.locals if loc['ty'].startswith('std::collections::BinaryHeap<std::cmp::Reverse<(')]
    ctx.check(bool(hty) and all('ordered_float::OrderedFloat<f32>, u32' in t for t in hty), 'S9-OUTPUT', f.path + '/min-heap', f.loc(),
              'results popped from BinaryHeap<Reverse<(OrderedFloat<f32>, ItemId)>> (nearest first, NaN-total order)',
              'the results of `%s` do not come out of a BinaryHeap<Reverse<(OrderedFloat<f32>, ItemId)>>: %s' % (f.path, hty))
    def is_count(t):
        t0 = strip(t)
        return (t0[0] == 'field' and t0[2] == 'count') or (t0[0] == 'arg' and f.local_name(t0[1]) == 'count')

    def is_scored_len(t):
        t0 = strip(t)
        return t0[0] == 'call' and t0[1].endswith('::len') and bool(t0[2])

    def min_of_count_and_len(t):
        """`count.min(len)` / `cmp::min(count, len)` / `if count < len { count } else { len }` (any spelling of the test)"""
        t0 = strip(t)
        if t0[0] == 'call' and t0[1].endswith('::min') and len(t0[2]) == 2:
            a, b = t0[2]
            return (is_count(a) and is_scored_len(b)) or (is_count(b) and is_scored_len(a))
        if t0[0] == 'phi' and len(t0[2]) == 2:
            pd = phi_defs(f, t0) or []
            if len(pd) != 2:
                return False
            ok_all = True
            for bdef, tdef in pd:
                picks_count = is_count(tdef)
                picks_len = is_scored_len(tdef)
                if not (picks_count or picks_len):
                    return False
                decided = False
                for s0, x0, e in paths.controlling_conds(f, bdef, transitive=False):
                    if e[0] != 'bool':
                        continue
                    c0 = strip(e[1])
                    if c0[0] == 'binop' and c0[1] in ('Lt', 'Le', 'Gt', 'Ge'):
                        l_, r_ = c0[2], c0[3]
                        if is_count(l_) and is_scored_len(r_):
                            cnt_first = True
                        elif is_scored_len(l_) and is_count(r_):
                            cnt_first = False
                        else:
                            continue
                        # on this edge: is count the smaller (or equal) one?
                        for cv, lv in ((1, 2), (2, 1)):
                            a_, b_ = (cv, lv) if cnt_first else (lv, cv)
                            truth = {'Lt': a_ < b_, 'Le': a_ <= b_, 'Gt': a_ > b_, 'Ge': a_ >= b_}[c0[1]]
                            if truth == e[2]:
                                # this ordering reaches the definition: the picked value must be the minimum
                                if (picks_count and cv > lv) or (picks_len and lv > cv):
                                    ok_all = False
                        decided = True
                if not decided:
                    return False
            return ok_all
        return False
    caps = []
    for bi, blk in enumerate(f.blocks):
        if blk['cleanup']:
            continue
        c = f.call_at(bi)
        if c is not None and c.callee.endswith('::min') and len(c.args) == 2 and min_of_count_and_len(('call', c.callee, [c.arg_term(0), c.arg_term(1)], bi)):
            caps.append(('call', bi))
    for l, loc in enumerate(f.locals):
        if loc['ty'] == 'usize':
            t = f.local_term(l)
            if strip(t)[0] == 'phi' and min_of_count_and_len(t):
                caps.append(('phi', l))
    okm = bool(caps)
    ctx.check(okm, 'S9-OUTPUT', f.path + '/bound', f.loc(), 'capacity = min(count, scored candidates)', 'the result bound of `%s` is not min(count, number of scored candidates)' % f.path)

    def is_cap(x):
        for y in walk(x):
            if y[0] == 'call' and y[1].endswith('::min') and isinstance(y[3], int) and ('call', y[3]) in caps:
                return True
            if y[0] == 'phi' and ('phi', y[1]) in caps:
                return True
        return False
    # output loop: break when len == capacity, push (item, normalized_distance(dist, self.dimensions)) of the same popped tuple
    nd = [c for c in f.calls() if c.callee.endswith('Distance::normalized_distance')]
    oko = False
    for c in nd:
        d0, dims = strip(c.arg_term(0)), strip(c.arg_term(1))
        pops = [s for s in walk(d0) if s[0] == 'call' and s[1].endswith('::pop')]
        okdim = dims[0] == 'field' and dims[2] == 'dimensions' or (dims[0] == 'call' and dims[1].endswith('::dimensions'))
        pushes = [p for p in f.calls() if p.callee.endswith('Vec::<T, A>::push') and paths.mentions_call(p.arg_term(1), c.bb)]
        for p in pushes:
            t = strip(p.arg_term(1))
            if t[0] == 'tuple' and len(t[1]) == 2 and pops:
                idp = [s for s in walk(t[1][0]) if s[0] == 'call' and s[1].endswith('::pop')]
                oko = okdim and bool(idp) and idp[0][3] == pops[0][3]
                # bounded: the push is reachable only while len != capacity
                conds = [e for s, x, e in paths.controlling_conds(f, p.bb, transitive=True) if e[0] == 'bool' and paths.edge_dominates(f, s, x, p.bb)]
                okb = False
                outv = strip_all(p.arg_term(0))
                for e in conds:
                    c0 = strip(e[1])
                    if c0[0] != 'binop':
                        continue
                    a, b2 = strip(c0[2]), strip(c0[3])
                    def is_len_out(x):
                        return x[0] == 'call' and x[1].endswith('::len') and x[2] and strip_all(x[2][0]) == outv
                    op, tr = c0[1], e[2]
                    if is_len_out(a) and is_cap(b2):
                        okb = okb or (op, tr) in (('Lt', True), ('Ge', False), ('Eq', False), ('Ne', True))
                    elif is_cap(a) and is_len_out(b2):
                        okb = okb or (op, tr) in (('Gt', True), ('Le', False), ('Eq', False), ('Ne', True))
                if not okb:
                    # `for _ in 0..capacity { match heap.pop() { Some(e) => out.push(..), None => break } }`: one push per round
                    for s0, x0, e in paths.controlling_conds(f, p.bb, transitive=True):
                        if e[0] == 'disc' and e[1][0] == 'discr' and strip(e[1][1])[0] == 'call' and strip(e[1][1])[1].endswith('Iterator::next'):
                            nx = strip(e[1][1])
                            rng = [y for y in walk(nx) if y[0] == 'agg' and y[1].endswith('ops::Range')]
                            if rng and const_eval(dict(rng[0][3])['start']) == 0 and is_cap(dict(rng[0][3])['end']):
                                nxc = f.call_at(nx[3])
                                # the push cannot run twice without another `next` on the range
                                again = f.reachable(p.target, avoid=[nxc.bb]) if nxc is not None else set()
                                okb = nxc is not None and p.bb not in again
                oko = oko and okb
    if not oko:
        # iterator pipeline: out.extend(from_fn(|| heap.pop()).take(capacity).map(|Reverse((OrderedFloat(d), id))| (id, normalized(d, dims))))
        for c in f.calls():
            if not c.callee.endswith(('Extend::extend', 'Vec::<T, A>::extend', 'Iterator::collect')):
                continue
            it = strip(c.arg_term(len(c.args) - 1))
            if not (it[0] == 'call' and it[1].endswith('Iterator::map') and len(it[2]) == 2):
                continue
            tk, mp = strip(it[2][0]), strip(it[2][1])
            if not (tk[0] == 'call' and tk[1].endswith('Iterator::take') and len(tk[2]) == 2 and is_cap(tk[2][1])):
                continue
            src = strip(tk[2][0])
            if not (src[0] == 'call' and src[1].endswith('iter::from_fn') and src[2] and strip(src[2][0])[0] == 'closure'):
                continue
            gp = F.fn(strip(src[2][0])[1])
            gm = F.fn(mp[1]) if mp[0] == 'closure' else None
            if gp is None or gm is None:
                continue
            prs = [strip(t) for b0, k0, t in paths.ret_assigns(gp)]
            pops_ok = len(prs) == 1 and prs[0][0] == 'call' and prs[0][1].endswith('BinaryHeap::<T, A>::pop')
            good_map = False
            for b0, k0, t in paths.ret_assigns(gm):
                t0 = strip(t)
                if t0[0] == 'tuple' and len(t0[1]) == 2:
                    idt, dt = strip(t0[1][0]), strip(t0[1][1])
                    from_param = lambda x: any(y[0] == 'arg' and y[1] == 2 for y in walk(x))
                    if dt[0] == 'call' and dt[1].endswith('Distance::normalized_distance') and len(dt[2]) == 2:
                        dims = strip(dt[2][1])
                        okdim = any(y[0] == 'field' and y[2] == 'dimensions' for y in walk(dims)) or (dims[0] == 'call' and dims[1].endswith('::dimensions'))
                        good_map = okdim and from_param(dt[2][0]) and from_param(idt) and not any(y[0] == 'call' for y in walk(idt))
            if pops_ok and good_map:
                oko = True
    ctx.check(oko, 'S9-OUTPUT', f.path + '/emit', nd[0].loc() if nd else f.loc(), 'emits (id, D::normalized_distance(d, self.dimensions)) of one popped entry while len < capacity',
              'the output loop of `%s` does not emit (id, normalized distance) pairs of single heap entries bounded by the capacity' % f.path)
    # the function returns that output vector
    # S12: empty index => Ok(empty) early
    oke = False
    for s0, x, e in [(s0, x, paths.edge_cond(f, s0, x)) for s0 in f.live_blocks() if paths.switch_at(f, s0) for x in f.succ(s0)]:
        if e and e[0] == 'bool' and e[2]:
            c = strip(e[1])
            if c[0] == 'call' and c[1].endswith('::is_empty') and any(s[0] == 'field' and s[2] == 'items' for s in walk(c)):
                rets = [rb for rb, k, t in paths.ret_assigns(f) if k == 'ok' and rb in f.reachable(x) and tv.pop.bb not in f.reachable(x)]
                oke = oke or bool(rets)
    ctx.check(oke, 'S12-EMPTY', f.path + '/empty-index', f.loc(), 'an empty index returns Ok(empty) without traversing', 'an empty index is no longer answered with an empty result')


def r_result_untouched(ctx, rule='S11-ENTRY'):
    """the public query entry points hand the traversal's result to the caller as it is: the (id, distance) pairs are not
    edited on the way out (no mutable borrow, no element store, no call other than the Result / Option plumbing)"""
    F = ctx.F
    tvs = traversal(F)
    if len(tvs) != 1:
        return
    tpath = tvs[0].path
    n = 0
    for f in F.lib_fns():
        if not f.path.startswith('reader::QueryBuilder'):
            continue
        for c in f.calls():
            if c.callee != tpath:
                continue
            n += 1
            holders = {c.dest['l']}
            work = [c.dest['l']]
            bad = None
            PLUMBING = ('Try::branch', 'FromResidual::from_residual', 'Result::<T, E>::map', 'Option::<T>::map', 'From::from', 'Into::into', 'Option::<T>::Some',
                        'Result::<T, E>::map_err', 'Result::<T, E>::and_then', 'Option::<T>::and_then', 'Result::<T, E>::transpose', 'Option::<T>::transpose', 'Result::<T, E>::Ok')
            while work and bad is None:
                l = work.pop()
                for u in f.uses(l):
                    if u['k'] == 'drop' or u['k'] == 'switch':
                        continue
                    if u['k'] == 'rv':
                        rk = u['rk']
                        if rk == 'ref' and u['rv'].get('mut'):
                            bad = 'mutably borrowed'
                        elif rk in ('use', 'agg', 'discr', 'cast') or (rk == 'ref' and not u['rv'].get('mut')):
                            dl = u['dest']['l']
                            if rk != 'discr' and dl not in holders and dl != 0:
                                holders.add(dl)
                                work.append(dl)
                        else:
                            bad = 'used by `%s`' % rk
                    elif u['k'] == 'arg':
                        cal = u['call'].callee
                        if cal.endswith(PLUMBING):
                            dl = u['call'].dest['l']
                            if dl not in holders and dl != 0:
                                holders.add(dl)
                                work.append(dl)
                        else:
                            bad = 'passed to `%s`' % short(cal)
                    elif u['k'] == 'store-through':
                        bad = 'written through'
            ctx.check(bad is None, rule, '%s/result-untouched#%d' % (f.path, n), c.loc(), 'the traversal result is returned unmodified',
                      '`%s` edits the result of the traversal before returning it (%s): the (id, distance) pairs the caller sees are no longer the computed ones' % (f.path, bad))
    ctx.floor(rule, 'calls of the traversal from the query builder', n, 2)


def r_entry_points(ctx, rule='S11-ENTRY'):
    F = ctx.F
    tvs = traversal(F)
    bi = F.one("reader::QueryBuilder::<'a, D>::by_item")
    bv = F.one("reader::QueryBuilder::<'a, D>::by_vector")
    if not ctx.need(bi is not None and bv is not None and len(tvs) == 1, rule, 'by_item / by_vector / one traversal function'):
        return
    r_result_untouched(ctx, rule)
    t = tvs[0]
    ci = [c for g in F.family(bi) for c in g.calls() if c.callee == t.path]
    cv = [c for g in F.family(bv) for c in g.calls() if c.callee == t.path]
    ctx.check(len(ci) == 1 and len(cv) == 1, rule, 'same-traversal', bi.loc(), 'by_item and by_vector delegate to the same traversal', 'by_item and by_vector no longer share one traversal function')
    if ci:
        c = ci[0]
        # leaf from item_leaf(reader.database, reader.index, rtxn, item): directly, or as the receiver of the
        # `Option::map(|leaf| traversal(.., &leaf, ..))` whose closure contains the call
        lt = c.arg_term(2)
        il = [s for s in walk(lt) if s[0] == 'call' and s[1] == 'reader::item_leaf']
        via_map = False
        if not il and c.fn is not bi:
            for x in bi.calls():
                if x.callee.endswith('Option::<T>::map') and strip(x.arg_term(1))[0] == 'closure' and strip(x.arg_term(1))[1] == c.fn.path:
                    il = [s for s in walk(x.arg_term(0)) if s[0] == 'call' and s[1] == 'reader::item_leaf']
                    la = strip(lt)
                    via_map = la[0] == 'arg' and la[1] == 2
        good = bool(il)
        if il:
            a = il[0][2]
            good = strip(a[1])[0] == 'field' and strip(a[1])[2] == 'index' and strip(a[3])[0] == 'arg' and bi.local_ty(strip(a[3])[1]) == 'u32' and (via_map or c.fn is bi)
        ctx.check(good, rule, 'by_item/leaf', c.loc(), 'queries with the stored leaf of (reader.index, item)', 'by_item does not query with the stored leaf of the requested item')
        # None => Ok(None) without error; Some => map(Some)
        rets = paths.ret_assigns(bi)
        none_ok = any(k == 'ok' and 'None' in show(tt) for b, k, tt in rets)
        if via_map:
            none_ok = any(k == 'call' and tt[1].endswith('::transpose') and any(s[0] == 'call' and s[1].endswith('Option::<T>::map') for s in walk(tt)) for b, k, tt in rets)
        errs = [paths.err_variant(tt) for b, k, tt in rets if k == 'err']
        ctx.check(none_ok and not errs, rule, 'by_item/unknown-id', bi.loc(), 'unknown id => Ok(None)', 'by_item turns an unknown id into something else than Ok(None) (%s)' % errs)
        # ... and only then: Ok(None) is returned on the None arm of the item lookup and nowhere else (a shortcut deciding
        # "unknown id" from counts or id ranges disagrees with the item store for sparse ids)
        stray = []
        for b, k, tt in rets:
            if k != 'ok':
                continue
            pay = strip(dict(strip(tt)[3]).get('0', ('unknown',))) if strip(tt)[0] == 'agg' else ('unknown',)
            if not (pay[0] == 'agg' and pay[1].endswith('option::Option') and pay[2] == 'None'):
                continue
            on_lookup = False
            for s0, x0, e in paths.controlling_conds(bi, b):
                if e[0] in ('disc', 'bool') and any(y[0] == 'call' and y[1] == 'reader::item_leaf' for y in walk(e[1])) and paths.edge_dominates(bi, s0, x0, b):
                    on_lookup = True
            if not on_lookup:
                stray.append(b)
        ctx.check(not stray, rule, 'by_item/none-only-when-absent', bi.loc(), 'Ok(None) only on the None arm of the item lookup',
                  'by_item answers Ok(None) without having looked the item up (%d return site(s)): a stored item can be reported as unknown while by_vector with its vector finds neighbours' % len(stray))
    if cv:
        c = cv[0]
        leaf = paths.agg_fields(c.arg_term(2), 'node::Leaf')
        good = False
        if leaf:
            v, h = strip(leaf['vector']), strip(leaf['header'])
            good = v[0] == 'call' and v[1].endswith('::from_slice') and strip(v[2][0])[0] == 'arg' and h[0] == 'call' and h[1].endswith('Distance::new_header') and same(h[2][0], leaf['vector'])
        ctx.check(good, rule, 'by_vector/leaf', c.loc(), 'queries with Leaf{header: D::new_header(&v), vector: v} of the caller vector', 'by_vector does not query with a leaf built from the caller\'s vector')


HEADER_QUERY_METHODS = ('built_distance', 'margin_no_header', 'normalized_distance', 'pq_distance')


def r_header_discipline(ctx, rule='R-HEADER'):
    """per metric: header fields read on the query path are computed by new_header from the vector alone
    and are not rewritten by preprocess (so a stored leaf and a fresh leaf of the same vector are indistinguishable)"""
    F = ctx.F
    metrics = sorted({i['self'] for i in F.trait_impls('distance::Distance')})
    ctx.floor(rule, 'Distance impls', len(metrics), 7)
    for m in metrics:
        def meth(name):
            return F.fns.get('<%s as distance::Distance>::%s' % (m, name)) or F.fns.get('distance::Distance::%s' % name)
        # fields written by preprocess
        pre = F.fns.get('<%s as distance::Distance>::preprocess' % m)
        written = set()
        if pre is not None:
            for g in F.family(pre):
                for blk in g.blocks:
                    for st in blk['stmts']:
                        names = [e.get('n') for e in st['place']['p'] if e['k'] == 'field']
                        if 'header' in names:
                            written.add(names[names.index('header') + 1] if names.index('header') + 1 < len(names) else '*')
        # fields new_header derives from the vector (non-constant)
        nh = meth('new_header')
        derived = set()
        constant = set()
        if nh is not None:
            for b, k, t in paths.ret_assigns(nh):
                if t[0] == 'agg':
                    for fl, ft in t[3]:
                        if any(s[0] == 'arg' for s in walk(ft)):
                            derived.add(fl)
                        else:
                            constant.add(fl)
        # fields read on the query path
        seen = {}
        work = [meth(n) for n in HEADER_QUERY_METHODS if meth(n) is not None]
        reads = {}
        while work:
            g = work.pop()
            if g.path in seen:
                continue
            seen[g.path] = g
            for h in F.family(g):
                for blk in h.blocks:
                    if blk['cleanup']:
                        continue
                    ops = []
                    for st in blk['stmts']:
                        rv = st['rv']
                        for key in ('o', 'a', 'b'):
                            if key in rv and isinstance(rv[key], dict) and rv[key].get('k') in ('copy', 'move'):
                                ops.append(rv[key]['place'])
                        for o in rv.get('ops', []):
                            if o.get('k') in ('copy', 'move'):
                                ops.append(o['place'])
                        if 'place' in rv:
                            ops.append(rv['place'])
                    t = blk['term']
                    if t['k'] == 'call':
                        for a in t['args']:
                            if a.get('k') in ('copy', 'move'):
                                ops.append(a['place'])
                    for pl in ops:
                        names = [e.get('n') for e in pl['p'] if e['k'] == 'field']
                        if 'header' in names:
                            i = names.index('header')
                            reads.setdefault(names[i + 1] if i + 1 < len(names) else '*', h.path)
                for c in h.calls():
                    for k in F.resolve_call(c):
                        if (m in k.path or k.path.startswith('distance::Distance::')) and 'preprocess' not in k.path and 'create_split' not in k.path:
                            # restrict trait-dispatch expansion to this metric
                            if ' as distance::Distance>' in k.path and not k.path.startswith('<%s as ' % m):
                                continue
                            work.append(k)
        bad = {fl: w for fl, w in reads.items() if fl in written or (fl in constant and fl not in derived and pre is not None)}
        ctx.check(not bad, rule, m.split('::')[-1], nh.loc() if nh else '', 'query path reads header fields %s; preprocess rewrites %s' % (sorted(reads), sorted(written)),
                  'metric %s: the query path reads header field(s) %s (in %s) that only the build-time preprocess fills: a stored item and the same vector given by value would be scored differently (by_item != by_vector)' % (
                      m.split('::')[-1], sorted(bad), sorted(set(bad.values()))))
