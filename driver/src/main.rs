#![feature(rustc_private)]
extern crate rustc_abi;
extern crate rustc_driver;
extern crate rustc_hir;
extern crate rustc_interface;
extern crate rustc_middle;
extern crate rustc_span;

use rustc_driver::Compilation;
use rustc_hir::def::DefKind;
use rustc_hir::def_id::{DefId, LOCAL_CRATE};
use rustc_interface::interface::Compiler;
use rustc_middle::mir::{
    self, AggregateKind, Body, Const, Operand, Place, ProjectionElem, Rvalue,
    StatementKind, TerminatorKind,
};
use rustc_middle::ty::{self, Ty, TyCtxt};
use rustc_middle::ty::print::PrintTraitRefExt;
use std::fmt::Write as _;

fn esc(s: &str) -> String {
    let mut o = String::with_capacity(s.len() + 2);
    o.push('"');
    for c in s.chars() {
        match c {
            '"' => o.push_str("\\\""),
            '\\' => o.push_str("\\\\"),
            '\n' => o.push_str("\\n"),
            '\t' => o.push_str("\\t"),
            c if (c as u32) < 0x20 => {
                let _ = write!(o, "\\u{:04x}", c as u32);
            }
            c => o.push(c),
        }
    }
    o.push('"');
    o
}

struct Cx<'tcx> {
    tcx: TyCtxt<'tcx>,
}

impl<'tcx> Cx<'tcx> {
    fn span(&self, sp: rustc_span::Span) -> String {
        let sm = self.tcx.sess.source_map();
        let exp = sp.from_expansion();
        let sp2 = sp.source_callsite();
        let lo = sm.lookup_char_pos(sp2.lo());
        let hi = sm.lookup_char_pos(sp2.hi());
        format!(
            "{{\"file\":{},\"line\":{},\"col\":{},\"eline\":{},\"ecol\":{},\"exp\":{}}}",
            esc(&format!("{}", lo.file.name.prefer_local_unconditionally())),
            lo.line,
            lo.col.0 + 1,
            hi.line,
            hi.col.0 + 1,
            exp
        )
    }

    fn ty(&self, t: Ty<'tcx>) -> String {
        esc(&format!("{}", t))
    }

    fn place(&self, body: &Body<'tcx>, p: &Place<'tcx>) -> String {
        let mut s = format!("{{\"l\":{},\"p\":[", p.local.as_usize());
        let mut first = true;
        for (base, elem) in p.iter_projections() {
            if !first {
                s.push(',');
            }
            first = false;
            let bty = base.ty(&body.local_decls, self.tcx);
            match elem {
                ProjectionElem::Deref => s.push_str("{\"k\":\"deref\"}"),
                ProjectionElem::Field(f, fty) => {
                    let mut name = format!("{}", f.as_usize());
                    if let ty::Adt(adt, _) = bty.ty.kind() {
                        let vidx = bty.variant_index.unwrap_or(rustc_abi::FIRST_VARIANT);
                        if adt.is_enum() || adt.is_struct() || adt.is_union() {
                            let v = adt.variant(vidx);
                            if let Some(fd) = v.fields.get(f) {
                                name = fd.name.to_string();
                            }
                        }
                    }
                    let _ = write!(
                        s,
                        "{{\"k\":\"field\",\"i\":{},\"n\":{},\"ty\":{}}}",
                        f.as_usize(),
                        esc(&name),
                        self.ty(fty)
                    );
                }
                ProjectionElem::Downcast(name, vidx) => {
                    let n = name.map(|n| n.to_string()).unwrap_or_default();
                    let _ = write!(
                        s,
                        "{{\"k\":\"downcast\",\"v\":{},\"n\":{}}}",
                        vidx.as_usize(),
                        esc(&n)
                    );
                }
                ProjectionElem::Index(l) => {
                    let _ = write!(s, "{{\"k\":\"index\",\"l\":{}}}", l.as_usize());
                }
                ProjectionElem::ConstantIndex { offset, from_end, .. } => {
                    let _ = write!(
                        s,
                        "{{\"k\":\"cindex\",\"o\":{},\"from_end\":{}}}",
                        offset, from_end
                    );
                }
                ProjectionElem::Subslice { from, to, from_end } => {
                    let _ = write!(
                        s,
                        "{{\"k\":\"subslice\",\"from\":{},\"to\":{},\"from_end\":{}}}",
                        from, to, from_end
                    );
                }
                _ => s.push_str("{\"k\":\"other\"}"),
            }
        }
        s.push_str("]}");
        s
    }

    fn constant(&self, def: DefId, c: &Const<'tcx>) -> String {
        let tcx = self.tcx;
        let ty = c.ty();
        let mut s = format!("{{\"ty\":{}", self.ty(ty));
        if let ty::FnDef(fd, args) = ty.kind() {
            let _ = write!(s, ",\"fn\":{}", esc(&tcx.def_path_str(*fd)));
            let _ = write!(s, ",\"fnargs\":{}", esc(&format!("{:?}", args)));
        } else {
            let env = ty::TypingEnv::post_analysis(tcx, def);
            if ty.is_integral() || ty.is_bool() || ty.is_char() || ty.is_floating_point() {
                if let Some(si) = c.try_eval_scalar_int(tcx, env) {
                    let size = si.size();
                    let bits = si.to_bits(size);
                    let _ = write!(s, ",\"bits\":\"{}\",\"size\":{}", bits, size.bytes());
                }
            }
            let _ = write!(s, ",\"text\":{}", esc(&format!("{}", c)));
        }
        s.push('}');
        s
    }

    fn operand(&self, def: DefId, body: &Body<'tcx>, o: &Operand<'tcx>) -> String {
        match o {
            Operand::Copy(p) => format!("{{\"k\":\"copy\",\"place\":{}}}", self.place(body, p)),
            Operand::Move(p) => format!("{{\"k\":\"move\",\"place\":{}}}", self.place(body, p)),
            Operand::Constant(c) => {
                format!("{{\"k\":\"const\",\"c\":{}}}", self.constant(def, &c.const_))
            }
            _ => "{\"k\":\"other\"}".to_string(),
        }
    }

    fn rvalue(&self, def: DefId, body: &Body<'tcx>, r: &Rvalue<'tcx>) -> String {
        let tcx = self.tcx;
        match r {
            Rvalue::Use(o, _) => format!("{{\"k\":\"use\",\"o\":{}}}", self.operand(def, body, o)),
            Rvalue::Ref(_, bk, p) => format!(
                "{{\"k\":\"ref\",\"mut\":{},\"place\":{}}}",
                matches!(bk, mir::BorrowKind::Mut { .. }),
                self.place(body, p)
            ),
            Rvalue::RawPtr(k, p) => format!(
                "{{\"k\":\"rawptr\",\"kind\":{},\"place\":{}}}",
                esc(&format!("{:?}", k)),
                self.place(body, p)
            ),
            Rvalue::BinaryOp(op, ops) => format!(
                "{{\"k\":\"binop\",\"op\":{},\"a\":{},\"b\":{}}}",
                esc(&format!("{:?}", op)),
                self.operand(def, body, &ops.0),
                self.operand(def, body, &ops.1)
            ),
            Rvalue::UnaryOp(op, o) => format!(
                "{{\"k\":\"unop\",\"op\":{},\"a\":{}}}",
                esc(&format!("{:?}", op)),
                self.operand(def, body, o)
            ),
            Rvalue::Cast(ck, o, t) => format!(
                "{{\"k\":\"cast\",\"ck\":{},\"a\":{},\"ty\":{}}}",
                esc(&format!("{:?}", ck)),
                self.operand(def, body, o),
                self.ty(*t)
            ),
            Rvalue::Discriminant(p) => {
                format!("{{\"k\":\"discr\",\"place\":{}}}", self.place(body, p))
            }
            Rvalue::Aggregate(kind, ops) => {
                let mut s = String::from("{\"k\":\"agg\",");
                match &**kind {
                    AggregateKind::Adt(did, vidx, _, _, _) => {
                        let adt = tcx.adt_def(*did);
                        let v = adt.variant(*vidx);
                        let _ = write!(
                            s,
                            "\"agg\":\"adt\",\"adt\":{},\"variant\":{},\"vidx\":{},\"fields\":[",
                            esc(&tcx.def_path_str(*did)),
                            esc(&v.name.to_string()),
                            vidx.as_usize()
                        );
                        for (i, f) in v.fields.iter().enumerate() {
                            if i > 0 {
                                s.push(',');
                            }
                            s.push_str(&esc(&f.name.to_string()));
                        }
                        s.push_str("],");
                    }
                    AggregateKind::Tuple => s.push_str("\"agg\":\"tuple\","),
                    AggregateKind::Array(_) => s.push_str("\"agg\":\"array\","),
                    AggregateKind::Closure(did, _) => {
                        let _ = write!(
                            s,
                            "\"agg\":\"closure\",\"closure\":{},",
                            esc(&tcx.def_path_str(*did))
                        );
                    }
                    _ => s.push_str("\"agg\":\"other\","),
                }
                s.push_str("\"ops\":[");
                for (i, o) in ops.iter().enumerate() {
                    if i > 0 {
                        s.push(',');
                    }
                    s.push_str(&self.operand(def, body, o));
                }
                s.push_str("]}");
                s
            }
            Rvalue::Repeat(o, _) => {
                format!("{{\"k\":\"repeat\",\"o\":{}}}", self.operand(def, body, o))
            }
            other => format!("{{\"k\":\"other\",\"text\":{}}}", esc(&format!("{:?}", other))),
        }
    }

    fn body(&self, did: DefId) -> String {
        let tcx = self.tcx;
        let body = tcx.optimized_mir(did);
        let mut s = self.body_of(did, body);
        s.push_str(",\"promoted\":[");
        if let Some(ldid) = did.as_local() {
            let _ = ldid;
            let proms = tcx.promoted_mir(did);
            for (i, pb) in proms.iter().enumerate() {
                if i > 0 {
                    s.push(',');
                }
                s.push('{');
                s.push_str(&self.body_of(did, pb));
                s.push('}');
            }
        }
        s.push(']');
        s
    }

    fn body_of(&self, did: DefId, body: &Body<'tcx>) -> String {
        let tcx = self.tcx;
        let mut s = String::new();
        let _ = write!(s, "\"arg_count\":{},\"locals\":[", body.arg_count);
        let mut names: Vec<Option<String>> = vec![None; body.local_decls.len()];
        for vdi in &body.var_debug_info {
            if let mir::VarDebugInfoContents::Place(p) = &vdi.value {
                if p.projection.is_empty() {
                    names[p.local.as_usize()] = Some(vdi.name.to_string());
                }
            }
        }
        for (i, (l, d)) in body.local_decls.iter_enumerated().enumerate() {
            if i > 0 {
                s.push(',');
            }
            let _ = write!(
                s,
                "{{\"ty\":{},\"name\":{}}}",
                self.ty(d.ty),
                names[l.as_usize()].as_ref().map(|n| esc(n)).unwrap_or("null".into())
            );
        }
        s.push_str("],\"blocks\":[");
        for (bi, (_bb, data)) in body.basic_blocks.iter_enumerated().enumerate() {
            if bi > 0 {
                s.push(',');
            }
            let _ = write!(s, "{{\"cleanup\":{},\"stmts\":[", data.is_cleanup);
            let mut first = true;
            for st in &data.statements {
                if let StatementKind::Assign(b) = &st.kind {
                    if !first {
                        s.push(',');
                    }
                    first = false;
                    let (p, r) = &**b;
                    let _ = write!(
                        s,
                        "{{\"place\":{},\"rv\":{},\"span\":{}}}",
                        self.place(body, p),
                        self.rvalue(did, body, r),
                        self.span(st.source_info.span)
                    );
                }
            }
            s.push_str("],\"term\":");
            let term = data.terminator();
            let sp = self.span(term.source_info.span);
            match &term.kind {
                TerminatorKind::Goto { target } => {
                    let _ = write!(s, "{{\"k\":\"goto\",\"t\":{}}}", target.as_usize());
                }
                TerminatorKind::SwitchInt { discr, targets } => {
                    let _ = write!(
                        s,
                        "{{\"k\":\"switch\",\"discr\":{},\"targets\":[",
                        self.operand(did, body, discr)
                    );
                    for (i, (v, t)) in targets.iter().enumerate() {
                        if i > 0 {
                            s.push(',');
                        }
                        let _ = write!(s, "[\"{}\",{}]", v, t.as_usize());
                    }
                    let _ = write!(
                        s,
                        "],\"otherwise\":{},\"span\":{}}}",
                        targets.otherwise().as_usize(),
                        sp
                    );
                }
                TerminatorKind::Return => s.push_str("{\"k\":\"return\"}"),
                TerminatorKind::Unreachable => s.push_str("{\"k\":\"unreachable\"}"),
                TerminatorKind::UnwindResume => s.push_str("{\"k\":\"resume\"}"),
                TerminatorKind::Drop { place, target, .. } => {
                    let _ = write!(
                        s,
                        "{{\"k\":\"drop\",\"place\":{},\"t\":{}}}",
                        self.place(body, place),
                        target.as_usize()
                    );
                }
                TerminatorKind::Assert { cond, expected, msg, target, .. } => {
                    let kind = format!("{:?}", msg);
                    let kind = kind.split('(').next().unwrap_or("").to_string();
                    let op = if let mir::AssertKind::Overflow(op, _, _) = &**msg {
                        format!("{:?}", op)
                    } else {
                        String::new()
                    };
                    let _ = write!(
                        s,
                        "{{\"k\":\"assert\",\"cond\":{},\"expected\":{},\"kind\":{},\"op\":{},\"t\":{},\"span\":{}}}",
                        self.operand(did, body, cond),
                        expected,
                        esc(&kind),
                        esc(&op),
                        target.as_usize(),
                        sp
                    );
                }
                TerminatorKind::Call { func, args, destination, target, .. } => {
                    let fty = func.ty(&body.local_decls, tcx);
                    let mut callee = String::from("null");
                    let mut resolved = String::from("null");
                    let mut gargs = String::from("null");
                    let mut feats = String::from("[]");
                    if let ty::FnDef(cd, ga) = fty.kind() {
                        callee = esc(&tcx.def_path_str(*cd));
                        gargs = esc(&format!("{:?}", ga));
                        let env = ty::TypingEnv::post_analysis(tcx, did);
                        if let Ok(Some(inst)) = ty::Instance::try_resolve(tcx, env, *cd, ga) {
                            resolved = esc(&tcx.def_path_str_with_args(inst.def_id(), inst.args));
                        }
                        let dk = tcx.def_kind(*cd);
                        if matches!(dk, DefKind::Fn | DefKind::AssocFn) {
                            let attrs = tcx.codegen_fn_attrs(*cd);
                            let mut f = String::from("[");
                            for (i, tf) in attrs.target_features.iter().enumerate() {
                                if i > 0 {
                                    f.push(',');
                                }
                                f.push_str(&esc(tf.name.as_str()));
                            }
                            f.push(']');
                            feats = f;
                        }
                    }
                    let _ = write!(
                        s,
                        "{{\"k\":\"call\",\"callee\":{},\"resolved\":{},\"gargs\":{},\"feats\":{},\"func\":{},\"args\":[",
                        callee,
                        resolved,
                        gargs,
                        feats,
                        self.operand(did, body, func)
                    );
                    for (i, a) in args.iter().enumerate() {
                        if i > 0 {
                            s.push(',');
                        }
                        s.push_str(&self.operand(did, body, &a.node));
                    }
                    let _ = write!(
                        s,
                        "],\"dest\":{},\"t\":{},\"span\":{}}}",
                        self.place(body, destination),
                        target.map(|t| t.as_usize() as i64).unwrap_or(-1),
                        sp
                    );
                }
                other => {
                    let _ = write!(
                        s,
                        "{{\"k\":\"other\",\"text\":{}}}",
                        esc(&format!("{:?}", other).chars().take(80).collect::<String>())
                    );
                }
            }
            s.push('}');
        }
        s.push(']');
        s
    }
}

struct Cb;
impl rustc_driver::Callbacks for Cb {
    fn after_analysis<'tcx>(&mut self, _c: &Compiler, tcx: TyCtxt<'tcx>) -> Compilation {
        let krate = tcx.crate_name(LOCAL_CRATE).to_string();
        let want = std::env::var("DRV_CRATE").unwrap_or("arroy".into());
        if krate != want {
            return Compilation::Continue;
        }
        let cx = Cx { tcx };
        let mut out = String::from("{\"fns\":[");
        let mut first = true;
        for def in tcx.hir_body_owners() {
            let did = def.to_def_id();
            let kind = tcx.def_kind(did);
            if !matches!(kind, DefKind::Fn | DefKind::AssocFn | DefKind::Closure) {
                continue;
            }
            if !first {
                out.push(',');
            }
            first = false;
            let vis = if matches!(kind, DefKind::Fn | DefKind::AssocFn) {
                format!("{:?}", tcx.visibility(did))
            } else {
                "closure".to_string()
            };
            let mut feats = String::from("[]");
            if matches!(kind, DefKind::Fn | DefKind::AssocFn) {
                let attrs = tcx.codegen_fn_attrs(did);
                let mut f = String::from("[");
                for (i, tf) in attrs.target_features.iter().enumerate() {
                    if i > 0 {
                        f.push(',');
                    }
                    f.push_str(&esc(tf.name.as_str()));
                }
                f.push(']');
                feats = f;
            }
            let parent = tcx.opt_parent(did).map(|p| tcx.def_path_str(p)).unwrap_or_default();
            let is_unsafe = if matches!(kind, DefKind::Fn | DefKind::AssocFn) {
                !tcx.fn_sig(did).skip_binder().safety().is_safe()
            } else {
                false
            };
            let in_test = {
                // a body is test-only when any ancestor module is cfg(test): approximated by path segment
                let p = tcx.def_path_str(did);
                p.split("::").any(|seg| seg == "tests" || seg == "test" || seg.ends_with("_test"))
            };
            let mut upvars = String::from("[]");
            if kind == DefKind::Closure {
                let mut u = String::from("[");
                for (i, cap) in tcx.closure_captures(def).iter().enumerate() {
                    if i > 0 {
                        u.push(',');
                    }
                    let _ = write!(
                        u,
                        "{{\"name\":{},\"ty\":{},\"by\":{}}}",
                        esc(&cap.to_string(tcx)),
                        esc(&format!("{}", cap.place.ty())),
                        esc(&format!("{:?}", cap.info.capture_kind))
                    );
                }
                u.push(']');
                upvars = u;
            }
            let _ = write!(
                out,
                "{{\"path\":{},\"unsafe\":{},\"in_test\":{},\"kind\":{},\"vis\":{},\"parent\":{},\"feats\":{},\"upvars\":{},\"span\":{},{}}}",
                esc(&tcx.def_path_str(did)),
                is_unsafe,
                in_test,
                esc(&format!("{:?}", kind)),
                esc(&vis),
                esc(&parent),
                feats,
                upvars,
                cx.span(tcx.def_span(did)),
                cx.body(did)
            );
        }
        // constant items (`const X: [..] = ..`): their CTFE bodies, so that lookup tables can be read by the rules
        out.push_str("],\"consts\":[");
        let mut first_c = true;
        for def in tcx.hir_body_owners() {
            let did = def.to_def_id();
            let kind = tcx.def_kind(did);
            if !matches!(kind, DefKind::Const { .. } | DefKind::AssocConst { .. }) {
                continue;
            }
            let body = tcx.mir_for_ctfe(did);
            if !first_c {
                out.push(',');
            }
            first_c = false;
            let _ = write!(
                out,
                "{{\"path\":{},\"kind\":{},\"span\":{},{},\"promoted\":[]}}",
                esc(&tcx.def_path_str(did)),
                esc(&format!("{:?}", kind)),
                cx.span(tcx.def_span(did)),
                cx.body_of(did, body)
            );
        }
        out.push_str("],\"adts\":[");
        let mut first = true;
        for id in tcx.hir_crate_items(()).definitions() {
            let did = id.to_def_id();
            let kind = tcx.def_kind(did);
            if !matches!(kind, DefKind::Struct | DefKind::Enum) {
                continue;
            }
            if !first {
                out.push(',');
            }
            first = false;
            let adt = tcx.adt_def(did);
            let self_ty = tcx.type_of(did).instantiate_identity().skip_norm_wip();
            let env = ty::TypingEnv::post_analysis(tcx, did);
            let freeze = self_ty.is_freeze(tcx, env);
            let (size, align) = if tcx.generics_of(did).count() == 0 {
                match tcx.layout_of(env.as_query_input(self_ty)) {
                    Ok(l) => (l.size.bytes() as i64, l.align.abi.bytes() as i64),
                    Err(_) => (-1, -1),
                }
            } else {
                (-1, -1)
            };
            let _ = write!(
                out,
                "{{\"path\":{},\"freeze\":{},\"size\":{},\"align\":{},\"kind\":{},\"repr\":{},\"variants\":[",
                esc(&tcx.def_path_str(did)),
                freeze,
                size,
                align,
                esc(&format!("{:?}", kind)),
                esc(&format!("{:?}", adt.repr()))
            );
            for (i, (vidx, v)) in adt.variants().iter_enumerated().enumerate() {
                if i > 0 {
                    out.push(',');
                }
                let discr = if adt.is_enum() {
                    format!("\"{}\"", adt.discriminant_for_variant(tcx, vidx).val)
                } else {
                    "null".into()
                };
                let _ = write!(out, "{{\"name\":{},\"discr\":{},\"fields\":[", esc(&v.name.to_string()), discr);
                for (j, f) in v.fields.iter().enumerate() {
                    if j > 0 {
                        out.push(',');
                    }
                    let fty = tcx.type_of(f.did).instantiate_identity().skip_norm_wip();
                    let _ = write!(out, "{{\"name\":{},\"ty\":{}}}", esc(&f.name.to_string()), esc(&format!("{}", fty)));
                }
                out.push_str("]}");
            }
            out.push_str("]}");
        }
        out.push_str("],\"impls\":[");
        let mut first = true;
        for id in tcx.hir_crate_items(()).definitions() {
            let did = id.to_def_id();
            if !matches!(tcx.def_kind(did), DefKind::Impl { .. }) {
                continue;
            }
            if !first {
                out.push(',');
            }
            first = false;
            let tr = tcx.impl_opt_trait_ref(did).map(|t| format!("{}", t.instantiate_identity().skip_norm_wip().print_only_trait_path()));
            let self_ty = tcx.type_of(did).instantiate_identity().skip_norm_wip();
            let impl_unsafe = match tcx.impl_opt_trait_ref(did) {
                Some(_) => !tcx.impl_trait_header(did).safety.is_safe(),
                None => false,
            };
            let _ = write!(
                out,
                "{{\"path\":{},\"unsafe\":{},\"span\":{},\"trait\":{},\"self\":{},\"items\":[",
                esc(&tcx.def_path_str(did)),
                impl_unsafe,
                cx.span(tcx.def_span(did)),
                tr.as_ref().map(|t| esc(t)).unwrap_or("null".into()),
                esc(&format!("{}", self_ty)),
            );
            for (i, it) in tcx.associated_items(did).in_definition_order().enumerate() {
                if i > 0 {
                    out.push(',');
                }
                out.push_str(&esc(&it.opt_name().map(|n| n.to_string()).unwrap_or("<rpitit>".into())));
            }
            out.push_str("]}");
        }
        out.push_str("],\"statics\":[");
        let mut first = true;
        for id in tcx.hir_crate_items(()).definitions() {
            let did = id.to_def_id();
            if !matches!(tcx.def_kind(did), DefKind::Static { .. }) {
                continue;
            }
            if !first {
                out.push(',');
            }
            first = false;
            let sty = tcx.type_of(did).instantiate_identity().skip_norm_wip();
            let env = ty::TypingEnv::post_analysis(tcx, did);
            let attrs = tcx.codegen_fn_attrs(did);
            let tl = attrs.flags.contains(rustc_middle::middle::codegen_fn_attrs::CodegenFnAttrFlags::THREAD_LOCAL);
            let _ = write!(
                out,
                "{{\"path\":{},\"ty\":{},\"freeze\":{},\"mutable\":{},\"thread_local\":{},\"span\":{}}}",
                esc(&tcx.def_path_str(did)),
                esc(&format!("{}", sty)),
                sty.is_freeze(tcx, env),
                tcx.is_mutable_static(did),
                tl,
                cx.span(tcx.def_span(did))
            );
        }
        out.push_str("],\"cfg\":[");
        let mut cfgs: Vec<String> = tcx
            .sess
            .config
            .iter()
            .map(|(k, v)| match v {
                Some(v) => format!("{}={}", k, v),
                None => k.to_string(),
            })
            .collect();
        cfgs.sort();
        for (i, c) in cfgs.iter().enumerate() {
            if i > 0 {
                out.push(',');
            }
            out.push_str(&esc(c));
        }
        let _ = write!(
            out,
            "],\"nonce\":{},\"crate\":{},\"rustc\":{}}}",
            esc(&std::env::var("DRV_NONCE").unwrap_or_default()),
            esc(&krate),
            esc(&format!("{}", rustc_interface::util::rustc_version_str().unwrap_or("?")))
        );
        let path = std::env::var("DRV_OUT").unwrap_or("/tmp/proto/facts.json".into());
        std::fs::write(path, out).unwrap();
        Compilation::Continue
    }
}

fn main() {
    let mut args: Vec<String> = std::env::args().collect();
    args.remove(1);
    rustc_driver::run_compiler(&args, &mut Cb);
}
